package main

import (
	"bytes"
	"errors"
	"fmt"
	"math/rand"
	"os"
	"os/exec"
	"path"
	"path/filepath"
	"runtime"
	"sort"
	"strings"
	"sync"
	"syscall"
	"unicode/utf8"

	"github.com/rogpeppe/go-internal/txtar"

	"verif/harness/internal/corr"
	"verif/harness/internal/mdl"
)

// ---------------------------------------------------------------- abstract file systems

// An absFS maps an abstract absolute path ("/parent/dir/a"; "/" is the sandbox root) to a node.
type fsNode struct {
	dir  bool
	data []byte
	link string // non-empty: a symbolic link with this target (only in the oracle-only cases; not in the Lean model)
}

func (n fsNode) same(m fsNode) bool {
	return n.dir == m.dir && n.link == m.link && bytes.Equal(n.data, m.data)
}

type absFS map[string]fsNode

func (fs absFS) keys() []string {
	ks := make([]string, 0, len(fs))
	for k := range fs {
		ks = append(ks, k)
	}
	sort.Strings(ks)
	return ks
}

func (fs absFS) enc() string {
	if len(fs) == 0 {
		return "-"
	}
	var parts []string
	for _, k := range fs.keys() {
		n := fs[k]
		if n.link != "" {
			parts = append(parts, "l."+corr.Hx([]byte(k))+"."+corr.Hx([]byte(n.link)))
		} else if n.dir {
			parts = append(parts, "d."+corr.Hx([]byte(k)))
		} else {
			parts = append(parts, "f."+corr.Hx([]byte(k))+"."+corr.Hx(n.data))
		}
	}
	return strings.Join(parts, ",")
}

func decFS(s string) (absFS, error) {
	fs := absFS{}
	if s == "-" {
		return fs, nil
	}
	for _, e := range strings.Split(s, ",") {
		p := strings.Split(e, ".")
		switch {
		case len(p) == 2 && p[0] == "d":
			fs[string(unhx(p[1]))] = fsNode{dir: true}
		case len(p) == 3 && p[0] == "f":
			fs[string(unhx(p[1]))] = fsNode{data: unhx(p[2])}
		case len(p) == 3 && p[0] == "l":
			fs[string(unhx(p[1]))] = fsNode{link: string(unhx(p[2]))}
		default:
			return nil, fmt.Errorf("bad fs entry %q", e)
		}
	}
	return fs, nil
}

func unhx(s string) []byte {
	b := corr.Unhx(s)
	if b == nil {
		return []byte{}
	}
	return b
}

func (fs absFS) equal(o absFS) bool {
	if len(fs) != len(o) {
		return false
	}
	for k, n := range fs {
		m, ok := o[k]
		if !ok || !m.same(n) {
			return false
		}
	}
	return true
}

// materialize creates fs below root (parents first).
func materialize(root string, fs absFS) error {
	for _, k := range fs.keys() {
		n := fs[k]
		p := filepath.Join(root, k)
		if n.link != "" {
			if err := os.MkdirAll(filepath.Dir(p), 0o777); err != nil {
				return err
			}
			if err := os.Symlink(n.link, p); err != nil {
				return err
			}
		} else if n.dir {
			if err := os.MkdirAll(p, 0o777); err != nil {
				return err
			}
		} else {
			if err := os.MkdirAll(filepath.Dir(p), 0o777); err != nil {
				return err
			}
			if err := os.WriteFile(p, n.data, 0o666); err != nil {
				return err
			}
		}
	}
	return nil
}

// snapshot reads everything below root: paths, kinds, contents.
func snapshot(root string) (absFS, error) {
	fs := absFS{}
	err := filepath.Walk(root, func(p string, info os.FileInfo, err error) error {
		if err != nil {
			return err
		}
		if p == root {
			return nil
		}
		k := "/" + filepath.ToSlash(strings.TrimPrefix(p, root+string(filepath.Separator)))
		switch {
		case info.IsDir():
			fs[k] = fsNode{dir: true}
		case info.Mode().IsRegular():
			d, err := os.ReadFile(p)
			if err != nil {
				return err
			}
			fs[k] = fsNode{data: d}
		case info.Mode()&os.ModeSymlink != 0:
			t, err := os.Readlink(p)
			if err != nil {
				return err
			}
			fs[k] = fsNode{link: t}
		default:
			fs[k] = fsNode{data: []byte("<special " + info.Mode().String() + ">")}
		}
		return nil
	})
	return fs, err
}

func errClass(err error) string {
	switch {
	case err == nil:
		return "nil"
	case strings.Contains(err.Error(), "outside parent directory"):
		return "outside"
	case errors.Is(err, syscall.EEXIST), errors.Is(err, os.ErrExist):
		return "exists"
	case errors.Is(err, syscall.ENOTDIR):
		return "notdir"
	case errors.Is(err, syscall.ENOENT), errors.Is(err, os.ErrNotExist):
		return "noent"
	case errors.Is(err, syscall.EISDIR):
		return "isdir"
	}
	return "other:" + err.Error()
}

// errClassMsg classifies the message txtar-x prints.
func errClassMsg(exit int, stderr string) string {
	switch {
	case exit == 0:
		return "nil"
	case strings.Contains(stderr, "outside parent directory"):
		return "outside"
	case strings.Contains(stderr, "file exists"):
		return "exists"
	case strings.Contains(stderr, "not a directory"):
		return "notdir"
	case strings.Contains(stderr, "no such file or directory"):
		return "noent"
	case strings.Contains(stderr, "is a directory"):
		return "isdir"
	case strings.Contains(stderr, "panic:"):
		return "panic"
	}
	return fmt.Sprintf("other:exit %d: %s", exit, strings.TrimSpace(stderr))
}

// ---------------------------------------------------------------- archives

func encArchive(a *txtar.Archive) string {
	var sb strings.Builder
	sb.WriteString("c:" + corr.Hx(a.Comment))
	for _, f := range a.Files {
		sb.WriteString(";f:" + corr.Hx([]byte(f.Name)) + ":" + corr.Hx(f.Data))
	}
	return sb.String()
}

func decArchive(s string) (*txtar.Archive, error) {
	parts := strings.Split(s, ";")
	a := &txtar.Archive{}
	c := strings.Split(parts[0], ":")
	if len(c) != 2 || c[0] != "c" {
		return nil, fmt.Errorf("bad archive encoding")
	}
	a.Comment = unhx(c[1])
	for _, p := range parts[1:] {
		f := strings.Split(p, ":")
		if len(f) != 3 || f[0] != "f" {
			return nil, fmt.Errorf("bad archive file encoding")
		}
		a.Files = append(a.Files, txtar.File{Name: string(unhx(f[1])), Data: unhx(f[2])})
	}
	return a, nil
}

// ---------------------------------------------------------------- Write cases

type writeCase struct {
	dir   string // abstract absolute, clean
	start absFS
	a     *txtar.Archive
	cli   bool // serialise with txtar.Format and extract with the built txtar-x binary instead of calling Write
	sym   bool // the start state holds symbolic links: outside the Lean model, run against the oracle only
}

func (c writeCase) text() []byte { return txtar.Format(c.a) }

// archive as Write sees it: the case's own, or what txtar-x parses from its text
func (c writeCase) seen() *txtar.Archive {
	if c.cli {
		return txtar.Parse(c.text())
	}
	return c.a
}

func (c writeCase) line() string {
	if c.sym {
		return "wsym " + corr.Hx([]byte(c.dir)) + " " + c.start.enc() + " " + encArchive(c.a)
	}
	if c.cli {
		return "x " + corr.Hx([]byte(c.dir)) + " " + c.start.enc() + " " + corr.Hx(c.text())
	}
	return "write " + corr.Hx([]byte(c.dir)) + " " + c.start.enc() + " " + encArchive(c.a)
}

type writeOutcome struct {
	err           string
	before, after absFS
	setupErr      error
}

func runWriteImpl(sandbox string, c writeCase, binX string) (o writeOutcome) {
	defer os.RemoveAll(sandbox)
	if err := os.Mkdir(sandbox, 0o777); err != nil {
		o.setupErr = err
		return
	}
	if err := materialize(sandbox, c.start); err != nil {
		o.setupErr = err
		return
	}
	var err error
	if o.before, err = snapshot(sandbox); err != nil {
		o.setupErr = err
		return
	}
	target := filepath.Join(sandbox, filepath.FromSlash(c.dir))
	if c.cli {
		_, xerr, xexit, rerr := runCmd(os.TempDir(), c.text(), binX, "-C", target)
		if rerr != nil {
			o.setupErr = rerr
			return
		}
		o.err = errClassMsg(xexit, xerr)
	} else {
		o.err = errClass(txtar.Write(c.a, target))
	}
	if o.after, err = snapshot(sandbox); err != nil {
		o.setupErr = err
	}
	return
}

// parseModelW parses the driver's "err=<e> fs=<fs>" line.
func parseModelW(s string) (string, absFS, error) {
	f := strings.Fields(s)
	if len(f) != 2 || !strings.HasPrefix(f[0], "err=") || !strings.HasPrefix(f[1], "fs=") {
		return "", nil, fmt.Errorf("unexpected model line %q", s)
	}
	fs, err := decFS(strings.TrimPrefix(f[1], "fs="))
	return strings.TrimPrefix(f[0], "err="), fs, err
}

// escapesIndep: the statement's "absolute or climbs out through '..'", computed without Clean:
// walk the '/'-separated elements keeping the depth below the start; climbing out = depth < 0 at some point.
func escapesIndep(name string) bool {
	if strings.HasPrefix(name, "/") {
		return true
	}
	depth := 0
	for _, seg := range strings.Split(name, "/") {
		switch seg {
		case "", ".":
		case "..":
			depth--
			if depth < 0 {
				return true
			}
		default:
			depth++
		}
	}
	return false
}

// resolveIndep: where an entry name lands below dir, by the same element walk (no Clean, no Join).
func resolveIndep(dir, name string) string {
	var st []string
	for _, seg := range strings.Split(name, "/") {
		switch seg {
		case "", ".":
		case "..":
			if len(st) > 0 {
				st = st[:len(st)-1]
			}
		default:
			st = append(st, seg)
		}
	}
	if dir == "/" {
		return "/" + strings.Join(st, "/")
	}
	if len(st) == 0 {
		return dir
	}
	return dir + "/" + strings.Join(st, "/")
}

func under(dir, p string) bool { // strictly beneath
	if dir == "/" {
		return p != "/"
	}
	return strings.HasPrefix(p, dir+"/")
}

func writeOracle(res *corr.Result, c writeCase, o writeOutcome) {
	res.OracleChecked["C15"]++
	in := c.line()
	_, dirExisted := o.before[c.dir]
	if c.dir == "/" {
		dirExisted = true
	}
	seen := map[string]bool{}
	for _, k := range append(o.before.keys(), o.after.keys()...) {
		if seen[k] {
			continue
		}
		seen[k] = true
		b, okb := o.before[k]
		a, oka := o.after[k]
		switch {
		case okb && (!oka || !a.same(b)):
			res.Violate("C15", in, fmt.Sprintf("pre-existing %s was changed or removed", k), "overwrite")
		case !okb && oka && !under(c.dir, k):
			switch {
			case a.dir && (k == c.dir || strings.HasPrefix(c.dir, k+"/")):
				// MkdirAll created dir itself or one of its ancestors: expected when dir was missing
			case k == c.dir:
				res.Violate("C15", in, fmt.Sprintf("a regular file was created at dir itself (%s)", k), "file-created-at-dir-itself")
			case dirExisted:
				res.Violate("C15", in, fmt.Sprintf("%s was created outside dir %s", k, c.dir), "escape")
			default:
				res.Violate("C15", in, fmt.Sprintf("%s was created outside dir %s (dir did not exist before the call)", k, c.dir), "escape-when-dir-missing")
			}
		}
	}
	esc := false
	seenA := c.seen()
	for _, f := range seenA.Files {
		if escapesIndep(f.Name) {
			esc = true
		}
	}
	if esc && o.err == "nil" {
		res.Violate("C15", in, "an entry name is absolute or climbs out through '..' but Write returned nil", "no-error-for-escaping-name")
	}
	if o.err == "nil" {
		for _, f := range seenA.Files {
			p := resolveIndep(c.dir, f.Name)
			if b, existed := o.before[p]; existed {
				what := "file"
				if b.link != "" {
					what = "symbolic link -> " + b.link
				} else if b.dir {
					what = "directory"
				}
				res.Violate("C15", in, fmt.Sprintf("Write returned nil although entry %q names the existing %s (%s)", f.Name, p, what), "no-error-for-existing-path")
			}
			n, ok := o.after[p]
			if !ok || n.dir || n.link != "" || !bytes.Equal(n.data, f.Data) {
				res.Violate("C15", in, fmt.Sprintf("Write returned nil but %s does not hold the data of entry %q", p, f.Name), "content-mismatch")
			}
		}
	}
}

var segAlpha = []string{"", ".", "..", "a", "b c"}

func enumNames(maxSeg int, f func(string)) {
	var rec func(prefix []string)
	rec = func(prefix []string) {
		if len(prefix) > 0 {
			f(strings.Join(prefix, "/"))
		}
		if len(prefix) == maxSeg {
			return
		}
		for _, s := range segAlpha {
			rec(append(prefix, s))
		}
	}
	rec(nil)
}

// start states; "/" stands for the sandbox root, dir is /parent/dir unless stated otherwise.
func startState(kind int) (string, absFS) {
	decoys := absFS{
		"/a":            {data: []byte("root decoy a\n")},
		"/b c":          {data: []byte("root decoy b c\n")},
		"/parent":       {dir: true},
		"/parent/a":     {data: []byte("decoy a\n")},
		"/parent/b c":   {dir: true},
		"/parent/b c/a": {data: []byte("decoy b c/a\n")},
		"/parent/decoy": {data: []byte("decoy\n")},
	}
	fs := absFS{}
	for k, v := range decoys {
		fs[k] = v
	}
	switch kind {
	case 0: // dir exists and is empty
		fs["/parent/dir"] = fsNode{dir: true}
		return "/parent/dir", fs
	case 1: // dir exists: file a, directory "b c" with file a
		fs["/parent/dir"] = fsNode{dir: true}
		fs["/parent/dir/a"] = fsNode{data: []byte("old a\n")}
		fs["/parent/dir/b c"] = fsNode{dir: true}
		fs["/parent/dir/b c/a"] = fsNode{data: []byte("old b c/a\n")}
		return "/parent/dir", fs
	case 2: // dir exists: directory a with file "b c", file "b c"
		fs["/parent/dir"] = fsNode{dir: true}
		fs["/parent/dir/a"] = fsNode{dir: true}
		fs["/parent/dir/a/b c"] = fsNode{data: []byte("old a/b c\n")}
		fs["/parent/dir/b c"] = fsNode{data: []byte("old b c\n")}
		return "/parent/dir", fs
	case 3: // dir missing, its parent exists
		return "/parent/dir", fs
	case 4: // dir and its parent missing
		return "/parent/m/dir", fs
	case 5: // dir and two levels above missing
		return "/parent/m/n/dir", fs
	case 6: // dir is a regular file
		fs["/parent/dir"] = fsNode{data: []byte("dir is a file\n")}
		return "/parent/dir", fs
	default: // 7: dir is the sandbox root itself
		return "/", fs
	}
}

const nStartStates = 8

var startNames = []string{"dir-empty", "dir-with-file-a-dir-bc", "dir-with-dir-a-file-bc", "dir-missing", "parent-missing", "grandparent-missing", "dir-is-file", "dir-is-root"}

var dataPool = []string{"", "x\n", "hello\n", "no newline", "-- a --\n", "\xff\x00bin", "two\nlines\n"}

func randName(r *rand.Rand) string {
	n := 1 + r.Intn(4)
	segs := make([]string, n)
	for i := range segs {
		if r.Intn(3) == 0 {
			segs[i] = segAlpha[r.Intn(len(segAlpha))]
		} else {
			segs[i] = []string{"a", "b c", "c", "d"}[r.Intn(4)]
		}
	}
	return strings.Join(segs, "/")
}

var wideSegs = []string{"", ".", "..", "a", "b c", "...", "..a", "a.", ".a", "ü", "a\\b", " ", "c", "dir", "parent", "x.txt", "a..", "..."}

// randWriteArchiveWide: names over a wider segment alphabet, up to 6 segments, sometimes absolute.
func randWriteArchiveWide(r *rand.Rand) *txtar.Archive {
	a := &txtar.Archive{}
	for i, n := 0, 1+r.Intn(4); i < n; i++ {
		segs := make([]string, 1+r.Intn(6))
		for j := range segs {
			segs[j] = wideSegs[r.Intn(len(wideSegs))]
		}
		name := strings.Join(segs, "/")
		if r.Intn(12) == 0 {
			name = "/" + name
		}
		a.Files = append(a.Files, txtar.File{Name: name, Data: []byte(dataPool[r.Intn(len(dataPool))])})
	}
	return a
}

// randStartState: decoys plus a random population of dir (files and directories over the segment alphabet),
// dir at a random depth and possibly missing together with some of its ancestors.
func randStartState(r *rand.Rand) (string, absFS) {
	_, fs := startState(3)
	chain := []string{"parent", "m", "n", "dir"}[:]
	depth := 1 + r.Intn(4)
	comps := append([]string{}, chain[:depth-1]...)
	comps = append(comps, "dir")
	if depth == 1 {
		comps = []string{"dir"}
	}
	dir := "/" + strings.Join(comps, "/")
	exists := r.Intn(3) != 0
	if exists {
		p := ""
		for _, c := range comps {
			p += "/" + c
			fs[p] = fsNode{dir: true}
		}
		names := []string{"a", "b c", "c", "d", "..a", "a."}
		for i, n := 0, r.Intn(5); i < n; i++ {
			q := dir
			for j, d := 0, 1+r.Intn(3); j < d; j++ {
				q += "/" + names[r.Intn(len(names))]
				if _, taken := fs[q]; taken {
					if !fs[q].dir {
						break
					}
					continue
				}
				if j == d-1 && r.Intn(2) == 0 {
					fs[q] = fsNode{data: []byte("old " + q + "\n")}
				} else {
					fs[q] = fsNode{dir: true}
				}
			}
		}
	} else if r.Intn(2) == 0 && depth > 1 {
		// an ancestor exists, the rest is missing
		p := ""
		for _, c := range comps[:1+r.Intn(depth-1)] {
			p += "/" + c
			fs[p] = fsNode{dir: true}
		}
	}
	return dir, fs
}

func randWriteArchive(r *rand.Rand) *txtar.Archive {
	a := &txtar.Archive{}
	n := 1 + r.Intn(5)
	for i := 0; i < n; i++ {
		var name string
		switch {
		case i > 0 && r.Intn(5) == 0: // duplicate
			name = a.Files[r.Intn(i)].Name
		case i > 0 && r.Intn(4) == 0: // extends an earlier name: "a" then "a/b"
			name = a.Files[r.Intn(i)].Name + "/" + []string{"a", "b c", "..", "."}[r.Intn(4)]
		case i > 0 && r.Intn(6) == 0: // a prefix of an earlier name
			prev := a.Files[r.Intn(i)].Name
			if j := strings.LastIndex(prev, "/"); j > 0 {
				name = prev[:j]
			} else {
				name = randName(r)
			}
		default:
			name = randName(r)
		}
		a.Files = append(a.Files, txtar.File{Name: name, Data: []byte(dataPool[r.Intn(len(dataPool))])})
	}
	return a
}

// ---------------------------------------------------------------- oracle-only cases

// symlinkCases: dir = /parent/dir exists; a symbolic link sits where an entry wants to create its file.
// With O_CREATE|O_EXCL the open fails with EEXIST whatever the link points to.
func symlinkCases(r *rand.Rand, thorough bool) []writeCase {
	targets := []string{"t-in", "sub/t-in", "../escaped", "../../root-escaped", "../decoy", "../b c/a", "b", "nodir/x", ".", ".."}
	links := []string{"a", "sub/a", "b c"}
	namesFor := map[string][]string{
		"a":     {"a", "./a", "x/../a", "a/.", "a//", "a/b", "sub/../a"},
		"sub/a": {"sub/a", "sub//a", "./sub/x/../a", "sub/a/b"},
		"b c":   {"b c", "b c/", "b c/a"},
	}
	mk := func(link, target string) absFS {
		_, fs := startState(0)
		fs["/parent/dir/b"] = fsNode{data: []byte("old b\n")}
		fs["/parent/dir/sub"] = fsNode{dir: true}
		fs["/parent/dir/"+link] = fsNode{link: target}
		return fs
	}
	var out []writeCase
	for _, l := range links {
		for _, t := range targets {
			for _, n := range namesFor[l] {
				out = append(out, writeCase{dir: "/parent/dir", start: mk(l, t), sym: true,
					a: &txtar.Archive{Files: []txtar.File{{Name: n, Data: []byte("new " + n + "\n")}}}})
				out = append(out, writeCase{dir: "/parent/dir", start: mk(l, t), sym: true,
					a: &txtar.Archive{Files: []txtar.File{{Name: "ok", Data: []byte("ok\n")}, {Name: n, Data: []byte("hello\n")}, {Name: "x", Data: []byte("x\n")}}}})
			}
		}
	}
	nr := 300
	if thorough {
		nr = 5000
	}
	for i := 0; i < nr; i++ {
		fs := mk(links[r.Intn(len(links))], targets[r.Intn(len(targets))])
		if r.Intn(3) == 0 { // a second link
			fs["/parent/dir/"+[]string{"c", "d", "sub/c"}[r.Intn(3)]] = fsNode{link: targets[r.Intn(len(targets))]}
		}
		out = append(out, writeCase{dir: "/parent/dir", start: fs, sym: true, a: randWriteArchive(r)})
	}
	// Out of scope (props.json: symbolic links to directories on the way to an entry are followed by MkdirAll and
	// by the kernel's path resolution, also in the unchanged code): keep only cases where no entry passes
	// THROUGH a link that resolves to an existing directory.  A link AT an entry's path stays, whatever it points to.
	kept := out[:0]
	for _, c := range out {
		if !throughDirLink(c) {
			kept = append(kept, c)
		}
	}
	return kept
}

func throughDirLink(c writeCase) bool {
	for l, n := range c.start {
		if n.link == "" {
			continue
		}
		resolved := path.Clean(path.Join(path.Dir(l), n.link))
		if t, ok := c.start[resolved]; !(resolved == "/" || ok && t.dir) {
			continue
		}
		for _, f := range c.a.Files {
			if strings.HasPrefix(resolveIndep(c.dir, f.Name), l+"/") {
				return true
			}
		}
	}
	return false
}

// concurrentOracle: n goroutines Write the same single-entry archive (with their own data) into one existing
// directory at the same moment. O_EXCL makes exactly one of them succeed.
func concurrentOracle(res *corr.Result, tmp string, n, rounds int) {
	in := fmt.Sprintf("wconc %d %d", n, rounds)
	for round := 0; round < rounds; round++ {
		res.OracleChecked["C15"]++
		res.Distribution["write:oracle-only-concurrent"]++
		dir := filepath.Join(tmp, fmt.Sprintf("conc%d", round))
		if err := os.Mkdir(dir, 0o777); err != nil {
			res.Observations = append(res.Observations, "sandbox problem: "+err.Error())
			return
		}
		errs := make([]string, n)
		start := make(chan struct{})
		var wg sync.WaitGroup
		for g := 0; g < n; g++ {
			wg.Add(1)
			go func(g int) {
				defer wg.Done()
				a := &txtar.Archive{Files: []txtar.File{{Name: "sub/f", Data: bytes.Repeat([]byte(fmt.Sprintf("writer %d\n", g)), 64)}}}
				<-start
				errs[g] = errClass(txtar.Write(a, dir))
			}(g)
		}
		close(start)
		wg.Wait()
		winners := 0
		var winner int
		for g, e := range errs {
			switch e {
			case "nil":
				winners++
				winner = g
			case "exists":
			default:
				res.Violate("C15", in, "a concurrent writer got the unexpected error "+e, "concurrent-writers-unexpected-error")
			}
		}
		data, _ := os.ReadFile(filepath.Join(dir, "sub", "f"))
		switch {
		case winners != 1:
			res.Violate("C15", in, fmt.Sprintf("%d of %d concurrent writers of the same entry returned nil (an existing file was overwritten)", winners, n), "concurrent-writers-not-exclusive")
		case !bytes.Equal(data, bytes.Repeat([]byte(fmt.Sprintf("writer %d\n", winner)), 64)):
			res.Violate("C15", in, "the file does not hold the data of the one writer that succeeded", "concurrent-writers-content")
		}
		os.RemoveAll(dir)
	}
}

// ---------------------------------------------------------------- trees (round trip)

type tnode struct {
	name string
	kind int // 0 regular file, 1 directory, 2 symbolic link ("other")
	data []byte
	kids []*tnode
}

func encTree(kids []*tnode) string {
	var toks []string
	var rec func(ns []*tnode)
	rec = func(ns []*tnode) {
		for _, n := range ns {
			switch n.kind {
			case 0:
				toks = append(toks, "F."+corr.Hx([]byte(n.name))+"."+corr.Hx(n.data))
			case 1:
				toks = append(toks, "D."+corr.Hx([]byte(n.name)))
				rec(n.kids)
				toks = append(toks, "E")
			default:
				toks = append(toks, "O."+corr.Hx([]byte(n.name)))
			}
		}
	}
	rec(kids)
	if len(toks) == 0 {
		return "-"
	}
	return strings.Join(toks, ",")
}

func decTree(s string) ([]*tnode, error) {
	root := &tnode{kind: 1}
	stack := []*tnode{root}
	if s == "-" {
		return nil, nil
	}
	for _, tok := range strings.Split(s, ",") {
		p := strings.Split(tok, ".")
		top := stack[len(stack)-1]
		switch {
		case p[0] == "D" && len(p) == 2:
			n := &tnode{name: string(unhx(p[1])), kind: 1}
			top.kids = append(top.kids, n)
			stack = append(stack, n)
		case p[0] == "E" && len(p) == 1 && len(stack) > 1:
			stack = stack[:len(stack)-1]
		case p[0] == "F" && len(p) == 3:
			top.kids = append(top.kids, &tnode{name: string(unhx(p[1])), data: unhx(p[2])})
		case p[0] == "O" && len(p) == 2:
			top.kids = append(top.kids, &tnode{name: string(unhx(p[1])), kind: 2})
		default:
			return nil, fmt.Errorf("bad tree token %q", tok)
		}
	}
	return root.kids, nil
}

func sortTree(ns []*tnode) {
	sort.Slice(ns, func(i, j int) bool { return ns[i].name < ns[j].name }) // filepath.Walk: sort.Strings on names
	for _, n := range ns {
		sortTree(n.kids)
	}
}

var treeFileNames = []string{"a", "b", "c.txt", "b c", "d", ".hid", ".x y", "ü", "x --", "-- y", "..a", "a.b", "main.go", "unquote", "q", "z"}
var treeBadNames = []string{" lead", "trail ", "nl\nx", "tab\t", " nbsp"}
var treeDirNames = []string{"sub", "d", ".git", "a dir", "x", "y", "-- --"}
var treeBodies = []string{"", "x\n", "x", "hello world\n", "-- a --\n", "x\n-- a --\n", "-- a --", ">-- a --\n", "-- a --\r\n", "--  --\n", "-- --\n",
	"a\r\n", "\xff\n", "\xfe", "line\n\n", " -- a --\n", "-- a -- \n", "--a --\n", "unquote a\n", "héllo\n", "x\n-- b c --\ny", "-- q --\n-- r --\n", "\n", "\n\n-- z --",
	"package main\n\nfunc main() {}\n", "a\n>b\n", "-- a --\n\xff\n"}

func randBody(r *rand.Rand) []byte {
	if r.Intn(4) == 0 {
		var b []byte
		for i, n := 0, 1+r.Intn(4); i < n; i++ {
			b = append(b, treeBodies[r.Intn(len(treeBodies))]...)
		}
		return b
	}
	return []byte(treeBodies[r.Intn(len(treeBodies))])
}

func genTree(r *rand.Rand, depth int, budget *int, allowBad bool) []*tnode {
	var out []*tnode
	used := map[string]bool{}
	n := 1 + r.Intn(5)
	if depth == 1 && r.Intn(20) == 0 {
		n = 0
	}
	for i := 0; i < n; i++ {
		switch {
		case depth < 4 && r.Intn(3) == 0:
			name := treeDirNames[r.Intn(len(treeDirNames))]
			if used[name] {
				continue
			}
			used[name] = true
			d := &tnode{name: name, kind: 1}
			if r.Intn(8) != 0 { // sometimes an empty directory
				d.kids = genTree(r, depth+1, budget, allowBad)
			}
			out = append(out, d)
		case r.Intn(15) == 0:
			name := "lnk" + treeFileNames[r.Intn(len(treeFileNames))]
			if used[name] {
				continue
			}
			used[name] = true
			out = append(out, &tnode{name: name, kind: 2})
		default:
			if *budget <= 0 {
				continue
			}
			name := treeFileNames[r.Intn(len(treeFileNames))]
			if allowBad && r.Intn(12) == 0 {
				name = treeBadNames[r.Intn(len(treeBadNames))]
			}
			if used[name] {
				continue
			}
			used[name] = true
			*budget--
			out = append(out, &tnode{name: name, data: randBody(r)})
		}
	}
	return out
}

func materializeTree(root string, ns []*tnode) error {
	for _, n := range ns {
		p := filepath.Join(root, n.name)
		switch n.kind {
		case 0:
			if err := os.WriteFile(p, n.data, 0o666); err != nil {
				return err
			}
		case 1:
			if err := os.Mkdir(p, 0o777); err != nil {
				return err
			}
			if err := materializeTree(p, n.kids); err != nil {
				return err
			}
		default:
			if err := os.Symlink("/nonexistent-target", p); err != nil {
				return err
			}
		}
	}
	return nil
}

type rtCase struct {
	all, quote bool
	variant    int // how the binaries are invoked, see runRTImpl
	tree       []*tnode
}

func b01(b bool) string {
	if b {
		return "1"
	}
	return "0"
}

func (c rtCase) line() string {
	return fmt.Sprintf("rt %s%s %d %s", b01(c.all), b01(c.quote), c.variant, encTree(c.tree))
}
func (c rtCase) saveLine() string { return "save " + b01(c.all) + b01(c.quote) + " " + encTree(c.tree) }

type rtOutcome struct {
	archive  []byte
	cExit    int
	cErr     string
	xClass   string
	xStart   absFS
	after    absFS
	setupErr error
}

func runCmd(cwd string, stdin []byte, bin string, args ...string) (stdout []byte, stderr string, exit int, err error) {
	cmd := exec.Command(bin, args...)
	cmd.Dir = cwd
	if stdin != nil {
		cmd.Stdin = bytes.NewReader(stdin)
	}
	var so, se bytes.Buffer
	cmd.Stdout, cmd.Stderr = &so, &se
	err = cmd.Run()
	if ee, ok := err.(*exec.ExitError); ok {
		return so.Bytes(), se.String(), ee.ExitCode(), nil
	}
	return so.Bytes(), se.String(), 0, err
}

// runRTImpl: sandbox/in = the tree, sandbox/x = the extraction root (the model's "/"), out = /out.
// variant bits: 1 = txtar-c gets a relative unclean dir ("./in/") with cwd=sandbox; 2 = txtar-c gets "." with cwd=in;
// 4 = out does not exist before txtar-x; 8 = txtar-x runs with cwd=out and the default -C; 16 = archive passed as a file argument;
// 32 = out already holds files and directories that may be in the way.
func runRTImpl(sandbox, binC, binX string, c rtCase) (o rtOutcome) {
	defer os.RemoveAll(sandbox)
	in, x := filepath.Join(sandbox, "in"), filepath.Join(sandbox, "x")
	for _, d := range []string{sandbox, in, x} {
		if err := os.Mkdir(d, 0o777); err != nil {
			o.setupErr = err
			return
		}
	}
	if err := materializeTree(in, c.tree); err != nil {
		o.setupErr = err
		return
	}
	var flags []string
	if c.all {
		flags = append(flags, "-a")
	}
	if c.quote {
		flags = append(flags, "-quote")
	}
	cwd, dirArg := sandbox, in
	switch {
	case c.variant&1 != 0:
		dirArg = "./in/"
	case c.variant&2 != 0:
		cwd, dirArg = in, "."
	}
	var err error
	o.archive, o.cErr, o.cExit, err = runCmd(cwd, nil, binC, append(flags, dirArg)...)
	if err != nil {
		o.setupErr = err
		return
	}
	if o.cExit != 0 {
		return
	}
	out := filepath.Join(x, "out")
	outMissing := c.variant&4 != 0 && c.variant&8 == 0
	if !outMissing {
		if err := os.Mkdir(out, 0o777); err != nil {
			o.setupErr = err
			return
		}
	}
	if c.variant&32 != 0 && !outMissing {
		// the target is not clear: things are in the way (correspondence only, the round-trip oracle needs a clear target)
		for _, e := range []struct {
			p string
			d bool
		}{{"a", false}, {"sub", true}, {"sub/x", false}, {"d", false}, {"c.txt", true}} {
			var err error
			if e.d {
				err = os.Mkdir(filepath.Join(out, e.p), 0o777)
			} else {
				err = os.WriteFile(filepath.Join(out, e.p), []byte("in the way\n"), 0o666)
			}
			if err != nil {
				o.setupErr = err
				return
			}
		}
	}
	if o.xStart, err = snapshot(x); err != nil {
		o.setupErr = err
		return
	}
	var xargs []string
	xcwd := sandbox
	if c.variant&8 != 0 {
		xcwd = out
	} else {
		xargs = append(xargs, "-C", out)
	}
	var stdin []byte
	if c.variant&16 != 0 {
		af := filepath.Join(sandbox, "archive.txtar")
		if err := os.WriteFile(af, o.archive, 0o666); err != nil {
			o.setupErr = err
			return
		}
		xargs = append(xargs, af)
	} else {
		stdin = o.archive
		if stdin == nil {
			stdin = []byte{}
		}
	}
	_, xerr, xexit, err := runCmd(xcwd, stdin, binX, xargs...)
	if err != nil {
		o.setupErr = err
		return
	}
	o.xClass = errClassMsg(xexit, xerr)
	if o.after, err = snapshot(x); err != nil {
		o.setupErr = err
	}
	return
}

// independent definition of "marker line" (as in the txtar group's oracle)
func isMarkerLineIndep(line []byte) bool {
	line = bytes.TrimSuffix(line, []byte("\r"))
	if len(line) < 6 || !bytes.HasPrefix(line, []byte("-- ")) || !bytes.HasSuffix(line, []byte(" --")) {
		return false
	}
	return strings.TrimSpace(string(line[3:len(line)-3])) != ""
}

func hasMarkerLineIndep(d []byte) bool {
	for _, l := range bytes.Split(d, []byte("\n")) {
		if isMarkerLineIndep(l) {
			return true
		}
	}
	return false
}

func fixNLIndep(d []byte) []byte {
	if len(d) == 0 || d[len(d)-1] == '\n' {
		return d
	}
	return append(append([]byte{}, d...), '\n')
}

type archived struct {
	rel    string
	want   []byte // content with the final newline
	quoted bool
}

// archivedIndep lists the files the statement says are archived, from the tree alone.
func archivedIndep(c rtCase) (files []archived, namesOK bool) {
	namesOK = true
	var rec func(prefix string, ns []*tnode)
	rec = func(prefix string, ns []*tnode) {
		for _, n := range ns {
			if strings.HasPrefix(n.name, ".") && !c.all {
				continue
			}
			rel := prefix + n.name
			switch n.kind {
			case 1:
				rec(rel+"/", n.kids)
			case 0:
				if !utf8.Valid(n.data) {
					continue
				}
				want := fixNLIndep(n.data)
				q := hasMarkerLineIndep(want)
				if q && !c.quote {
					continue
				}
				if rel == "" || strings.TrimSpace(rel) != rel || strings.Contains(rel, "\n") {
					namesOK = false
				}
				files = append(files, archived{rel, want, q})
			}
		}
	}
	rec("", c.tree)
	return
}

func rtOracle(res *corr.Result, c rtCase, o rtOutcome) (checked bool) {
	files, namesOK := archivedIndep(c)
	if c.variant&32 != 0 {
		res.Distribution["rt:target-not-clear(oracle skipped)"]++
		return false
	}
	if !namesOK {
		res.Distribution["rt:names-not-representable(oracle skipped)"]++
		return false
	}
	res.OracleChecked["C15"]++
	in := c.line()
	if o.cExit != 0 {
		res.Violate("C15", in, "txtar-c failed: "+o.cErr, "roundtrip-txtar-c-error")
		return true
	}
	if o.xClass != "nil" {
		res.Violate("C15", in, "txtar-x failed on txtar-c's output: "+o.xClass, "roundtrip-error")
		return true
	}
	want := map[string]bool{}
	for _, f := range files {
		p := "/out/" + f.rel
		want[p] = true
		n, ok := o.after[p]
		switch {
		case !ok || n.dir:
			res.Violate("C15", in, "archived file "+f.rel+" did not come back", "roundtrip-missing")
		case !f.quoted && !bytes.Equal(n.data, f.want):
			res.Violate("C15", in, "archived file "+f.rel+" came back with different content", "roundtrip-content")
		case f.quoted:
			u, err := txtar.Unquote(append([]byte{}, n.data...))
			if err != nil || !bytes.Equal(u, f.want) {
				res.Violate("C15", in, "quoted file "+f.rel+" is not restored by Unquote", "roundtrip-unquote")
			}
			if !bytes.Contains(append([]byte("\n"), o.archive...), []byte("\nunquote "+f.rel+"\n")) {
				res.Violate("C15", in, "no `unquote "+f.rel+"` comment line for the quoted file", "roundtrip-unquote-line")
			}
		}
	}
	for k, n := range o.after {
		if !n.dir && !want[k] {
			res.Violate("C15", in, "extraction produced "+k+" which is not an archived file", "roundtrip-extra")
		}
		if !under("/out", k) && k != "/out" {
			res.Violate("C15", in, "extraction produced "+k+" outside the target directory", "escape")
		}
	}
	return true
}

// ---------------------------------------------------------------- parallel helper

func parallel(n int, f func(i, worker int)) {
	w := runtime.NumCPU()
	if w > 16 {
		w = 16
	}
	var wg sync.WaitGroup
	next := make(chan int, 256)
	for k := 0; k < w; k++ {
		wg.Add(1)
		go func(k int) {
			defer wg.Done()
			for i := range next {
				f(i, k)
			}
		}(k)
	}
	for i := 0; i < n; i++ {
		next <- i
	}
	close(next)
	wg.Wait()
}

// ---------------------------------------------------------------- driver

func buildTools(tmp string) (binC, binX string, err error) {
	repo := os.Getenv("VERIF_REPO")
	if repo == "" {
		repo = "/repo"
	}
	bin := filepath.Join(tmp, "bin")
	if err := os.Mkdir(bin, 0o777); err != nil {
		return "", "", err
	}
	cmd := exec.Command("go", "build", "-o", bin+string(filepath.Separator), "github.com/rogpeppe/go-internal/cmd/txtar-c", "github.com/rogpeppe/go-internal/cmd/txtar-x")
	cmd.Dir = repo
	cmd.Env = append(os.Environ(), "GOFLAGS=-mod=mod", "GOPROXY=off", "GOSUMDB=off", "GOTOOLCHAIN=local")
	if out, err := cmd.CombinedOutput(); err != nil {
		return "", "", fmt.Errorf("building txtar-c/txtar-x from %s: %v: %s", repo, err, out)
	}
	return filepath.Join(bin, "txtar-c"), filepath.Join(bin, "txtar-x"), nil
}

var regressionNames = []string{"..", "../", "c/../..", "", ".", "a/..", "a/../..", "..a", "a//b", "/abs", "../x", "./../a", "a/../../a", "b c/../../dir/x", "../dir/a"}

func runFsx(tier string, seed int64, model string, replay string) *corr.Result {
	res := corr.NewResult("fsx", tier, seed)
	r := rand.New(rand.NewSource(seed))
	// sandboxes live on a memory file system when there is one: tens of thousands of tiny create/stat/remove
	// operations are much cheaper there and do not compete with other checks for the disk
	base := ""
	if st, e := os.Stat("/dev/shm"); e == nil && st.IsDir() {
		if f, e := os.CreateTemp("/dev/shm", "giv-fsx-probe-"); e == nil {
			f.Close()
			os.Remove(f.Name())
			base = "/dev/shm"
		}
	}
	tmp, err := os.MkdirTemp(base, "giv-fsx-")
	if err != nil {
		res.Observations = append(res.Observations, "cannot create temp dir: "+err.Error())
		res.Disagree("<setup>", err.Error(), "")
		return res
	}
	defer os.RemoveAll(tmp)
	thorough := tier == "thorough"

	var cleanIn []string
	var wcases []writeCase
	var rcases []rtCase
	var scases []writeCase // symbolic links in the start state: oracle only, no model comparison
	concRounds, concN := 0, 8

	if replay != "" {
		f := strings.Fields(replay)
		switch {
		case len(f) == 2 && f[0] == "clean":
			cleanIn = append(cleanIn, string(unhx(f[1])))
		case len(f) == 4 && f[0] == "write":
			fs, e1 := decFS(f[2])
			a, e2 := decArchive(f[3])
			if e1 != nil || e2 != nil {
				res.Disagree(replay, "unparsable replay case", "")
				return res
			}
			wcases = append(wcases, writeCase{dir: string(unhx(f[1])), start: fs, a: a})
		case len(f) == 4 && f[0] == "wsym":
			fs, e1 := decFS(f[2])
			a, e2 := decArchive(f[3])
			if e1 != nil || e2 != nil {
				res.Disagree(replay, "unparsable replay case", "")
				return res
			}
			scases = append(scases, writeCase{dir: string(unhx(f[1])), start: fs, a: a, sym: true})
		case len(f) == 3 && f[0] == "wconc":
			fmt.Sscanf(f[1], "%d", &concN)
			fmt.Sscanf(f[2], "%d", &concRounds)
		case len(f) == 4 && f[0] == "x":
			fs, e1 := decFS(f[2])
			if e1 != nil {
				res.Disagree(replay, "unparsable replay case", "")
				return res
			}
			// the text is replayed as is: wrap it in an archive that formats to it when possible
			wcases = append(wcases, writeCase{dir: string(unhx(f[1])), start: fs, a: txtar.Parse(unhx(f[3])), cli: true})
		case len(f) == 4 && f[0] == "rt" && len(f[1]) == 2:
			t, e := decTree(f[3])
			var v int
			fmt.Sscanf(f[2], "%d", &v)
			if e != nil {
				res.Disagree(replay, "unparsable replay case", "")
				return res
			}
			rcases = append(rcases, rtCase{f[1][0] == '1', f[1][1] == '1', v, t})
		default:
			res.Disagree(replay, "unparsable replay case", "")
			return res
		}
	} else {
		// ---- Clean: every name over the segment alphabet up to 6 (thorough 7) segments, and all strings over {/ . a} up to 8 (9)
		seenC := map[string]bool{}
		addC := func(s string) {
			if !seenC[s] {
				seenC[s] = true
				cleanIn = append(cleanIn, s)
			}
		}
		addC("")
		maxSeg, maxLen := 6, 8
		if thorough {
			maxSeg, maxLen = 7, 10
		}
		enumNames(maxSeg, addC)
		var rec func(b []byte)
		rec = func(b []byte) {
			addC(string(b))
			if len(b) == maxLen {
				return
			}
			for _, ch := range []byte("/.a") {
				rec(append(b, ch))
			}
		}
		rec(nil)
		nrc := 5000
		if thorough {
			nrc = 100000
		}
		pieces := []string{"/", "//", ".", "..", "...", "a", "b c", "ü", "\xff", "../", "/..", "./", " ", "a.b", ".a", "a."}
		for i := 0; i < nrc; i++ {
			var sb strings.Builder
			for j, n := 0, r.Intn(10); j < n; j++ {
				sb.WriteString(pieces[r.Intn(len(pieces))])
			}
			addC(sb.String())
		}
		res.Distribution["clean:inputs"] = len(cleanIn)

		// ---- Write: regression corpus × every start state
		one := func(name string, st int) writeCase {
			dir, fs := startState(st)
			return writeCase{dir: dir, start: fs, a: &txtar.Archive{Files: []txtar.File{{Name: name, Data: []byte("new " + name + "\n")}}}}
		}
		for _, n := range regressionNames {
			for st := 0; st < nStartStates; st++ {
				wcases = append(wcases, one(n, st))
				// followed by a harmless entry: what was created before an error must stay / the error must come from the first
				dir, fs := startState(st)
				three := &txtar.Archive{Files: []txtar.File{{Name: "ok", Data: []byte("ok\n")}, {Name: n, Data: []byte("hello\n")}, {Name: "x", Data: []byte("x\n")}}}
				wcases = append(wcases, writeCase{dir: dir, start: fs, a: three})
				// and through the txtar-x binary (names that survive Format/Parse)
				if n != "" && strings.TrimSpace(n) == n {
					c1 := one(n, st)
					c1.cli = true
					wcases = append(wcases, c1, writeCase{dir: dir, start: fs, a: three, cli: true})
				}
			}
		}
		// exhaustive single-entry archives: up to 6 segments against "dir with pre-existing entries" (state 1),
		// shorter names against every other start state (quick); thorough: 6 segments against every state.
		for st := 0; st < nStartStates; st++ {
			m := 4
			if st == 1 || thorough {
				m = 6
			}
			if st == 3 || st == 4 {
				if !thorough {
					m = 5
				}
			}
			enumNames(m, func(n string) { wcases = append(wcases, one(n, st)) })
		}
		res.Exhaustive = true
		res.Extra["exhaustive_spaces"] = []string{
			fmt.Sprintf("filepath.Clean vs cleanPath: all names of 1..%d segments over %q joined by '/', all strings over \"/.a\" up to length %d", maxSeg, segAlpha, maxLen),
			"txtar.Write, single-entry archives: all names of 1..6 segments over the segment alphabet against start state dir-with-file-a-dir-bc" +
				map[bool]string{true: " and against every other start state", false: "; 1..4 (dir-missing, parent-missing: 1..5) segments against the other start states"}[thorough],
		}
		res.Extra["start_states"] = startNames
		nmulti := 3000
		if thorough {
			nmulti = 60000
		}
		for i := 0; i < nmulti; i++ {
			dir, fs := startState(r.Intn(nStartStates))
			if i%3 == 0 {
				dir, fs = randStartState(r)
			}
			a := randWriteArchive(r)
			if i%4 == 1 {
				a = randWriteArchiveWide(r)
			}
			cli := i%10 == 7
			if cli {
				for _, f := range a.Files {
					if f.Name == "" || strings.TrimSpace(f.Name) != f.Name || strings.Contains(f.Name, "\n") {
						cli = false
					}
					if len(f.Data) > 0 && (f.Data[len(f.Data)-1] != '\n' || hasMarkerLineIndep(f.Data)) {
						cli = false // would not survive Format/Parse unchanged; keep the case on the Write side
					}
				}
			}
			wcases = append(wcases, writeCase{dir: dir, start: fs, a: a, cli: cli})
		}
		// exhaustive two-entry archives over short names (duplicates, "a" then "a/b", "a/b" then "a", escapes second …)
		pairSeg, pairStates := 2, []int{0, 1, 3}
		if thorough {
			pairSeg, pairStates = 3, []int{1, 4}
		}
		var shortNames []string
		enumNames(pairSeg, func(n string) { shortNames = append(shortNames, n) })
		for _, st := range pairStates {
			for _, n1 := range shortNames {
				for _, n2 := range shortNames {
					dir, fs := startState(st)
					wcases = append(wcases, writeCase{dir: dir, start: fs, a: &txtar.Archive{Files: []txtar.File{{Name: n1, Data: []byte("1\n")}, {Name: n2, Data: []byte("2\n")}}}})
				}
			}
		}
		res.Extra["exhaustive_spaces"] = append(res.Extra["exhaustive_spaces"].([]string),
			fmt.Sprintf("txtar.Write, two-entry archives: all pairs of names of 1..%d segments (%d names) against start states %v", pairSeg, len(shortNames), pairStates))
		// ---- oracle-only: symbolic links at (or on the way to) an entry's path; concurrent extractions
		scases = symlinkCases(r, thorough)
		concRounds = 40
		if thorough {
			concRounds = 400
		}
		// ---- round trip
		nrt := 400
		if thorough {
			nrt = 6000
		}
		// fixed corpus: the trees of the repo's own CLI scripts in spirit + look-alikes
		corpus := [][]*tnode{
			{{name: "a", data: []byte("-- x --\n")}, {name: "sub", kind: 1, kids: []*tnode{{name: "b c", data: []byte("no newline")}}}, {name: ".hid", data: []byte("h\n")}},
			{{name: "empty", data: nil}, {name: "e", kind: 1}, {name: "bin", data: []byte("\xff\xfe")}},
			{},
		}
		for _, t := range corpus {
			sortTree(t)
			for v := 0; v < 4; v++ {
				rcases = append(rcases, rtCase{v&1 != 0, v&2 != 0, 0, t})
			}
		}
		for i := 0; i < nrt; i++ {
			budget := 12
			t := genTree(r, 1, &budget, i%5 == 4)
			sortTree(t)
			variant := 0
			switch r.Intn(4) {
			case 0:
				variant |= 1
			case 1:
				variant |= 2
			}
			switch r.Intn(4) {
			case 0:
				variant |= 4
			case 1:
				variant |= 8
			}
			if r.Intn(3) == 0 {
				variant |= 16
			}
			if r.Intn(8) == 0 {
				variant |= 32
			}
			rcases = append(rcases, rtCase{r.Intn(2) == 0, r.Intn(3) != 0, variant, t})
		}
	}

	// ---------------------------------------------------------------- implementation runs
	binC, binX, err := buildTools(tmp)
	if err != nil {
		res.Observations = append(res.Observations, err.Error())
		res.Disagree("<build txtar-c/txtar-x>", err.Error(), "")
		return res
	}
	wout := make([]writeOutcome, len(wcases))
	parallel(len(wcases), func(i, k int) {
		wout[i] = runWriteImpl(filepath.Join(tmp, fmt.Sprintf("w%d-%d", k, i)), wcases[i], binX)
	})
	sout := make([]writeOutcome, len(scases))
	parallel(len(scases), func(i, k int) {
		sout[i] = runWriteImpl(filepath.Join(tmp, fmt.Sprintf("s%d-%d", k, i)), scases[i], binX)
	})
	rout := make([]rtOutcome, len(rcases))
	if len(rcases) > 0 {
		parallel(len(rcases), func(i, k int) {
			rout[i] = runRTImpl(filepath.Join(tmp, fmt.Sprintf("r%d-%d", k, i)), binC, binX, rcases[i])
		})
	}

	// ---------------------------------------------------------------- model runs
	var lines []string
	for _, s := range cleanIn {
		lines = append(lines, "clean "+corr.Hx([]byte(s)))
	}
	wOff := len(lines)
	for _, c := range wcases {
		lines = append(lines, c.line())
	}
	sOff := len(lines)
	for _, c := range rcases {
		lines = append(lines, c.saveLine())
	}
	xOff := len(lines)
	for i := range rcases {
		// the model extracts the bytes the real txtar-c produced (they are compared with the model's own bytes above)
		lines = append(lines, "x "+corr.Hx([]byte("/out"))+" "+rout[i].xStart.enc()+" "+corr.Hx(rout[i].archive))
	}
	mo, err := mdl.Run(model, nil, lines, 0)
	if err != nil {
		res.Observations = append(res.Observations, "model driver error: "+err.Error())
		res.Disagree("<driver>", "", err.Error())
		return res
	}

	// ---------------------------------------------------------------- compare + oracles
	nontrivial := map[string]bool{}
	for i, s := range cleanIn {
		impl := corr.Hx([]byte(filepath.Clean(s)))
		impl = impl + " " + impl // the driver prints the component-stack model and the byte-loop model
		if impl != mo[i] {
			res.Disagree(lines[i], impl, mo[i])
		}
		if strings.Contains(s, "..") || strings.Contains(s, "//") || strings.Contains(s, "./") {
			nontrivial[lines[i]] = true
		}
	}
	for i, c := range wcases {
		o := wout[i]
		ln := lines[wOff+i]
		if o.setupErr != nil {
			res.Observations = append(res.Observations, "sandbox problem: "+o.setupErr.Error())
			res.Disagree(ln, "setup: "+o.setupErr.Error(), "")
			continue
		}
		if !o.before.equal(c.start) {
			res.Disagree(ln, "start state could not be materialised: "+o.before.enc(), "")
			continue
		}
		merr, mfs, perr := parseModelW(mo[wOff+i])
		if perr != nil {
			res.Disagree(ln, "err="+o.err+" fs="+o.after.enc(), mo[wOff+i])
		} else if merr != o.err || !mfs.equal(o.after) {
			res.Disagree(ln, "err="+o.err+" fs="+o.after.enc(), mo[wOff+i])
		}
		writeOracle(res, c, o)
		res.Distribution["write:err="+strings.SplitN(o.err, ":", 2)[0]]++
		special := false
		if c.cli {
			res.Distribution["write:via-txtar-x-binary"]++
		}
		for _, f := range c.seen().Files {
			if filepath.Clean(f.Name) != f.Name || strings.HasPrefix(f.Name, "/") || strings.HasPrefix(f.Name, "..") {
				special = true
			}
		}
		if special || o.err == "exists" || o.err == "notdir" {
			nontrivial[ln] = true
		}
		if len(c.a.Files) > 1 {
			res.Distribution["write:multi-entry"]++
		}
		if _, ok := o.before[c.dir]; !ok && c.dir != "/" {
			res.Distribution["write:dir-missing-at-start"]++
		}
	}
	for i, c := range scases {
		o := sout[i]
		if o.setupErr != nil {
			res.Observations = append(res.Observations, "sandbox problem: "+o.setupErr.Error())
			res.Disagree(c.line(), "setup: "+o.setupErr.Error(), "")
			continue
		}
		if !o.before.equal(c.start) {
			res.Disagree(c.line(), "start state could not be materialised: "+o.before.enc(), "")
			continue
		}
		writeOracle(res, c, o)
		res.Distribution["write:oracle-only-symlink"]++
		res.Distribution["write:oracle-only-symlink:err="+strings.SplitN(o.err, ":", 2)[0]]++
		nontrivial[c.line()] = true
	}
	if concRounds > 0 {
		concurrentOracle(res, tmp, concN, concRounds)
	}
	res.Extra["oracle_only"] = fmt.Sprintf("%d Write cases whose start state has a symbolic link at an entry's path or on the way to it (dangling into dir, dangling to a location outside dir, to existing files inside and outside) "+
		"and %d rounds of %d goroutines writing the same single-entry archive into one directory are run against the property oracle only: symbolic links and concurrency are not in the Lean file-system model, so there is no model comparison for them. "+
		"Oracle: the entry must be refused, nothing may appear or change at the link target or anywhere outside dir; of concurrent writers exactly one succeeds, the others get EEXIST, the file holds the winner's data.", len(scases), concRounds, concN)
	rtChecked := 0
	for i, c := range rcases {
		o := rout[i]
		ln := c.line()
		if o.setupErr != nil {
			res.Observations = append(res.Observations, "sandbox problem: "+o.setupErr.Error())
			res.Disagree(ln, "setup: "+o.setupErr.Error(), "")
			continue
		}
		// txtar-c
		implSave := "exit " + fmt.Sprint(o.cExit) + ": " + strings.TrimSpace(o.cErr)
		if o.cExit == 0 {
			a := txtar.Parse(o.archive)
			_ = a
			implSave = "F=" + corr.Hx(o.archive)
		} else if strings.Contains(o.cErr, "panic:") {
			implSave = "panic"
		}
		ms := mo[sOff+i]
		if j := strings.Index(ms, " F="); j >= 0 {
			ms = ms[j+1:]
		}
		if implSave != ms {
			res.Disagree(lines[sOff+i], implSave, mo[sOff+i])
		}
		// txtar-x
		if o.cExit == 0 {
			implX := "err=" + o.xClass + " fs=" + o.after.enc()
			if o.xClass == "panic" {
				implX = "panic"
			}
			merr, mfs, perr := parseModelW(mo[xOff+i])
			if perr != nil || merr != o.xClass || !mfs.equal(o.after) {
				res.Disagree(lines[xOff+i], implX, mo[xOff+i])
			}
		}
		if rtOracle(res, c, o) {
			rtChecked++
			nontrivial[ln] = true
		}
		res.Distribution[fmt.Sprintf("rt:all=%v,quote=%v", c.all, c.quote)]++
		res.Distribution["rt:extract="+strings.SplitN(o.xClass, ":", 2)[0]]++
		if bytes.Contains(o.archive, []byte("unquote ")) {
			res.Distribution["rt:with-quoted-file"]++
		}
	}
	res.Distribution["rt:oracle-checked"] = rtChecked
	res.Distribution["write:cases"] = len(wcases)
	res.Distribution["rt:cases"] = len(rcases)
	res.Evaluations = len(lines)
	res.DistinctNontrivial = len(nontrivial)
	res.Rule = "distinct cases among: (clean) path strings containing '..', '//' or './'; (write) archives with an entry name that is not already clean-relative " +
		"(empty/'.'/'..' segments, doubled or trailing slashes, absolute) or that run into a pre-existing path (EEXIST/ENOTDIR); (round trip) trees whose archived names are representable in txtar " +
		"— each run on the real code (filepath.Clean, txtar.Write into a sandbox snapshotted before/after, the built txtar-c and txtar-x binaries) and on the Lean model, results compared"
	res.Extra["who_unquotes"] = "txtar-x only calls txtar.Write: quoted files are extracted in quoted form; the `unquote NAME` comment lines txtar-c writes are for the consumer (testscript's unquote command). The oracle applies txtar.Unquote itself."
	for _, i := range []int{0, wOff, wOff + len(wcases)/2, sOff, xOff, len(lines) - 1} {
		if i >= 0 && i < len(lines) {
			l, m := lines[i], mo[i]
			if len(l) > 600 {
				l = l[:600] + "…"
			}
			if len(m) > 600 {
				m = m[:600] + "…"
			}
			res.Samples = append(res.Samples, map[string]string{"case": l, "model": m})
		}
	}
	return res
}
