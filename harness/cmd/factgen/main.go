// factgen — regenerates lean/GIV/Gen/*.lean from /repo's working tree.
//
// For every modelled decision point it extracts, by function name and syntactic shape
// (never by line number), the constants, tables and the shape of the deciding expression,
// and writes them as Lean definitions.  The models use these definitions, so the theorems
// are re-checked against what the source says now.  An anchor that cannot be located is
// reported as "lost": the last pinned value is emitted and the check falls back on the
// correspondence run for that fact.
package main

import (
	"bytes"
	"encoding/json"
	"flag"
	"fmt"
	"go/ast"
	"go/parser"
	"go/printer"
	"go/token"
	"os"
	"path/filepath"
	"sort"
	"strconv"
	"strings"
)

// Report is written as JSON on stdout.
type Report struct {
	Groups map[string]*GroupReport `json:"groups"`
}

type GroupReport struct {
	File    string            `json:"file"`
	Changed bool              `json:"changed"`
	Anchors map[string]string `json:"anchors"` // name -> "found: <value>" | "lost: <why>"
}

type gen struct {
	repo   string
	fset   *token.FileSet
	files  map[string]*ast.File
	report *GroupReport
	buf    bytes.Buffer
}

type groupFn func(g *gen)

var groups = map[string]groupFn{}
var groupOut = map[string]string{} // group -> Lean module base name (GIV/Gen/<name>.lean)

func (g *gen) parse(rel string) *ast.File {
	if f, ok := g.files[rel]; ok {
		return f
	}
	f, err := parser.ParseFile(g.fset, filepath.Join(g.repo, rel), nil, parser.ParseComments)
	if err != nil {
		g.files[rel] = nil
		return nil
	}
	g.files[rel] = f
	return f
}

func (g *gen) funcDecl(rel, name string) *ast.FuncDecl {
	f := g.parse(rel)
	if f == nil {
		return nil
	}
	for _, d := range f.Decls {
		if fd, ok := d.(*ast.FuncDecl); ok && fd.Name.Name == name && fd.Recv == nil {
			return fd
		}
	}
	return nil
}

func (g *gen) method(rel, recv, name string) *ast.FuncDecl {
	f := g.parse(rel)
	if f == nil {
		return nil
	}
	for _, d := range f.Decls {
		fd, ok := d.(*ast.FuncDecl)
		if !ok || fd.Name.Name != name || fd.Recv == nil || len(fd.Recv.List) != 1 {
			continue
		}
		t := fd.Recv.List[0].Type
		if s, ok := t.(*ast.StarExpr); ok {
			t = s.X
		}
		if id, ok := t.(*ast.Ident); ok && id.Name == recv {
			return fd
		}
	}
	return nil
}

// src prints a node and removes all white space: the "shape" used for matching.
func (g *gen) src(n ast.Node) string {
	if n == nil || (fmt.Sprintf("%v", n) == "<nil>") {
		return ""
	}
	var b bytes.Buffer
	printer.Fprint(&b, g.fset, n)
	return strings.Join(strings.Fields(b.String()), "")
}

// pretty prints a node on one line (for comments in the generated file).
func (g *gen) pretty(n ast.Node) string {
	var b bytes.Buffer
	printer.Fprint(&b, g.fset, n)
	return strings.Join(strings.Fields(b.String()), " ")
}

// topLevelValue finds `name = <expr>` in a var or const declaration at file level.
func (g *gen) topLevelValue(rel, name string) ast.Expr {
	f := g.parse(rel)
	if f == nil {
		return nil
	}
	for _, d := range f.Decls {
		gd, ok := d.(*ast.GenDecl)
		if !ok {
			continue
		}
		for _, s := range gd.Specs {
			vs, ok := s.(*ast.ValueSpec)
			if !ok {
				continue
			}
			for i, n := range vs.Names {
				if n.Name == name && i < len(vs.Values) {
					return vs.Values[i]
				}
			}
		}
	}
	return nil
}

// stringLit extracts the string from "..." / `...` or from []byte("...") / string("...").
func stringLit(e ast.Expr) (string, bool) {
	switch v := e.(type) {
	case *ast.BasicLit:
		if v.Kind == token.STRING {
			s, err := strconv.Unquote(v.Value)
			return s, err == nil
		}
	case *ast.CallExpr:
		if len(v.Args) == 1 {
			return stringLit(v.Args[0])
		}
	case *ast.ParenExpr:
		return stringLit(v.X)
	}
	return "", false
}

func leanBytes(s string) string {
	parts := make([]string, len(s))
	for i := 0; i < len(s); i++ {
		parts[i] = strconv.Itoa(int(s[i]))
	}
	return "[" + strings.Join(parts, ", ") + "]"
}

func leanStrList(ss []string) string {
	q := make([]string, len(ss))
	for i, s := range ss {
		q[i] = strconv.Quote(s)
	}
	return "[" + strings.Join(q, ", ") + "]"
}

func (g *gen) found(anchor, val string) { g.report.Anchors[anchor] = "found: " + val }
func (g *gen) lost(anchor, why string)  { g.report.Anchors[anchor] = "lost: " + why }

func (g *gen) emit(format string, a ...any) { fmt.Fprintf(&g.buf, format, a...) }

// emitBool emits `def name : Bool := v` where v is decided by `decide`, which returns
// (value, ok); on !ok the pinned value is used and the anchor reported lost.
func (g *gen) emitBool(name, doc string, pinned bool, decide func() (bool, bool, string)) {
	v, ok, why := decide()
	if !ok {
		v = pinned
		g.lost(name, why)
	} else {
		g.found(name, strconv.FormatBool(v))
	}
	g.emit("/-- %s -/\ndef %s : Bool := %v\n", doc, name, v)
}

func (g *gen) emitBytesVar(rel, goName, leanName, pinned string) {
	v := g.topLevelValue(rel, goName)
	s, ok := "", false
	if v != nil {
		s, ok = stringLit(v)
	}
	if !ok {
		s = pinned
		g.lost(leanName, "no string value for "+goName+" in "+rel)
	} else {
		g.found(leanName, strconv.Quote(s))
	}
	g.emit("def %s : GIV.Bytes := %s\n", leanName, leanBytes(s))
}

func main() {
	repo := flag.String("repo", "/repo", "repository root")
	out := flag.String("out", "/verif/lean/GIV/Gen", "output directory")
	only := flag.String("only", "", "comma separated groups (default all)")
	flag.Parse()
	rep := &Report{Groups: map[string]*GroupReport{}}
	var names []string
	for k := range groups {
		names = append(names, k)
	}
	sort.Strings(names)
	for _, name := range names {
		if *only != "" && !strings.Contains(","+*only+",", ","+name+",") {
			continue
		}
		g := &gen{repo: *repo, fset: token.NewFileSet(), files: map[string]*ast.File{}}
		g.report = &GroupReport{Anchors: map[string]string{}}
		mod := groupOut[name]
		g.emit("/- GENERATED by factgen from /repo's working tree — do not edit; regenerated on every check run. -/\nimport GIV.Basic\nnamespace GIV.Gen.%s\n", mod)
		groups[name](g)
		g.emit("end GIV.Gen.%s\n", mod)
		path := filepath.Join(*out, mod+".lean")
		g.report.File = path
		old, _ := os.ReadFile(path)
		if !bytes.Equal(old, g.buf.Bytes()) {
			g.report.Changed = true
			if err := os.WriteFile(path, g.buf.Bytes(), 0o666); err != nil {
				fmt.Fprintln(os.Stderr, err)
				os.Exit(2)
			}
		}
		rep.Groups[name] = g.report
	}
	data, _ := json.MarshalIndent(rep, "", " ")
	os.Stdout.Write(data)
	fmt.Println()
}
