package main

import (
	"bytes"
	"fmt"
	"go/ast"
	"go/format"
	"go/parser"
	"go/printer"
	"go/token"
	"os"
	"path/filepath"
	"strconv"
	"strings"

	"verif/harness/internal/fact"
)

// ---- a small Go-expression → Lean-expression translator -------------------------------------
//
// Comparisons become `decide (a < b)` (Bool), && / || / ! stay Bool operators, + - * stay arithmetic.
// `atoms` maps the white-space-free source of a sub-expression to a Lean atom (a parameter of the
// emitted definition); anything the translator does not know makes the anchor "lost".

type xlat struct {
	g     *fact.Gen
	atoms map[string]string
	bad   string
}

var cacheConstIdents = map[string]bool{"HashSize": true, "hexSize": true, "entrySize": true, "mtimeInterval": true, "trimInterval": true, "trimLimit": true}
var timeSelectors = map[string]string{"time.Nanosecond": "nanosecond", "time.Microsecond": "microsecond", "time.Millisecond": "millisecond", "time.Second": "second", "time.Minute": "minute", "time.Hour": "hour"}

func (t *xlat) fail(e ast.Node, why string) string {
	if t.bad == "" {
		t.bad = why + ": " + t.g.Pretty(e)
	}
	return "0"
}

func (t *xlat) expr(e ast.Expr) string {
	if a, ok := t.atoms[t.g.Src(e)]; ok {
		return a
	}
	switch v := e.(type) {
	case *ast.ParenExpr:
		return t.expr(v.X)
	case *ast.BasicLit:
		switch v.Kind {
		case token.INT:
			return v.Value
		case token.CHAR:
			s, err := strconv.Unquote(v.Value)
			if err != nil || len(s) != 1 {
				return t.fail(e, "char literal")
			}
			return strconv.Itoa(int(s[0]))
		case token.STRING:
			s, err := strconv.Unquote(v.Value)
			if err != nil {
				return t.fail(e, "string literal")
			}
			return fact.LeanBytes(s)
		}
	case *ast.Ident:
		if cacheConstIdents[v.Name] {
			return v.Name
		}
	case *ast.SelectorExpr:
		if n, ok := timeSelectors[t.g.Src(v)]; ok {
			return n
		}
	case *ast.UnaryExpr:
		switch v.Op {
		case token.SUB:
			return "(-" + t.expr(v.X) + ")"
		case token.NOT:
			return "(!(" + t.expr(v.X) + "))"
		}
	case *ast.BinaryExpr:
		a, b := t.expr(v.X), t.expr(v.Y)
		switch v.Op {
		case token.LAND:
			return "(" + a + " && " + b + ")"
		case token.LOR:
			return "(" + a + " || " + b + ")"
		case token.LSS:
			return "decide (" + a + " < " + b + ")"
		case token.GTR:
			return "decide (" + a + " > " + b + ")"
		case token.LEQ:
			return "decide (" + a + " ≤ " + b + ")"
		case token.GEQ:
			return "decide (" + a + " ≥ " + b + ")"
		case token.EQL:
			return "decide (" + a + " = " + b + ")"
		case token.NEQ:
			return "decide (" + a + " ≠ " + b + ")"
		case token.ADD:
			return "(" + a + " + " + b + ")"
		case token.SUB:
			return "(" + a + " - " + b + ")"
		case token.MUL:
			return "(" + a + " * " + b + ")"
		}
	case *ast.CallExpr:
		fn := t.g.Src(v.Fun)
		if sel, ok := v.Fun.(*ast.SelectorExpr); ok && len(v.Args) == 1 {
			switch sel.Sel.Name {
			case "Add": // time.Time.Add on nanosecond integers
				return "(" + t.expr(sel.X) + " + " + t.expr(v.Args[0]) + ")"
			case "Before":
				return "decide (" + t.expr(sel.X) + " < " + t.expr(v.Args[0]) + ")"
			}
		}
		if fn == "strings.HasSuffix" && len(v.Args) == 2 {
			return "hasSuffix " + t.expr(v.Args[0]) + " " + t.expr(v.Args[1])
		}
		if fn == "bytes.Equal" && len(v.Args) == 2 {
			return "decide (" + t.expr(v.Args[0]) + " = " + t.expr(v.Args[1]) + ")"
		}
		if fn == "int64" && len(v.Args) == 1 {
			return t.expr(v.Args[0])
		}
	}
	return t.fail(e, "untranslatable expression")
}

// ---- helpers ----------------------------------------------------------------------------------

func findIf(fn *ast.FuncDecl, pred func(*ast.IfStmt) bool) *ast.IfStmt {
	var found *ast.IfStmt
	if fn == nil {
		return nil
	}
	ast.Inspect(fn.Body, func(n ast.Node) bool {
		if is, ok := n.(*ast.IfStmt); ok && found == nil && pred(is) {
			found = is
		}
		return found == nil
	})
	return found
}

func findCalls(n ast.Node, g *fact.Gen, fun string) []*ast.CallExpr {
	var out []*ast.CallExpr
	if n == nil {
		return nil
	}
	ast.Inspect(n, func(n ast.Node) bool {
		if c, ok := n.(*ast.CallExpr); ok && g.Src(c.Fun) == fun {
			out = append(out, c)
		}
		return true
	})
	return out
}

type cacheGen struct {
	g *fact.Gen
}

// def emits `def name sig := body`; when the extraction failed the pinned body is used and the anchor reported lost.
func (c *cacheGen) def(name, doc, sig, pinned string, extract func() (string, string)) {
	body, why := extract()
	if why != "" {
		body = pinned
		c.g.Lost(name, why)
	} else {
		c.g.Found(name, body)
	}
	c.g.Emit("/-- %s -/\ndef %s %s := %s\n", doc, name, sig, body)
}

func (c *cacheGen) cond(is *ast.IfStmt, missing string, atoms map[string]string) (string, string) {
	if is == nil {
		return "", missing
	}
	t := &xlat{g: c.g, atoms: atoms}
	s := t.expr(is.Cond)
	if t.bad != "" {
		return "", t.bad
	}
	return s, ""
}

func (c *cacheGen) exprOf(e ast.Expr, missing string, atoms map[string]string) (string, string) {
	if e == nil {
		return "", missing
	}
	t := &xlat{g: c.g, atoms: atoms}
	s := t.expr(e)
	if t.bad != "" {
		return "", t.bad
	}
	return s, ""
}

func boolStr(b bool) string {
	if b {
		return "true"
	}
	return "false"
}

// ---- statement-range extraction: the index-entry parser inside (*Cache).get --------------------------------
//
// The parser is not a function of its own in cache.go, so it is cut out and wrapped MECHANICALLY (DESIGN §10.6):
//
//  1. RANGE.  In the statement list of `get`: from the first `if` whose condition starts with `entry[0] != 'v'` (the
//     header test) up to and including the last `if` statement that mentions `tm < 0` (the negative-timestamp test).
//  2. RESULT.  The last statement of `get` must be `return Entry{A, B, time.Unix(0, C)}, nil`; the wrapper ends with
//     `return A, B, C, "", true`.
//  3. WRAPPER.  `func parseEntrySlice(entry []byte, id ActionID) (zero [HashSize]byte, zsize int64, ztm int64, why string, ok bool)`
//     — entry and id are the block's free variables (any other free variable makes the translation fail: lost anchor);
//     the result names are fresh so that the block's own `size, err :=` / `tm, err :=` declare what they declare in get.
//  4. REWRITING.  Every `return` inside the range must be `return missing(E)` and becomes `return zero, 0, 0, R, false`
//     where R is a string literal derived from E: `errors.New("lit")` gives "lit"; `fmt.Errorf("prefix: %v", …)` gives the
//     format up to its first `%` without the trailing ": " ("prefix").  Anything else: lost anchor.
//  5. CONTEXT.  `const HashSize`, `hexSize`, `entrySize` are printed from hash.go / cache.go, `type ActionID` from cache.go.
//
// The text is then translated by go2lean (preset "cacheparse") into GIV/Gen/CacheParseGo.lean.
func cacheParseSource(g *fact.Gen, rel, relHash string, get *ast.FuncDecl) (string, string) {
	if get == nil || get.Body == nil {
		return "", "(*Cache).get not found"
	}
	list := get.Body.List
	lo, hi := -1, -1
	for i, st := range list {
		is, ok := st.(*ast.IfStmt)
		if !ok {
			continue
		}
		if lo < 0 && strings.HasPrefix(g.Src(is.Cond), "entry[0]!='v'") {
			lo = i
		}
		if lo >= 0 && strings.Contains(g.Src(is), "tm<0") {
			hi = i
		}
	}
	if lo < 0 || hi < lo {
		return "", "get: the statements from the header test `entry[0] != 'v' …` to the `tm < 0` test were not found"
	}
	var res []string
	if ret, ok := list[len(list)-1].(*ast.ReturnStmt); ok && len(ret.Results) == 2 && g.Src(ret.Results[1]) == "nil" {
		if cl, ok := ret.Results[0].(*ast.CompositeLit); ok && g.Src(cl.Type) == "Entry" && len(cl.Elts) == 3 {
			if call, ok := cl.Elts[2].(*ast.CallExpr); ok && g.Src(call.Fun) == "time.Unix" && len(call.Args) == 2 && g.Src(call.Args[0]) == "0" {
				res = []string{g.Pretty(cl.Elts[0]), g.Pretty(cl.Elts[1]), g.Pretty(call.Args[1])}
			}
		}
	}
	if res == nil {
		return "", "get does not end with `return Entry{A, B, time.Unix(0, C)}, nil`"
	}
	var b strings.Builder
	b.WriteString("package cache\n\n")
	for _, c := range [][2]string{{relHash, "HashSize"}, {rel, "hexSize"}, {rel, "entrySize"}} {
		v := g.TopLevelValue(c[0], c[1])
		if v == nil {
			return "", "const " + c[1] + " not found"
		}
		fmt.Fprintf(&b, "const %s = %s\n", c[1], g.Pretty(v))
	}
	var actionID ast.Expr
	if f := g.Parse(rel); f != nil {
		for _, d := range f.Decls {
			if gd, ok := d.(*ast.GenDecl); ok && gd.Tok == token.TYPE {
				for _, sp := range gd.Specs {
					if ts := sp.(*ast.TypeSpec); ts.Name.Name == "ActionID" {
						actionID = ts.Type
					}
				}
			}
		}
	}
	if actionID == nil {
		return "", "type ActionID not found"
	}
	fmt.Fprintf(&b, "\ntype ActionID %s\n\n", g.Pretty(actionID))
	b.WriteString("func parseEntrySlice(entry []byte, id ActionID) (zero [HashSize]byte, zsize int64, ztm int64, why string, ok bool) {\n")
	for _, st := range list[lo : hi+1] {
		printer.Fprint(&b, g.Fset, st) // go/printer, line structure kept
		b.WriteString("\n")
	}
	fmt.Fprintf(&b, "return %s, %s, %s, \"\", true\n}\n", res[0], res[1], res[2])
	// re-parse the assembled text (a private copy of the statements) and rewrite its returns
	fset := token.NewFileSet()
	f, err := parser.ParseFile(fset, "parseEntrySlice.go", b.String(), 0)
	if err != nil {
		return "", "the assembled parser block does not parse: " + err.Error()
	}
	var fd *ast.FuncDecl
	for _, d := range f.Decls {
		if x, ok := d.(*ast.FuncDecl); ok {
			fd = x
		}
	}
	last := fd.Body.List[len(fd.Body.List)-1]
	bad := ""
	strip := func(n ast.Node) string {
		var sb strings.Builder
		printer.Fprint(&sb, fset, n)
		return strings.Join(strings.Fields(sb.String()), "")
	}
	ast.Inspect(fd.Body, func(n ast.Node) bool {
		if _, ok := n.(*ast.FuncLit); ok {
			bad = "function literal in the parser block"
			return false
		}
		ret, ok := n.(*ast.ReturnStmt)
		if !ok || ret == last {
			return true
		}
		reason, found := "", false
		if len(ret.Results) == 1 {
			if call, ok := ret.Results[0].(*ast.CallExpr); ok && strip(call.Fun) == "missing" && len(call.Args) == 1 {
				if e, ok := call.Args[0].(*ast.CallExpr); ok && len(e.Args) >= 1 {
					if lit, ok := fact.StringLit(e.Args[0]); ok {
						switch strip(e.Fun) {
						case "errors.New":
							reason, found = lit, len(e.Args) == 1
						case "fmt.Errorf":
							if i := strings.IndexByte(lit, '%'); i >= 0 {
								reason, found = strings.TrimSuffix(lit[:i], ": "), true
							}
						}
					}
				}
			}
		}
		if !found {
			if bad == "" {
				bad = "a return of the parser block is not `return missing(errors.New(\"…\"))` / `return missing(fmt.Errorf(\"…: %v\", …))`: " + strip(ret)
			}
			return false
		}
		ret.Results = []ast.Expr{ast.NewIdent("zero"), &ast.BasicLit{Kind: token.INT, Value: "0"}, &ast.BasicLit{Kind: token.INT, Value: "0"},
			&ast.BasicLit{Kind: token.STRING, Value: strconv.Quote(reason)}, ast.NewIdent("false")}
		return false
	})
	if bad != "" {
		return "", bad
	}
	var out bytes.Buffer
	if err := format.Node(&out, fset, f); err != nil {
		return "", "printing the rewritten parser block: " + err.Error()
	}
	return out.String(), ""
}

func genCacheParse(g *fact.Gen, rel, relHash string, get *ast.FuncDecl) {
	src, why := cacheParseSource(g, rel, relHash, get)
	root := os.Getenv("VERIF_ROOT")
	if root == "" {
		root = "/verif"
	}
	g.TranslateModuleSource("CacheParseGo", "file "+rel+": the statements of (*Cache).get from the header test to the `tm < 0` test, wrapped by harness/cmd/cache/fact.go (cacheParseSource)",
		src, why, []string{"parseEntrySlice"}, "cacheparse", []string{"GIV.GoLib", "GIV.GoLibCache"}, "GIV.Go.CacheParse",
		filepath.Join(root, "harness", "pinned", "CacheParseGo.lean"))
}

func genCache(g *fact.Gen) {
	const rel = "cache/cache.go"
	const relHash = "cache/hash.go"
	c := &cacheGen{g: g}
	src := func(n ast.Node) string {
		if n == nil {
			return ""
		}
		return g.Src(n)
	}
	body := func(fd *ast.FuncDecl) string {
		if fd == nil {
			return ""
		}
		return g.Src(fd.Body)
	}

	g.Emit("/-! time package constants (pinned: standard library) -/\n")
	g.Emit("def nanosecond : Int := 1\ndef microsecond : Int := 1000 * nanosecond\ndef millisecond : Int := 1000 * microsecond\ndef second : Int := 1000 * millisecond\ndef minute : Int := 60 * second\ndef hour : Int := 60 * minute\n")

	// ---- sizes
	c.def("HashSize", "hash.go: `const HashSize`", ": Nat", "32", func() (string, string) {
		return c.exprOf(g.TopLevelValue(relHash, "HashSize"), "const HashSize not found", nil)
	})
	c.def("hexSize", "cache.go: `const hexSize`", ": Nat", "(HashSize * 2)", func() (string, string) {
		return c.exprOf(g.TopLevelValue(rel, "hexSize"), "const hexSize not found", nil)
	})
	c.def("entrySize", "cache.go: `const entrySize`", ": Nat", "(((((((((2 + 1) + hexSize) + 1) + hexSize) + 1) + 20) + 1) + 20) + 1)", func() (string, string) {
		return c.exprOf(g.TopLevelValue(rel, "entrySize"), "const entrySize not found", nil)
	})

	// ---- get
	get := g.Method(rel, "Cache", "get")
	genCacheParse(g, rel, relHash, get)
	c.def("bufLen", "get: `entry := make([]byte, entrySize+1)`", ": Nat", "(entrySize + 1)", func() (string, string) {
		for _, mk := range findCalls(get, g, "make") {
			if len(mk.Args) == 2 && src(mk.Args[0]) == "[]byte" {
				return c.exprOf(mk.Args[1], "", nil)
			}
		}
		return "", "make([]byte, …) not found in get"
	})
	readIf := findIf(get, func(is *ast.IfStmt) bool { return src(is.Init) == "n,err:=io.ReadFull(f,entry)" })
	var midIf, incIf *ast.IfStmt
	if readIf != nil {
		midIf, _ = readIf.Else.(*ast.IfStmt)
		if midIf != nil {
			incIf, _ = midIf.Else.(*ast.IfStmt)
		}
	}
	c.def("tooLong", "get: first branch after ReadFull ⇒ \"too long\"", "(n : Nat) : Bool", "decide (n > entrySize)", func() (string, string) {
		if readIf == nil || !strings.Contains(src(readIf.Body), `"toolong"`) {
			return "", "ReadFull / too-long branch not found"
		}
		return c.cond(readIf, "", map[string]string{"n": "n"})
	})
	g.EmitBool("readErrChain", "get: the middle branch is `err != io.ErrUnexpectedEOF` with `err == io.EOF` ⇒ \"file is empty\", else missing(err)", true, func() (bool, bool, string) {
		if midIf == nil {
			return false, false, "else-if chain after ReadFull not found"
		}
		ok := src(midIf.Cond) == "err!=io.ErrUnexpectedEOF" && src(midIf.Body) == `{iferr==io.EOF{returnmissing(errors.New("fileisempty"))}returnmissing(err)}`
		if !ok {
			return false, false, "unexpected shape: " + g.Pretty(midIf.Cond)
		}
		return true, true, ""
	})
	c.def("incomplete", "get: last branch after ReadFull ⇒ \"entry file incomplete\"", "(n : Nat) : Bool", "decide (n < entrySize)", func() (string, string) {
		if incIf == nil || !strings.Contains(src(incIf.Body), `"entryfileincomplete"`) {
			return "", "incomplete branch not found"
		}
		return c.cond(incIf, "", map[string]string{"n": "n"})
	})
	c.def("headerChecks", "get: the header test `entry[i] != c || …` ⇒ \"invalid header\", as the (index, byte) pairs that must all match", ": List (Nat × UInt8)",
		"[(0, 118), (1, 49), (2, 32), ((3 + hexSize), 32), ((((3 + hexSize) + 1) + hexSize), 32), ((((((3 + hexSize) + 1) + hexSize) + 1) + 20), 32), ((entrySize - 1), 10)]", func() (string, string) {
			is := findIf(get, func(is *ast.IfStmt) bool { return strings.Contains(src(is.Body), `"invalidheader"`) })
			if is == nil {
				return "", "header test not found"
			}
			var terms []ast.Expr
			var flat func(e ast.Expr)
			flat = func(e ast.Expr) {
				if b, ok := e.(*ast.BinaryExpr); ok && b.Op == token.LOR {
					flat(b.X)
					flat(b.Y)
					return
				}
				terms = append(terms, e)
			}
			flat(is.Cond)
			var parts []string
			for _, tm := range terms {
				b, ok := tm.(*ast.BinaryExpr)
				if !ok || b.Op != token.NEQ {
					return "", "header term is not `!=`: " + g.Pretty(tm)
				}
				ix, ok := b.X.(*ast.IndexExpr)
				if !ok || src(ix.X) != "entry" {
					return "", "header term does not index entry: " + g.Pretty(tm)
				}
				t := &xlat{g: g}
				i, ch := t.expr(ix.Index), t.expr(b.Y)
				if t.bad != "" {
					return "", t.bad
				}
				parts = append(parts, "("+i+", "+ch+")")
			}
			return "[" + strings.Join(parts, ", ") + "]", ""
		})
	// field slices
	{
		type sl struct{ name, lo, hi, rest string }
		var sls []sl
		why := ""
		if get != nil {
			for _, st := range get.Body.List {
				as, ok := st.(*ast.AssignStmt)
				if !ok || len(as.Lhs) != 2 || len(as.Rhs) != 2 || src(as.Lhs[1]) != "entry" {
					continue
				}
				s0, ok0 := as.Rhs[0].(*ast.SliceExpr)
				s1, ok1 := as.Rhs[1].(*ast.SliceExpr)
				if !ok0 || !ok1 || src(s0.X) != "entry" || src(s1.X) != "entry" || s0.Low == nil || s0.High == nil || s1.Low == nil || s1.High != nil || s0.Slice3 {
					continue
				}
				t := &xlat{g: g}
				sls = append(sls, sl{src(as.Lhs[0]), t.expr(s0.Low), t.expr(s0.High), t.expr(s1.Low)})
				if t.bad != "" {
					why = t.bad
				}
			}
		}
		want := []string{"eid", "eout", "esize", "etime"}
		if len(sls) != 4 {
			why = fmt.Sprintf("expected 4 field slices in get, found %d", len(sls))
		} else {
			for i, s := range sls {
				if s.name != want[i] {
					why = "field slices in unexpected order"
				}
			}
		}
		if why != "" {
			g.Lost("fieldSlices", why)
			sls = []sl{{"eid", "3", "(3 + hexSize)", "(3 + hexSize)"}, {"eout", "1", "(1 + hexSize)", "(1 + hexSize)"}, {"esize", "1", "(1 + 20)", "(1 + 20)"}, {"etime", "1", "(1 + 20)", "(1 + 20)"}}
		} else {
			g.Found("fieldSlices", fmt.Sprint(sls))
		}
		g.Emit("/-- get: field slices `eid, entry := entry[lo:hi], entry[rest:]` … as absolute offsets into the read buffer -/\n")
		base := "0"
		for i, s := range sls {
			g.Emit("def %sLo : Nat := %s + %s\ndef %sHi : Nat := %s + %s\n", s.name, base, s.lo, s.name, base, s.hi)
			if i < 3 {
				g.Emit("def base%d : Nat := %s + %s\n", i+1, base, s.rest)
				base = fmt.Sprintf("base%d", i+1)
			}
		}
	}
	g.EmitBool("decodeShape", "get: `hex.Decode(buf[:], eid)` then `buf != id` ⇒ \"mismatched ID\", then `hex.Decode(buf[:], eout)`; the entry returned is `Entry{buf, size, time.Unix(0, tm)}`", true, func() (bool, bool, string) {
		s := body(get)
		i1 := strings.Index(s, `if_,err:=hex.Decode(buf[:],eid);err!=nil{returnmissing(fmt.Errorf("decodingID:%v",err))}elseifbuf!=id{returnmissing(errors.New("mismatchedID"))}`)
		i2 := strings.Index(s, `if_,err:=hex.Decode(buf[:],eout);err!=nil{returnmissing(fmt.Errorf("decodingoutputID:%v",err))}`)
		i3 := strings.Index(s, `returnEntry{buf,size,time.Unix(0,tm)},nil`)
		if i1 < 0 || i2 < 0 || i3 < 0 || !(i1 < i2 && i2 < i3) || !strings.Contains(s, "varbuf[HashSize]byte") {
			return false, false, "hex decoding / id comparison has an unrecognised shape"
		}
		return true, true, ""
	})
	g.EmitBool("skipSpacesShape", "get: leading spaces of esize / etime are skipped (`for i < len(e) && e[i] == ' ' { i++ }`) before ParseInt", true, func() (bool, bool, string) {
		s := body(get)
		ok := strings.Contains(s, `i:=0fori<len(esize)&&esize[i]==''{i++}size,err:=strconv.ParseInt(string(esize[i:]),`) &&
			strings.Contains(s, `i=0fori<len(etime)&&etime[i]==''{i++}tm,err:=strconv.ParseInt(string(etime[i:]),`)
		if !ok {
			return false, false, "space-skipping loops not found"
		}
		return true, true, ""
	})
	// ParseInt base and bit size: both calls in get and the one in Trim must agree
	trim := g.Method(rel, "Cache", "Trim")
	{
		base, bits, why := "", "", ""
		calls := append(findCalls(get, g, "strconv.ParseInt"), findCalls(trim, g, "strconv.ParseInt")...)
		if len(calls) != 3 {
			why = fmt.Sprintf("expected 3 ParseInt calls (2 in get, 1 in Trim), found %d", len(calls))
		}
		for _, call := range calls {
			if len(call.Args) != 3 {
				why = "ParseInt arity"
				continue
			}
			b, s := src(call.Args[1]), src(call.Args[2])
			if base == "" {
				base, bits = b, s
			} else if b != base || s != bits {
				why = "ParseInt calls disagree on base / bit size"
			}
		}
		if _, err := strconv.Atoi(base); err != nil {
			why = "ParseInt base is not a literal"
		}
		if _, err := strconv.Atoi(bits); err != nil {
			why = "ParseInt bit size is not a literal"
		}
		if why != "" {
			g.Lost("parseBase", why)
			base, bits = "10", "64"
		} else {
			g.Found("parseBase", base+"/"+bits)
		}
		g.Emit("/-- get, Trim: `strconv.ParseInt(s, base, bits)` -/\ndef parseBase : Nat := %s\ndef parseBits : Nat := %s\n", base, bits)
	}
	c.def("negSize", "get: ⇒ \"negative size\"", "(size : Int) : Bool", "decide (size < 0)", func() (string, string) {
		is := findIf(get, func(is *ast.IfStmt) bool {
			return strings.Contains(src(is.Body), `"negativesize"`) && !strings.Contains(src(is.Body), `"parsingsize`)
		})
		return c.cond(is, "negative-size test not found", map[string]string{"size": "size"})
	})
	c.def("negTime", "get: ⇒ \"negative timestamp\"", "(tm : Int) : Bool", "decide (tm < 0)", func() (string, string) {
		is := findIf(get, func(is *ast.IfStmt) bool {
			return strings.Contains(src(is.Body), `"negativetimestamp"`) && !strings.Contains(src(is.Body), `"parsingtimestamp`)
		})
		return c.cond(is, "negative-timestamp test not found", map[string]string{"tm": "tm"})
	})
	g.EmitBool("getUsesIndexFile", "get: `c.used(c.fileName(id, \"a\"))` after all checks passed, right before the successful return", true, func() (bool, bool, string) {
		s := body(get)
		if strings.Contains(s, `c.used(c.fileName(id,"a"))returnEntry{`) {
			return true, true, ""
		}
		if !strings.Contains(s, "c.used(") {
			return false, true, ""
		}
		return false, false, "c.used call in get has an unrecognised position"
	})

	// ---- putIndexEntry
	pie := g.Method(rel, "Cache", "putIndexEntry")
	{
		format, args, why := "", []string{}, "Sprintf of the index entry not found"
		for _, call := range findCalls(pie, g, "fmt.Sprintf") {
			if len(call.Args) >= 1 {
				if s, ok := fact.StringLit(call.Args[0]); ok && strings.HasPrefix(s, "v1") {
					format, why = s, ""
					for _, a := range call.Args[1:] {
						args = append(args, src(a))
					}
				}
			}
		}
		if why != "" {
			g.Lost("entryFormat", why)
			format, args = "v1 %x %x %20d %20d\n", []string{"id", "out", "size", "time.Now().UnixNano()"}
		} else {
			g.Found("entryFormat", strconv.Quote(format)+" "+strings.Join(args, ","))
		}
		g.Emit("/-- putIndexEntry: `fmt.Sprintf(%s, …)` and its arguments -/\ndef entryFormat : GIV.Bytes := %s\ndef entryArgs : List String := %s\n", strings.ReplaceAll(strconv.Quote(format), "-/", "- /"), fact.LeanBytes(format), fact.LeanStrList(args))
	}
	g.EmitBool("indexOpenTrunc", "putIndexEntry: the open mode contains os.O_TRUNC", false, func() (bool, bool, string) {
		if pie == nil {
			return false, false, "putIndexEntry not found"
		}
		for _, st := range pie.Body.List {
			if as, ok := st.(*ast.AssignStmt); ok && src(as.Lhs[0]) == "mode" {
				return strings.Contains(src(as.Rhs[0]), "os.O_TRUNC"), true, ""
			}
		}
		return false, false, "mode assignment not found"
	})
	g.EmitBool("indexTruncAfterWrite", "putIndexEntry: `f.Truncate(int64(len(entry)))` after a successful `f.WriteString(entry)`", true, func() (bool, bool, string) {
		s := body(pie)
		if s == "" {
			return false, false, "putIndexEntry not found"
		}
		if !strings.Contains(s, "_,err=f.WriteString(entry)") {
			return false, false, "WriteString(entry) not found"
		}
		if strings.Contains(s, "_,err=f.WriteString(entry)iferr==nil{err=f.Truncate(int64(len(entry)))}") {
			return true, true, ""
		}
		if !strings.Contains(s, "Truncate(") {
			return false, true, ""
		}
		return false, false, "Truncate call has an unrecognised shape"
	})

	// ---- fileName and keys
	g.EmitBool("fileNameShape", "fileName: `filepath.Join(c.dir, fmt.Sprintf(\"%02x\", id[0]), fmt.Sprintf(\"%x\", id)+\"-\"+key)`", true, func() (bool, bool, string) {
		fn := g.Method(rel, "Cache", "fileName")
		if body(fn) != `{returnfilepath.Join(c.dir,fmt.Sprintf("%02x",id[0]),fmt.Sprintf("%x",id)+"-"+key)}` {
			return false, false, "fileName has an unrecognised shape"
		}
		return true, true, ""
	})
	outputFile := g.Method(rel, "Cache", "OutputFile")
	copyFile := g.Method(rel, "Cache", "copyFile")
	{
		keyOf := func(fd *ast.FuncDecl, first string) (string, bool) {
			for _, call := range findCalls(fd, g, "c.fileName") {
				if len(call.Args) == 2 && src(call.Args[0]) == first {
					return fact.StringLit(call.Args[1])
				}
			}
			return "", false
		}
		ka, ok1 := keyOf(get, "id")
		ka2, ok2 := keyOf(pie, "id")
		kd, ok3 := keyOf(outputFile, "out")
		kd2, ok4 := keyOf(copyFile, "out")
		if !(ok1 && ok2 && ok3 && ok4) || ka != ka2 || kd != kd2 {
			g.Lost("keys", "fileName keys of get/putIndexEntry/OutputFile/copyFile not found or inconsistent")
			ka, kd = "a", "d"
		} else {
			g.Found("keys", ka+","+kd)
		}
		g.Emit("/-- key of index files (get, putIndexEntry) and of data files (OutputFile, copyFile) -/\ndef keyIndex : GIV.Bytes := %s\ndef keyData : GIV.Bytes := %s\n", fact.LeanBytes(ka), fact.LeanBytes(kd))
	}

	// ---- durations
	for _, d := range []struct{ name, pinned string }{{"mtimeInterval", "(1 * hour)"}, {"trimInterval", "(24 * hour)"}, {"trimLimit", "((5 * 24) * hour)"}} {
		d := d
		c.def(d.name, "cache.go: `const "+d.name+"`", ": Int", d.pinned, func() (string, string) {
			return c.exprOf(g.TopLevelValue(rel, d.name), "const "+d.name+" not found", nil)
		})
	}

	// ---- used
	used := g.Method(rel, "Cache", "used")
	c.def("usedFresh", "used: ⇒ return without Chtimes; statOk = `err == nil` of os.Stat(file), d = `c.now().Sub(info.ModTime())`; otherwise `os.Chtimes(file, c.now(), c.now())`", "(statOk : Bool) (d : Int) : Bool",
		"(statOk && decide (d < mtimeInterval))", func() (string, string) {
			s := body(used)
			is := findIf(used, func(is *ast.IfStmt) bool { return src(is.Body) == "{return}" })
			if is == nil || !strings.HasPrefix(s, "{info,err:=os.Stat(file)if") || !strings.HasSuffix(s, "{return}os.Chtimes(file,c.now(),c.now())}") {
				return "", "used has an unrecognised shape"
			}
			return c.cond(is, "", map[string]string{"err==nil": "statOk", "c.now().Sub(info.ModTime())": "d"})
		})

	// ---- Trim
	dueIf := findIf(trim, func(is *ast.IfStmt) bool { return src(is.Init) == "d:=now.Sub(lastTrim)" })
	c.def("trimNotDue", "Trim: `d := now.Sub(lastTrim)`, lastTrim = time.Unix(t, 0), t parsed from trim.txt; ⇒ return nil without doing anything", "(d : Int) : Bool",
		"(decide (d < trimInterval) && decide (d > (-mtimeInterval)))", func() (string, string) {
			s := body(trim)
			pre := `{now:=c.now()ifdata,err:=lockedfile.Read(filepath.Join(c.dir,"trim.txt"));err==nil{ift,err:=strconv.ParseInt(strings.TrimSpace(string(data)),`
			if dueIf == nil || !strings.HasPrefix(s, pre) || !strings.Contains(s, ");err==nil{lastTrim:=time.Unix(t,0)ifd:=now.Sub(lastTrim);") || src(dueIf.Body) != "{returnnil}" {
				return "", "the due test of Trim has an unrecognised shape"
			}
			return c.cond(dueIf, "", map[string]string{"d": "d"})
		})
	c.def("cutoff", "Trim: `cutoff := now.Add(…)`", "(now : Int) : Int", "(now + ((-trimLimit) - mtimeInterval))", func() (string, string) {
		var rhs ast.Expr
		if trim != nil {
			for _, st := range trim.Body.List {
				if as, ok := st.(*ast.AssignStmt); ok && len(as.Lhs) == 1 && src(as.Lhs[0]) == "cutoff" {
					rhs = as.Rhs[0]
				}
			}
		}
		return c.exprOf(rhs, "cutoff assignment not found", map[string]string{"now": "now"})
	})
	c.def("trimSubdirs", "Trim: `for i := range N { subdir := filepath.Join(c.dir, fmt.Sprintf(\"%02x\", i)); c.trimSubdir(subdir, cutoff) }`", ": Nat", "256", func() (string, string) {
		var out, why = "", "range loop over the subdirectories not found"
		if trim != nil {
			for _, st := range trim.Body.List {
				if rs, ok := st.(*ast.RangeStmt); ok && src(rs.Key) == "i" && src(rs.Body) == `{subdir:=filepath.Join(c.dir,fmt.Sprintf("%02x",i))c.trimSubdir(subdir,cutoff)}` {
					if lit, ok := rs.X.(*ast.BasicLit); ok && lit.Kind == token.INT {
						out, why = lit.Value, ""
					}
				}
			}
		}
		return out, why
	})
	{
		name, format, why := "trim.txt", "%d", ""
		s := body(trim)
		reads := findCalls(trim, g, "lockedfile.Read")
		writes := findCalls(trim, g, "lockedfile.Write")
		prints := findCalls(trim, g, "fmt.Fprintf")
		if len(reads) != 1 || len(writes) != 1 || len(prints) != 1 {
			why = "lockedfile.Read / lockedfile.Write / fmt.Fprintf calls of Trim not found"
		} else {
			j1, ok1 := reads[0].Args[0].(*ast.CallExpr)
			j2, ok2 := writes[0].Args[0].(*ast.CallExpr)
			if !ok1 || !ok2 || len(j1.Args) != 2 || src(j1) != src(j2) || src(j1.Fun) != "filepath.Join" || src(j1.Args[0]) != "c.dir" {
				why = "trim.txt path expressions differ or have an unrecognised shape"
			} else if n, ok := fact.StringLit(j1.Args[1]); !ok {
				why = "trim.txt name is not a literal"
			} else {
				name = n
			}
			if f, ok := fact.StringLit(prints[0].Args[1]); !ok || len(prints[0].Args) != 3 || src(prints[0].Args[0]) != "&b" || src(prints[0].Args[2]) != "now.Unix()" || src(writes[0].Args[1]) != "&b" {
				why = "the Fprintf of the trim record has an unrecognised shape"
			} else {
				format = f
			}
			// order: sweep, then the record
			if !(strings.Index(s, "c.trimSubdir(subdir,cutoff)") < strings.Index(s, "lockedfile.Write(")) {
				why = "trim.txt is not written after the sweep"
			}
		}
		if why != "" {
			g.Lost("trimFile", why)
			name, format = "trim.txt", "%d"
		} else {
			g.Found("trimFile", name+" "+format)
		}
		g.Emit("/-- Trim: name of the last-trim record (read with lockedfile.Read before, written with lockedfile.Write after the sweep) and its format `fmt.Fprintf(&b, format, now.Unix())` -/\ndef trimFile : GIV.Bytes := %s\ndef trimFormat : GIV.Bytes := %s\n", fact.LeanBytes(name), fact.LeanBytes(format))
	}
	trimSubdir := g.Method(rel, "Cache", "trimSubdir")
	c.def("trimSkipName", "trimSubdir: ⇒ continue (the name is not a cache entry)", "(hasSuffix : GIV.Bytes → GIV.Bytes → Bool) (name : GIV.Bytes) : Bool",
		"((!(hasSuffix name [45, 97])) && (!(hasSuffix name [45, 100])))", func() (string, string) {
			is := findIf(trimSubdir, func(is *ast.IfStmt) bool { return src(is.Body) == "{continue}" })
			return c.cond(is, "suffix filter not found", map[string]string{"name": "name"})
		})
	c.def("trimRemove", "trimSubdir: `entry := filepath.Join(subdir, name); info, err := os.Stat(entry)`; ⇒ os.Remove(entry)", "(statOk : Bool) (mtime cutoff : Int) : Bool",
		"(statOk && decide (mtime < cutoff))", func() (string, string) {
			is := findIf(trimSubdir, func(is *ast.IfStmt) bool { return src(is.Body) == "{os.Remove(entry)}" })
			if is == nil || !strings.Contains(body(trimSubdir), "entry:=filepath.Join(subdir,name)info,err:=os.Stat(entry)if") {
				return "", "removal test not found"
			}
			return c.cond(is, "", map[string]string{"err==nil": "statOk", "info.ModTime()": "mtime", "cutoff": "cutoff"})
		})

	// ---- gates
	getFile := g.Method(rel, "Cache", "GetFile")
	c.def("getFileReject", "GetFile: `file = c.OutputFile(entry.OutputID); info, err := os.Stat(file)`; ⇒ not found (\"file incomplete\")", "(infoSize eSize : Int) : Bool",
		"decide (infoSize ≠ eSize)", func() (string, string) {
			is := findIf(getFile, func(is *ast.IfStmt) bool { return strings.Contains(src(is.Body), `"fileincomplete"`) })
			s := body(getFile)
			if is == nil || !strings.Contains(s, "entry,err=c.Get(id)iferr!=nil{return") || !strings.Contains(s, "file=c.OutputFile(entry.OutputID)info,err:=os.Stat(file)iferr!=nil{return") || !strings.HasSuffix(s, "returnfile,entry,nil}") {
				return "", "GetFile has an unrecognised shape"
			}
			return c.cond(is, "", map[string]string{"info.Size()": "infoSize", "entry.Size": "eSize"})
		})
	getBytes := g.Method(rel, "Cache", "GetBytes")
	c.def("getBytesReject", "GetBytes: ⇒ not found (\"bad checksum\"); sum = `sha256.Sum256(data)`, out = `entry.OutputID`", "{α : Type} [DecidableEq α] (sum out : α) : Bool",
		"decide (sum ≠ out)", func() (string, string) {
			is := findIf(getBytes, func(is *ast.IfStmt) bool { return strings.Contains(src(is.Body), `"badchecksum"`) })
			s := body(getBytes)
			if is == nil || !strings.Contains(s, "entry,err:=c.Get(id)iferr!=nil{return") || !strings.HasSuffix(s, "returndata,entry,nil}") {
				return "", "GetBytes has an unrecognised shape"
			}
			return c.cond(is, "", map[string]string{"sha256.Sum256(data)": "sum", "entry.OutputID": "out"})
		})
	g.EmitBool("getBytesIgnoresReadErr", "GetBytes: `data, _ := os.ReadFile(c.OutputFile(entry.OutputID))` — a read error leaves data empty", true, func() (bool, bool, string) {
		if strings.Contains(body(getBytes), "data,_:=os.ReadFile(c.OutputFile(entry.OutputID))") {
			return true, true, ""
		}
		return false, false, "ReadFile call of GetBytes has an unrecognised shape"
	})

	// ---- copyFile
	c.def("copyCheckExisting", "copyFile: `info, err := os.Stat(name)`; ⇒ re-hash the existing file", "(statOk : Bool) (infoSize size : Int) : Bool",
		"(statOk && decide (infoSize = size))", func() (string, string) {
			is := findIf(copyFile, func(is *ast.IfStmt) bool { return strings.Contains(src(is.Cond), "info.Size()==size") })
			if is == nil || !strings.HasPrefix(body(copyFile), `{name:=c.fileName(out,"d")info,err:=os.Stat(name)if`) {
				return "", "existing-file test not found"
			}
			return c.cond(is, "", map[string]string{"err==nil": "statOk", "info.Size()": "infoSize", "size": "size"})
		})
	reuseIf := findIf(copyFile, func(is *ast.IfStmt) bool {
		return strings.HasSuffix(src(is.Body), "returnnil}") && strings.Contains(src(is.Cond), "out2")
	})
	c.def("copyReuse", "copyFile: out2 = hash of the existing file; ⇒ return nil without writing", "{α : Type} [DecidableEq α] (out out2 : α) : Bool",
		"decide (out = out2)", func() (string, string) {
			if reuseIf == nil || !strings.Contains(body(copyFile), "iff,err:=os.Open(name);err==nil{h:=sha256.New()io.Copy(h,f)f.Close()varout2OutputIDh.Sum(out2[:0])if") {
				return "", "re-hash of the existing file not found"
			}
			return c.cond(reuseIf, "", map[string]string{"out": "out", "out2": "out2"})
		})
	c.def("copyReuseRefresh", "copyFile: what the reuse branch does to the mtime of the existing data file before `return nil`: 0 = nothing, 1 = `c.used(name)`, 2 = `os.Chtimes(name, c.now(), c.now())`", ": Nat", "0", func() (string, string) {
		if reuseIf == nil {
			return "", "reuse branch not found"
		}
		switch src(reuseIf.Body) {
		case "{returnnil}":
			return "0", ""
		case "{c.used(name)returnnil}":
			return "1", ""
		case "{os.Chtimes(name,c.now(),c.now())returnnil}":
			return "2", ""
		}
		return "", "reuse branch has an unrecognised shape: " + g.Pretty(reuseIf.Body)
	})
	c.def("copyTrunc", "copyFile: ⇒ `mode |= os.O_TRUNC` (mode = O_RDWR|O_CREATE)", "(statOk : Bool) (infoSize size : Int) : Bool",
		"(statOk && decide (infoSize > size))", func() (string, string) {
			is := findIf(copyFile, func(is *ast.IfStmt) bool { return src(is.Body) == "{mode|=os.O_TRUNC}" })
			if is == nil || !strings.Contains(body(copyFile), "mode:=os.O_RDWR|os.O_CREATEif") {
				return "", "O_TRUNC test not found"
			}
			return c.cond(is, "", map[string]string{"err==nil": "statOk", "info.Size()": "infoSize", "size": "size"})
		})
	c.def("copyEmptyReturn", "copyFile: ⇒ return nil right after opening", "(size : Int) : Bool", "decide (size = 0)", func() (string, string) {
		is := findIf(copyFile, func(is *ast.IfStmt) bool {
			return src(is.Body) == "{returnnil}" && !strings.Contains(src(is.Cond), "out2")
		})
		return c.cond(is, "size == 0 early return not found", map[string]string{"size": "size"})
	})
	c.def("copyFirstLen", "copyFile: `io.CopyN(w, file, …)` to file and hash, then exactly one more byte is read, hashed, checked and written", "(size : Int) : Int", "(size - 1)", func() (string, string) {
		calls := findCalls(copyFile, g, "io.CopyN")
		s := body(copyFile)
		if len(calls) != 1 || len(calls[0].Args) != 3 || !strings.Contains(s, "buf:=make([]byte,1)if_,err:=file.Read(buf);err!=nil{") || !strings.Contains(s, "if_,err:=f.Write(buf);err!=nil{") {
			return "", "CopyN / last byte handling not found"
		}
		return c.exprOf(calls[0].Args[2], "", map[string]string{"size": "size"})
	})
	c.def("copyUnderfoot", "copyFile: sum = hash of the bytes copied; ⇒ f.Truncate(0), \"file content changed underfoot\"", "{α : Type} [DecidableEq α] (sum out : α) : Bool",
		"(!(decide (sum = out)))", func() (string, string) {
			is := findIf(copyFile, func(is *ast.IfStmt) bool { return strings.Contains(src(is.Body), `"filecontentchangedunderfoot"`) })
			if is == nil || !strings.HasPrefix(src(is.Body), "{f.Truncate(0)") {
				return "", "underfoot test not found"
			}
			return c.cond(is, "", map[string]string{"sum": "sum", "out[:]": "out"})
		})
	g.EmitBool("copyChtimes", "copyFile ends with `os.Chtimes(name, c.now(), c.now())`, putIndexEntry with `os.Chtimes(file, c.now(), c.now())`", true, func() (bool, bool, string) {
		if strings.HasSuffix(body(copyFile), "os.Chtimes(name,c.now(),c.now())returnnil}") && strings.HasSuffix(body(pie), "os.Chtimes(file,c.now(),c.now())returnnil}") {
			return true, true, ""
		}
		return false, false, "final Chtimes not found"
	})
	put := g.Method(rel, "Cache", "put")
	g.EmitBool("putOrder", "put: hash pass (`size, err := io.Copy(h, file)`), then `c.copyFile(file, out, size)`, then `c.putIndexEntry(id, out, size, allowVerify)`", true, func() (bool, bool, string) {
		s := body(put)
		i1, i2, i3 := strings.Index(s, "size,err:=io.Copy(h,file)"), strings.Index(s, "iferr:=c.copyFile(file,out,size);err!=nil{returnout,size,err}"), strings.Index(s, "returnout,size,c.putIndexEntry(id,out,size,allowVerify)")
		if i1 < 0 || i2 < 0 || i3 < 0 || !(i1 < i2 && i2 < i3) {
			return false, false, "put has an unrecognised shape"
		}
		return true, true, ""
	})
}
