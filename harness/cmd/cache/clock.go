package main

// The clock-controlled lane (C13, and the refresh rule of used for C05/C13 histories).
//
// The real clock cannot place a Trim a nanosecond before or after a boundary, nor let five days pass.
// Here a scratch copy of /repo gets one extra file (cache/export_verif.go: func (c *Cache) SetNow) and the
// driver harness/shimcmd/cacheclock executes the same `hist …` request lines as the Lean model, with the
// cache's clock set to the virtual `now` of every operation.  Model and implementation therefore see the
// SAME times: the comparison is exact (no guard band), and the oracle applies the statement on virtual time.
//
// Not comparable in this lane (they come from the real clock inside the package): the time field of an
// index entry (time.Now().UnixNano() in putIndexEntry) and the mtime of trim.txt (lockedfile.Write); empty
// contents are not stored here because copyFile's early return for size 0 leaves a real-clock mtime.

import (
	"crypto/sha256"
	"encoding/hex"
	"fmt"
	"math/rand"
	"os"
	"path/filepath"
	"strconv"
	"strings"

	"verif/harness/internal/corr"
	"verif/harness/internal/mdl"
	"verif/harness/internal/shimkit"
)

const clockExport = "package cache\n\nimport \"time\"\n\n// SetNow lets the verification driver control the cache's clock (scratch copy only).\nfunc (c *Cache) SetNow(f func() time.Time) { c.now = f }\n"

func envOr(k, def string) string {
	if v := os.Getenv(k); v != "" {
		return v
	}
	return def
}

func buildClockShim() (*shimkit.Built, error) {
	h := filepath.Join(envOr("VERIF_ROOT", "/verif"), "harness")
	return shimkit.Build(shimkit.Spec{Repo: envOr("VERIF_REPO", "/repo"), Files: nil,
		ExtraFiles: map[string]string{"cache/export_verif.go": clockExport},
		DriverDir:  filepath.Join(h, "shimcmd", "cacheclock"), VshimDir: filepath.Join(h, "vshim")})
}

const (
	secNS  = int64(1000000000)
	clockT = int64(1700000000)*secNS + 123456789 // the virtual "T"
)

var clockContents = []string{"x41", "x4142", "g300.2"}

func cidHex(i int) string { return hex.EncodeToString(cacheIDs[i][:]) }

func dataName(spec string) string { return relName(sha256.Sum256(contentBytes(spec)), "d") }

func outHex(spec string) string {
	s := sha256.Sum256(contentBytes(spec))
	return hex.EncodeToString(s[:])
}

func lookupOp(kind string, now int64, id int, spec string) string {
	if kind == "O" {
		return fmt.Sprintf("O:%d:%s", now, outHex(spec))
	}
	return fmt.Sprintf("%s:%d:%s", kind, now, cidHex(id))
}

// clockCases generates the request lines of the lane.
func clockCases(r *rand.Rand, nRandom int) []string {
	var lines []string
	add := func(ops ...string) { lines = append(lines, "hist "+strings.Join(ops, ",")) }
	T := clockT
	// A. Put at T, a lookup at T+g (g < 1h: used does not move the mtime), a due Trim around T+5d, T+g+5d, T+5d+1h, T+g+5d+1h
	gs := []int64{1, secNS, 30 * 60 * secNS, hourNS - 1, hourNS, hourNS + 1}
	for _, g := range gs {
		for _, kind := range []string{"", "G", "B", "F", "O"} {
			for _, base := range []int64{T + 5*dayNS, T + g + 5*dayNS, T + 5*dayNS + hourNS, T + g + 5*dayNS + hourNS} {
				for _, dl := range []int64{-1, 0, 1} {
					now := base + dl
					c := clockContents[int(g+now)%len(clockContents)]
					ops := []string{fmt.Sprintf("P:%d:%s:%s", T, cidHex(0), c)}
					if kind != "" {
						ops = append(ops, lookupOp(kind, T+g, 0, c))
					}
					ops = append(ops, fmt.Sprintf("T:%d", now), fmt.Sprintf("B:%d:%s", now+1, cidHex(0)), fmt.Sprintf("F:%d:%s", now+2, cidHex(0)))
					add(ops...)
				}
			}
		}
	}
	// … the same with the Trim half-way: inside (T+5d, T+g+5d) the entry was looked up less than five days ago
	for _, g := range []int64{30 * 60 * secNS, hourNS - 1} {
		for _, kind := range []string{"G", "B", "F"} {
			now := T + 5*dayNS + g/2
			add(fmt.Sprintf("Q:%d:%s:%s", T, cidHex(1), "x4142"), lookupOp(kind, T+g, 1, "x4142"), fmt.Sprintf("T:%d", now), fmt.Sprintf("B:%d:%s", now+1, cidHex(1)))
		}
	}
	// B. the due test, exactly: trim.txt = t, now = t·10⁹ + d; a population on the cutoff boundary
	t := int64(1700000000)
	for _, d := range []int64{dayNS - 1, dayNS, dayNS + 1, -hourNS - 1, -hourNS, -hourNS + 1, 0, 1, -1, hourNS, dayNS - secNS, 2 * dayNS, -dayNS, 23*hourNS + 59*60*secNS} {
		now := t*secNS + d
		var ops []string
		for i, dm := range []int64{-1, 0, 1, hourNS, -dayNS} {
			ops = append(ops, fmt.Sprintf("w:ab/e%d-%s:x78:%d", i, []string{"a", "d"}[i%2], now-5*dayNS-hourNS+dm))
		}
		ops = append(ops, fmt.Sprintf("w:README:x6b:%d", now-400*dayNS), fmt.Sprintf("w:ab/x-a.tmp:x6b:%d", now-400*dayNS), fmt.Sprintf("w:fuzz/ab/x-a:x6b:%d", now-400*dayNS))
		for _, rec := range []string{"%d", " %d\n"} {
			all := append(append([]string{}, ops...), fmt.Sprintf("w:trim.txt:%s:%d", xspec([]byte(fmt.Sprintf(rec, t))), now-3*dayNS), fmt.Sprintf("T:%d", now), fmt.Sprintf("T:%d", now+1))
			add(all...)
		}
	}
	// no record at all: always due; the cutoff boundary alone
	for _, dm := range []int64{-2, -1, 0, 1, 2} {
		now := T + 9*dayNS
		add(fmt.Sprintf("w:00/k-a:x78:%d", now-5*dayNS-hourNS+dm), fmt.Sprintf("w:ff/k-d:x78:%d", now-5*dayNS-hourNS+dm), fmt.Sprintf("T:%d", now))
	}
	// C. the refresh rule of used, exactly: mtime = u − 1h + {−1, 0, 1}
	for _, dm := range []int64{-1, 0, 1, hourNS, -hourNS, 2 * hourNS} {
		for _, kind := range []string{"G", "B", "F", "O"} {
			u := T + 3*dayNS
			c := "g300.2"
			add(fmt.Sprintf("P:%d:%s:%s", T, cidHex(2), c), fmt.Sprintf("m:%s:%d", relName(cacheIDs[2], "a"), u-hourNS+dm), fmt.Sprintf("m:%s:%d", dataName(c), u-hourNS+dm),
				lookupOp(kind, u, 2, c))
		}
	}
	// Put that re-uses an old output, then a due Trim (regression of e29dd81, now with exact times)
	for _, dl := range []int64{-1, 0, 1} {
		now := T + 5*dayNS + hourNS + dl
		add(fmt.Sprintf("P:%d:%s:x4142", T, cidHex(0)), fmt.Sprintf("Q:%d:%s:x4142", now, cidHex(1)), fmt.Sprintf("T:%d", now+1), fmt.Sprintf("B:%d:%s", now+2, cidHex(1)), fmt.Sprintf("B:%d:%s", now+3, cidHex(0)))
	}
	// D. random histories on a virtual time line whose steps are the interesting durations
	steps := []int64{1, secNS, 30 * 60 * secNS, hourNS - 1, hourNS, hourNS + 1, dayNS - 1, dayNS, dayNS + 1, 5*dayNS - 1, 5 * dayNS, 5*dayNS + 1,
		5*dayNS + hourNS - 1, 5*dayNS + hourNS, 5*dayNS + hourNS + 1, 6 * dayNS, 4 * dayNS, 2 * hourNS, 23 * hourNS}
	names := []string{"ab/x-a", "ab/y-d", "00/-a", "ff/zz-d", "ab/x-a.tmp", "README", "fuzz/ab/q-a", "ab/sub/n-a", "AB/u-a", "x-a"}
	for i := 0; i < nRandom; i++ {
		now := T
		var ops []string
		n := 3 + r.Intn(14)
		for len(ops) < n {
			now += steps[r.Intn(len(steps))]
			if r.Intn(8) == 0 {
				now -= steps[r.Intn(6)] // the clock may also step back a little
			}
			id := r.Intn(3)
			c := clockContents[r.Intn(len(clockContents))]
			switch k := r.Intn(20); {
			case k < 5:
				ops = append(ops, fmt.Sprintf("%s:%d:%s:%s", []string{"P", "Q"}[r.Intn(2)], now, cidHex(id), c))
			case k < 7:
				ops = append(ops, lookupOp("G", now, id, c))
			case k < 10:
				ops = append(ops, lookupOp("B", now, id, c))
			case k < 12:
				ops = append(ops, lookupOp("F", now, id, c))
			case k < 13:
				ops = append(ops, lookupOp("O", now, id, c))
			case k < 17:
				ops = append(ops, fmt.Sprintf("T:%d", now))
			case k < 19:
				ops = append(ops, fmt.Sprintf("w:%s:x6b:%d", names[r.Intn(len(names))], now-steps[r.Intn(len(steps))]))
			default:
				rec := []int64{now / secNS, now/secNS - 86400, now/secNS - 86399, now/secNS + 3600, now/secNS + 3599, now/secNS - 86401}[r.Intn(6)]
				ops = append(ops, fmt.Sprintf("w:trim.txt:%s:%d", xspec([]byte(strconv.FormatInt(rec, 10))), now))
			}
		}
		add(ops...)
	}
	return lines
}

// normResult drops what the lane cannot compare: the entry time of a successful lookup.
func normResult(kind, res string) string {
	if strings.Contains("GFB", kind) && strings.HasPrefix(res, "ok:") {
		if i := strings.LastIndex(res, ":"); i > 0 {
			return res[:i]
		}
	}
	return res
}

// normListing: index files by name, length and mtime (their content holds a real-clock time); trim.txt by
// name and content; everything else by name, length, content and mtime.
func normListing(ls string) []string {
	if ls == "" {
		return nil
	}
	var out []string
	for _, e := range strings.Split(ls, ";") {
		f := strings.Split(e, ":")
		if len(f) != 4 {
			out = append(out, e)
			continue
		}
		switch {
		case f[0] == "trim.txt":
			out = append(out, f[0]+":"+f[1]+":"+f[2])
		case isEntryPath(f[0]) && strings.HasSuffix(f[0], "-a") && f[1] == "175":
			out = append(out, f[0]+":"+f[1]+":"+f[3])
		default:
			out = append(out, e)
		}
	}
	return out
}

type vfile struct {
	name  string
	mtime int64
	sum   string
}

func parseVFiles(s string) []vfile {
	var out []vfile
	if s == "" {
		return nil
	}
	for _, e := range strings.Split(s, ";") {
		f := strings.Split(e, "@")
		if len(f) == 3 {
			mt, _ := strconv.ParseInt(f[1], 10, 64)
			out = append(out, vfile{f[0], mt, f[2]})
		}
	}
	return out
}

// clockOracle applies the statement, on virtual time, to what the implementation did in one history.
func clockOracle(res *corr.Result, line string, kinds []string, ops [][]string, results []string, trims []string) {
	viol := func(what, class string) { res.Violate("C13", "clock "+line, what, class) }
	use := map[string]int64{} // file name -> virtual time of the Put or successful lookup that last used it
	ti := 0
	for i, f := range ops {
		ok := strings.HasPrefix(results[i], "ok")
		switch kinds[i] {
		case "P", "Q":
			now, _ := strconv.ParseInt(f[1], 10, 64)
			if ok {
				var id [32]byte
				b, _ := hex.DecodeString(f[2])
				copy(id[:], b)
				use[relName(id, "a")] = now
				use[dataName(f[3])] = now
			}
		case "G", "B", "F":
			now, _ := strconv.ParseInt(f[1], 10, 64)
			if ok {
				var id [32]byte
				b, _ := hex.DecodeString(f[2])
				copy(id[:], b)
				use[relName(id, "a")] = now
				if kinds[i] != "G" {
					rf := strings.Split(results[i], ":")
					outh := rf[len(rf)-3]
					use[outh[:2]+"/"+outh+"-d"] = now
				}
			}
		case "O":
			now, _ := strconv.ParseInt(f[1], 10, 64)
			use[f[2][:2]+"/"+f[2]+"-d"] = now
		case "w", "d", "m", "t", "x":
			delete(use, f[1])
		case "c":
			delete(use, f[2])
		case "T":
			now, _ := strconv.ParseInt(f[1], 10, 64)
			if ti >= len(trims) {
				continue
			}
			ba := strings.SplitN(trims[ti], ">", 2)
			ti++
			if len(ba) != 2 {
				continue
			}
			before, after := parseVFiles(ba[0]), parseVFiles(ba[1])
			res.OracleChecked["C13"]++
			am := map[string]vfile{}
			for _, a := range after {
				am[a.name] = a
			}
			// due?
			due := true
			var rec *vfile
			for k := range before {
				if before[k].name == "trim.txt" {
					rec = &before[k]
				}
			}
			if rec != nil {
				// the content is not in the listing (only its digest): recover it from the operations
				for j := i - 1; j >= 0; j-- {
					if kinds[j] == "T" {
						if tnow, _ := strconv.ParseInt(ops[j][1], 10, 64); true {
							h := sha256.Sum256([]byte(strconv.FormatInt(floorDiv(tnow, secNS), 10)))
							if hex.EncodeToString(h[:]) == rec.sum {
								d := now - floorDiv(tnow, secNS)*secNS
								due = !(d < dayNS && d > -hourNS)
								break
							}
						}
					}
					if kinds[j] == "w" && ops[j][1] == "trim.txt" {
						if tt, err := strconv.ParseInt(strings.TrimSpace(string(contentBytes(ops[j][2]))), 10, 64); err == nil && tt > -(1<<40) && tt < 1<<40 {
							d := now - tt*secNS
							due = !(d < dayNS && d > -hourNS)
						}
						break
					}
				}
			}
			for _, b := range before {
				a, kept := am[b.name]
				if b.name == "trim.txt" {
					if !due && (!kept || a != b) {
						viol("Trim touched trim.txt although a trim completed less than a day ago", "trim-not-due")
					}
					continue
				}
				if kept && a != b {
					viol("Trim changed "+b.name, "trim-modifies")
				}
				u, used := use[b.name]
				switch {
				case !isEntryPath(b.name):
					if !kept {
						viol("Trim removed a file that is not a cache entry: "+b.name, "trim-frame")
					}
				case !due:
					if !kept {
						viol("Trim removed "+b.name+" although a trim completed less than a day ago", "trim-not-due")
					}
				case used && now-u <= 5*dayNS:
					if !kept {
						viol(fmt.Sprintf("Trim at %d removed %s, stored or looked up at %d: %d ns (less than five days) earlier; mtime %d", now, b.name, u, now-u, b.mtime), "trim-removes-recently-used")
					}
				case b.mtime < now-5*dayNS-hourNS:
					if kept {
						viol(fmt.Sprintf("a due Trim at %d kept %s with mtime %d, unused for more than five days and one hour", now, b.name, b.mtime), "trim-keeps-stale")
					}
				}
				if !kept {
					delete(use, b.name)
				}
			}
			if due {
				a, ok := am["trim.txt"]
				h := sha256.Sum256([]byte(strconv.FormatInt(floorDiv(now, secNS), 10)))
				if !ok || a.sum != hex.EncodeToString(h[:]) {
					viol("Trim was due but did not record the trim time in trim.txt", "trim-record")
				}
			}
		}
	}
}

func floorDiv(a, b int64) int64 {
	q := a / b
	if a%b != 0 && (a < 0) != (b < 0) {
		q--
	}
	return q
}

// runClockLane builds the scratch copy, runs implementation and model on the same lines and compares exactly.
func runClockLane(res *corr.Result, r *rand.Rand, model string, nRandom int, only string) int {
	var lines []string
	if only != "" {
		lines = []string{only}
	} else {
		lines = clockCases(r, nRandom)
	}
	b, err := buildClockShim()
	if err != nil {
		res.Observations = append(res.Observations, "clock lane: cannot build the scratch copy: "+err.Error())
		res.Disagree("<clock-lane>", "", err.Error())
		return 0
	}
	defer b.Cleanup()
	implOut, err := mdl.Run(b.Bin, nil, lines, 0)
	if err != nil {
		res.Observations = append(res.Observations, "clock lane: driver error: "+err.Error())
		res.Disagree("<clock-lane>", "", err.Error())
		return 0
	}
	modelOut, err := mdl.Run(model, nil, lines, 0)
	if err != nil {
		res.Observations = append(res.Observations, "clock lane: model driver error: "+err.Error())
		res.Disagree("<clock-lane>", "", err.Error())
		return 0
	}
	c13, both := []string{"C13"}, []string{"C05", "C13"}
	for i, line := range lines {
		ip := strings.SplitN(implOut[i], "|", 3)
		mp := strings.SplitN(modelOut[i], "|", 2)
		if len(ip) != 3 || len(mp) != 2 {
			res.Disagree("clock "+line, implOut[i], modelOut[i])
			continue
		}
		var ops [][]string
		var kinds []string
		for _, o := range strings.Split(strings.TrimPrefix(line, "hist "), ",") {
			f := strings.Split(o, ":")
			ops = append(ops, f)
			kinds = append(kinds, f[0])
			res.Distribution["clock-op:"+f[0]]++
		}
		ir, mr := strings.Split(ip[0], ","), strings.Split(mp[0], ",")
		if len(ir) != len(ops) || len(mr) != len(ops) {
			res.Disagree("clock "+line, implOut[i], modelOut[i])
			continue
		}
		if strings.Contains(ip[0], "PANIC") {
			res.Violate("C05", "clock "+line, "an operation panics", "panic")
		}
		diff := ""
		props := c13
		for k := range ops {
			if a, m := normResult(kinds[k], ir[k]), normResult(kinds[k], mr[k]); a != m {
				diff = fmt.Sprintf("op %d (%s): impl %s, model %s", k, strings.Join(ops[k], ":"), a, m)
				// before any Trim or aged file, a differing Put / lookup result is C05's business as well
				props = both
				for _, kk := range kinds[:k] {
					if kk == "T" || kk == "m" || kk == "w" {
						props = c13
					}
				}
				if kinds[k] != "T" && strings.HasPrefix(a, "nf:") == strings.HasPrefix(m, "nf:") {
					props = []string{"C05"} // both found or both not found: time decides presence only
				}
				break
			}
		}
		if diff == "" {
			il, ml := normListing(ip[1]), normListing(mp[1])
			if strings.Join(il, ";") != strings.Join(ml, ";") {
				diff = "listing: impl " + strings.Join(il, ";") + "  model " + strings.Join(ml, ";")
			}
		}
		if diff != "" {
			res.DisagreeFor(props, "clock "+line, diff, modelOut[i])
		}
		var trims []string
		if ip[2] != "" {
			trims = strings.Split(ip[2], "#")
		}
		clockOracle(res, line, kinds, ops, ir, trims)
	}
	res.Distribution["clock-lane-cases"] = len(lines)
	return len(lines)
}
