// cache group binary: `cache factgen ...` and `cache corr ...` (properties C05, C13).
package main

import (
	"fmt"
	"os"

	"verif/harness/internal/corr"
	"verif/harness/internal/fact"
)

func main() {
	if len(os.Args) < 2 {
		fmt.Fprintln(os.Stderr, "usage: cache factgen|corr [flags]")
		os.Exit(2)
	}
	switch os.Args[1] {
	case "factgen":
		fact.Main(os.Args[2:], "cache", "Cache", genCache)
	case "corr":
		corr.Main(os.Args[2:], runCache)
	default:
		fmt.Fprintln(os.Stderr, "usage: cache factgen|corr [flags]")
		os.Exit(2)
	}
}
