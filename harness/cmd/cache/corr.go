package main

import (
	"bytes"
	"crypto/sha256"
	"encoding/hex"
	"encoding/json"
	"errors"
	"fmt"
	"io/fs"
	"math/rand"
	"os"
	"path/filepath"
	"runtime"
	"sort"
	"strconv"
	"strings"
	"sync"
	"time"

	"github.com/rogpeppe/go-internal/cache"

	"verif/harness/internal/corr"
	"verif/harness/internal/mdl"
)

// ---------------------------------------------------------------------------------------------
// abstract cases.  A case is a list of abstract operations; times are relative ("age" before the
// moment the operation is executed), so that a case can be generated deterministically from the
// seed and replayed later.  Executing a case against the real package turns it into a concrete
// request line for the model driver (absolute nanosecond times as the implementation saw them).

type aop struct {
	K       string `json:"k"`                 // P Q G F B O T  |  w d m t x c
	ID      int    `json:"id,omitempty"`      // index into ids (P Q G F B)
	Content string `json:"content,omitempty"` // content spec (P Q w), see contentBytes
	Out     string `json:"out,omitempty"`     // O: content spec whose hash is the output id, or "h<hex>"
	Name    string `json:"name,omitempty"`    // w d m t x c: relative file name, or "@a<id>" / "@d<content spec>"
	Src     string `json:"src,omitempty"`     // c: source name
	N       int    `json:"n,omitempty"`       // t: new length (or -k: shrink by k, +1000000+k: grow by k)  x: position
	AgeNS   int64  `json:"age,omitempty"`     // w m t x c: mtime = (now - age)
	Entry   *fake  `json:"entry,omitempty"`   // w: content is a formatted index entry
}

// fake describes a well-formed-looking index entry written directly to disk.
type fake struct {
	ID    int    `json:"id"`
	Out   string `json:"out"`  // content spec
	DSize int64  `json:"ds"`   // size field = len(content) + DSize
	AgeNS int64  `json:"age"`  // time field = now - age
	Upper bool   `json:"up"`   // upper-case hex
	Sign  string `json:"sign"` // "", "+", "-"
}

type acase struct {
	Kind string `json:"kind"` // hist | trim
	Ops  []aop  `json:"ops"`
}

var cacheIDs = func() [][32]byte {
	var ids [][32]byte
	for i := 0; i < 5; i++ {
		ids = append(ids, sha256.Sum256([]byte(fmt.Sprintf("action-%d", i))))
	}
	ids[1][0] = ids[0][0] // two ids in the same subdirectory
	return ids
}()

func genBytes(seed, n int) []byte {
	b := make([]byte, n)
	for i := range b {
		b[i] = byte((i*131 + seed*29 + (i/256)*7 + 1) % 256)
	}
	return b
}

// contentBytes decodes a content spec: x<hex> (x- = empty) or g<len>.<seed>.
func contentBytes(spec string) []byte {
	switch {
	case strings.HasPrefix(spec, "x"):
		return corr.Unhx(spec[1:])
	case strings.HasPrefix(spec, "g"):
		var n, seed int
		fmt.Sscanf(spec[1:], "%d.%d", &n, &seed)
		return genBytes(seed, n)
	}
	panic("bad content spec " + spec)
}

func xspec(b []byte) string { return "x" + corr.Hx(b) }

func relName(id [32]byte, key string) string { return fmt.Sprintf("%02x/%x-%s", id[0], id, key) }

func resolveName(n string) string {
	switch {
	case strings.HasPrefix(n, "@a"):
		i, _ := strconv.Atoi(n[2:])
		return relName(cacheIDs[i], "a")
	case strings.HasPrefix(n, "@d"):
		return relName(sha256.Sum256(contentBytes(n[2:])), "d")
	}
	return n
}

func fakeEntry(f *fake, now int64) []byte {
	id := cacheIDs[f.ID]
	data := contentBytes(f.Out)
	out := sha256.Sum256(data)
	idh, outh := hex.EncodeToString(id[:]), hex.EncodeToString(out[:])
	if f.Upper {
		idh, outh = strings.ToUpper(idh), strings.ToUpper(outh)
	}
	return []byte(fmt.Sprintf("v1 %s %s %20s %20s\n", idh, outh, f.Sign+strconv.FormatInt(int64(len(data))+f.DSize, 10), strconv.FormatInt(now-f.AgeNS, 10)))
}

// ---------------------------------------------------------------------------------------------
// executing a case on the real package

type lsEntry struct {
	name  string
	size  int
	sum   string
	mtime int64
}

type execResult struct {
	line    string // request line for the model
	results []string
	kinds   []string // first letter of each concrete operation, parallel to results
	listing []lsEntry
}

type worker struct {
	dir string
	c   *cache.Cache
}

func newWorker() (*worker, error) {
	dir, err := os.MkdirTemp("", "giv-cache-")
	if err != nil {
		return nil, err
	}
	c, err := cache.Open(dir)
	if err != nil {
		os.RemoveAll(dir)
		return nil, err
	}
	return &worker{dir: dir, c: c}, nil
}

func (w *worker) close() { os.RemoveAll(w.dir) }

// reset removes everything except the 256 subdirectories.
func (w *worker) reset() {
	ents, _ := os.ReadDir(w.dir)
	for _, e := range ents {
		p := filepath.Join(w.dir, e.Name())
		if e.IsDir() && len(e.Name()) == 2 && strings.Trim(e.Name(), "0123456789abcdef") == "" {
			sub, _ := os.ReadDir(p)
			for _, s := range sub {
				os.RemoveAll(filepath.Join(p, s.Name()))
			}
			continue
		}
		os.RemoveAll(p)
	}
}

func (w *worker) list() []lsEntry {
	var out []lsEntry
	filepath.Walk(w.dir, func(p string, info fs.FileInfo, err error) error {
		if err != nil || !info.Mode().IsRegular() {
			return nil
		}
		rel, _ := filepath.Rel(w.dir, p)
		data, _ := os.ReadFile(p)
		s := sha256.Sum256(data)
		out = append(out, lsEntry{filepath.ToSlash(rel), len(data), hex.EncodeToString(s[:]), info.ModTime().UnixNano()})
		return nil
	})
	sort.Slice(out, func(i, j int) bool { return out[i].name < out[j].name })
	return out
}

func reasonOf(err error) string {
	var pe *fs.PathError
	if errors.As(err, &pe) {
		switch pe.Op {
		case "open":
			return "nofile"
		case "stat":
			return "statdata"
		}
		return "patherror:" + pe.Op
	}
	s := err.Error()
	for _, m := range [][2]string{{"too long", "toolong"}, {"file is empty", "empty"}, {"entry file incomplete", "incomplete"}, {"invalid header", "header"},
		{"decoding output ID", "decodeout"}, {"decoding ID", "decodeid"}, {"mismatched ID", "mismatchedid"}, {"parsing size", "parsesize"}, {"negative size", "negsize"},
		{"parsing timestamp", "parsetime"}, {"negative timestamp", "negtime"}, {"file incomplete", "fileincomplete"}, {"bad checksum", "badchecksum"}} {
		if strings.Contains(s, m[0]) {
			return m[1]
		}
	}
	return "other:" + s
}

func showEntry(e cache.Entry) string {
	return fmt.Sprintf("%x:%d:%d", e.OutputID, e.Size, e.Time.UnixNano())
}

type oracle struct {
	res   *corr.Result
	mu    *sync.Mutex
	input string
}

func (o *oracle) violate(prop, what, class string) {
	o.mu.Lock()
	o.res.Violate(prop, o.input, what, class)
	o.mu.Unlock()
}

func (o *oracle) checked(prop string, n int) {
	o.mu.Lock()
	o.res.OracleChecked[prop] += n
	o.mu.Unlock()
}

const guardNS = int64(2 * time.Second)

// exec runs one abstract case on the real package and evaluates the model-independent oracles.
func (w *worker) exec(cs *acase, o *oracle) (er execResult) {
	w.reset()
	var ops []string
	emit := func(op, res string) {
		ops = append(ops, op)
		er.results = append(er.results, res)
		er.kinds = append(er.kinds, op[:1])
	}
	// oracle state for C05: the content last stored under an id and not damaged since
	valid := map[int]string{}
	// oracle state for C13: ids looked up successfully (bytes), when, and what came back
	type lk struct {
		at   int64
		data []byte
	}
	lookedUp := map[int]lk{}
	invalidateName := func(name string) {
		for id, spec := range valid {
			if name == relName(cacheIDs[id], "a") || name == relName(sha256.Sum256(contentBytes(spec)), "d") {
				delete(valid, id)
			}
		}
		for id, l := range lookedUp {
			if name == relName(cacheIDs[id], "a") || name == relName(sha256.Sum256(l.data), "d") {
				delete(lookedUp, id)
			}
		}
	}
	defer func() {
		if r := recover(); r != nil {
			o.violate("C05", fmt.Sprintf("panic: %v", r), "panic")
			er.line = ""
		}
	}()
	getBytes := func(idx int) {
		now := time.Now().UnixNano()
		id := cacheIDs[idx]
		data, e, err := w.c.GetBytes(id)
		o.checked("C05", 1)
		res := ""
		if err != nil {
			res = "nf:" + reasonOf(err)
			delete(lookedUp, idx)
		} else {
			s := sha256.Sum256(data)
			res = fmt.Sprintf("ok:%d:%x:%s", len(data), s, showEntry(e))
			if s != e.OutputID {
				o.violate("C05", "GetBytes returned bytes whose SHA-256 differs from the reported OutputID", "getbytes-checksum")
			}
			lookedUp[idx] = lk{now, data}
			for _, n := range []string{relName(id, "a"), relName(e.OutputID, "d")} {
				if fi, e := os.Stat(filepath.Join(w.dir, n)); e == nil {
					o.checked("C13", 1)
					if fi.ModTime().UnixNano() < now-int64(time.Hour)-guardNS {
						o.violate("C13", n+": mtime older than an hour right after GetBytes", "used-bound")
					}
				} else if len(data) > 0 || strings.HasSuffix(n, "-a") {
					o.violate("C05", "GetBytes succeeded but "+n+" does not exist", "getbytes-missing-file")
				}
			}
		}
		if spec, ok := valid[idx]; ok {
			if err != nil || !bytes.Equal(data, contentBytes(spec)) {
				o.violate("C05", "GetBytes after undamaged Put: "+res, "getbytes-after-put")
			}
		}
		emit(fmt.Sprintf("B:%d:%x", now, id), res)
	}
	for _, op := range cs.Ops {
		now := time.Now().UnixNano()
		switch op.K {
		case "P", "Q":
			id := cacheIDs[op.ID]
			data := contentBytes(op.Content)
			var err error
			res := "ok"
			if op.K == "P" {
				var out cache.OutputID
				var size int64
				out, size, err = w.c.Put(id, bytes.NewReader(data))
				res = fmt.Sprintf("ok:%x:%d", out, size)
				if err == nil && (out != sha256.Sum256(data) || size != int64(len(data))) {
					o.violate("C05", "Put returned a wrong OutputID or size", "put-result")
				}
			} else {
				err = w.c.PutBytes(id, data)
			}
			if err != nil {
				res = "err:" + err.Error()
			} else {
				// the time the implementation used is in the entry it wrote
				if b, e := os.ReadFile(filepath.Join(w.dir, relName(id, "a"))); e == nil && len(b) == 175 {
					if t, e := strconv.ParseInt(strings.TrimSpace(string(b[153:174])), 10, 64); e == nil {
						now = t
					}
				}
				valid[op.ID] = op.Content
				delete(lookedUp, op.ID)
			}
			emit(fmt.Sprintf("%s:%d:%x:%s", op.K, now, id, op.Content), res)
		case "G":
			id := cacheIDs[op.ID]
			e, err := w.c.Get(id)
			res := ""
			if err != nil {
				res = "nf:" + reasonOf(err)
			} else {
				res = "ok:" + showEntry(e)
				if fi, e := os.Stat(filepath.Join(w.dir, relName(id, "a"))); e == nil {
					o.checked("C13", 1)
					if fi.ModTime().UnixNano() < now-int64(time.Hour)-guardNS {
						o.violate("C13", "index file mtime older than an hour right after Get", "used-bound")
					}
				}
			}
			if spec, ok := valid[op.ID]; ok {
				o.checked("C05", 1)
				d := contentBytes(spec)
				if err != nil || e.OutputID != sha256.Sum256(d) || e.Size != int64(len(d)) {
					o.violate("C05", "Get after undamaged Put: "+res, "get-after-put")
				}
			}
			emit(fmt.Sprintf("G:%d:%x", now, id), res)
		case "F":
			id := cacheIDs[op.ID]
			file, e, err := w.c.GetFile(id)
			o.checked("C05", 1)
			res := ""
			if err != nil {
				res = "nf:" + reasonOf(err)
			} else {
				rel, _ := filepath.Rel(w.dir, file)
				res = "ok:" + filepath.ToSlash(rel) + ":" + showEntry(e)
				fi, serr := os.Stat(file)
				if serr != nil || fi.Size() != e.Size {
					o.violate("C05", "GetFile returned a file whose length differs from the reported size", "getfile-size")
				}
				if serr == nil && fi.ModTime().UnixNano() < now-int64(time.Hour)-guardNS {
					o.violate("C13", "data file mtime older than an hour right after GetFile", "used-bound")
				}
			}
			if spec, ok := valid[op.ID]; ok {
				var got []byte
				if err == nil {
					got, _ = os.ReadFile(file)
				}
				if err != nil || !bytes.Equal(got, contentBytes(spec)) {
					o.violate("C05", "GetFile after undamaged Put does not name a file holding the data: "+res, "getfile-after-put")
				}
			}
			emit(fmt.Sprintf("F:%d:%x", now, id), res)
		case "B":
			getBytes(op.ID)
		case "O":
			var out [32]byte
			if strings.HasPrefix(op.Out, "h") {
				copy(out[:], corr.Unhx(op.Out[1:]))
			} else {
				out = sha256.Sum256(contentBytes(op.Out))
			}
			file := w.c.OutputFile(out)
			rel, _ := filepath.Rel(w.dir, file)
			emit(fmt.Sprintf("O:%d:%x", now, out), filepath.ToSlash(rel))
		case "T":
			before := w.list()
			oldTrim, terr := os.ReadFile(filepath.Join(w.dir, "trim.txt"))
			t0 := time.Now().UnixNano()
			err := w.c.Trim()
			t1 := time.Now().UnixNano()
			res := "-"
			if err != nil {
				res = "err:" + err.Error()
			}
			now = t0
			after := w.list()
			newTrim, _ := os.ReadFile(filepath.Join(w.dir, "trim.txt"))
			if s, e := strconv.ParseInt(string(newTrim), 10, 64); e == nil && t0/1e9 != s && s*1e9 > t0 && s*1e9 <= t1 {
				now = s * 1e9 // the second ticked between our reading of the clock and Trim's
			}
			trimOracle(o, before, after, oldTrim, terr == nil, t0, t1)
			emit(fmt.Sprintf("T:%d", now), res)
			// an entry stored by a Put of this history (i.e. within the last five days) and not aged or damaged since
			// must survive the trim: index file and output file
			gone := map[string]bool{}
			for _, b := range before {
				gone[b.name] = true
			}
			for _, a := range after {
				delete(gone, a.name)
			}
			var vids []int
			for id := range valid {
				vids = append(vids, id)
			}
			sort.Ints(vids)
			for _, id := range vids {
				o.checked("C13", 1)
				an, dn := relName(cacheIDs[id], "a"), relName(sha256.Sum256(contentBytes(valid[id])), "d")
				switch {
				case gone[dn] && !gone[an]:
					o.violate("C13", fmt.Sprintf("Trim removed the output file %s of entry %d stored by a successful Put moments ago (the Put re-used the existing file without refreshing its mtime)", dn, id), "put-reuse-not-refreshed")
					delete(valid, id)
				case gone[dn] || gone[an]:
					o.violate("C13", fmt.Sprintf("Trim removed files of entry %d stored by a successful Put moments ago", id), "trim-removes-stored")
					delete(valid, id)
				}
			}
			// "looking an entry up refreshes it so that it survives the next trim": probe (the probes are operations of the history too)
			var idxs []int
			for idx := range lookedUp {
				idxs = append(idxs, idx)
			}
			sort.Ints(idxs)
			for _, idx := range idxs {
				l := lookedUp[idx]
				if now-l.at < 5*dayNS {
					o.checked("C13", 1)
					getBytes(idx)
					if l2, ok := lookedUp[idx]; !ok || !bytes.Equal(l2.data, l.data) {
						o.violate("C13", fmt.Sprintf("entry %d, looked up %v before Trim, cannot be retrieved afterwards", idx, time.Duration(now-l.at)), "lookup-survives")
					}
				}
			}
		case "w", "d", "m", "t", "x", "c":
			name := resolveName(op.Name)
			p := filepath.Join(w.dir, filepath.FromSlash(name))
			mt := now - op.AgeNS
			tm := time.Unix(0, mt)
			invalidateName(name)
			switch op.K {
			case "w":
				var data []byte
				spec := op.Content
				if op.Entry != nil {
					data = fakeEntry(op.Entry, now)
					spec = xspec(data)
				} else {
					data = contentBytes(spec)
				}
				os.MkdirAll(filepath.Dir(p), 0o777)
				if err := os.WriteFile(p, data, 0o666); err != nil {
					panic(err)
				}
				os.Chtimes(p, tm, tm)
				emit(fmt.Sprintf("w:%s:%s:%d", name, spec, mt), "-")
			case "d":
				os.Remove(p)
				emit("d:"+name, "-")
			case "m":
				os.Chtimes(p, tm, tm)
				emit(fmt.Sprintf("m:%s:%d", name, mt), "-")
			case "t":
				n := op.N
				if fi, err := os.Stat(p); err == nil {
					switch {
					case n < 0:
						n = max(0, int(fi.Size())+n)
					case n >= 1000000:
						n = int(fi.Size()) + n - 1000000
					}
					os.Truncate(p, int64(n))
					os.Chtimes(p, tm, tm)
				} else {
					n = 0
				}
				emit(fmt.Sprintf("t:%s:%d:%d", name, n, mt), "-")
			case "x":
				pos := 0
				if data, err := os.ReadFile(p); err == nil {
					pos = op.N
					if pos < 0 && len(data) > 0 {
						pos = (-pos) % len(data)
					}
					if pos >= 0 && pos < len(data) {
						data[pos] ^= 0x5a
					}
					os.WriteFile(p, data, 0o666)
					os.Chtimes(p, tm, tm)
				}
				emit(fmt.Sprintf("x:%s:%d:%d", name, max(pos, 0), mt), "-")
			case "c":
				src := resolveName(op.Src)
				invalidateName(name)
				if data, err := os.ReadFile(filepath.Join(w.dir, filepath.FromSlash(src))); err == nil {
					os.MkdirAll(filepath.Dir(p), 0o777)
					os.WriteFile(p, data, 0o666)
					os.Chtimes(p, tm, tm)
				}
				emit(fmt.Sprintf("c:%s:%s:%d", src, name, mt), "-")
			}
		default:
			panic("bad op " + op.K)
		}
	}
	er.listing = w.list()
	if len(ops) == 0 {
		er.line = "hist -"
	} else {
		er.line = "hist " + strings.Join(ops, ",")
	}
	return er
}

// isEntryPath is the statement's notion of "a cache entry file": a name ending in -a or -d directly inside
// one of the 256 two-hex-digit subdirectories.  Written independently of the model.
func isEntryPath(name string) bool {
	parts := strings.Split(name, "/")
	if len(parts) != 2 || len(parts[0]) != 2 {
		return false
	}
	for _, ch := range parts[0] {
		if !strings.ContainsRune("0123456789abcdef", ch) {
			return false
		}
	}
	return strings.HasSuffix(parts[1], "-a") || strings.HasSuffix(parts[1], "-d")
}

// trimOracle checks the set difference of one Trim call against the rule of the statement.
// [t0,t1] brackets the implementation's reading of the clock.
func trimOracle(o *oracle, before, after []lsEntry, oldTrim []byte, hadTrim bool, t0, t1 int64) {
	const day = dayNS
	const hour = hourNS
	o.checked("C13", 1)
	// due?  three-valued because of the guard band: 1 = must run, 0 = must not run, -1 = either
	due := 1
	if hadTrim {
		if t, err := strconv.ParseInt(strings.TrimSpace(string(oldTrim)), 10, 64); err == nil && t > -(1<<40) && t < 1<<40 {
			d0, d1 := t0-t*1e9, t1-t*1e9
			switch {
			case d0 > -hour+guardNS && d1 < day-guardNS:
				due = 0
			case d1 < -hour-guardNS || d0 > day+guardNS:
				due = 1
			default:
				due = -1
			}
		}
	}
	am, bm := map[string]lsEntry{}, map[string]lsEntry{}
	for _, a := range after {
		am[a.name] = a
	}
	for _, b := range before {
		bm[b.name] = b
	}
	for _, b := range before {
		a, kept := am[b.name]
		if b.name == "trim.txt" {
			continue
		}
		if kept && (a.sum != b.sum || a.size != b.size || a.mtime != b.mtime) {
			o.violate("C13", "Trim changed "+b.name, "trim-modifies")
		}
		age0, age1 := t0-b.mtime, t1-b.mtime
		switch {
		case !isEntryPath(b.name):
			if !kept {
				o.violate("C13", "Trim removed a file that is not a cache entry: "+b.name, "trim-frame")
			}
		case due == 0:
			if !kept {
				o.violate("C13", "Trim removed "+b.name+" although a trim completed less than a day ago", "trim-not-due")
			}
		case age1 <= 5*day+guardNS: // used within five days (the statement's bound; the code keeps one more hour)
			if !kept {
				o.violate("C13", fmt.Sprintf("Trim removed %s, last used %v ago", b.name, time.Duration(age0)), "trim-removes-recent")
			}
		case age0 > 5*day+hour+guardNS && due == 1:
			if kept {
				o.violate("C13", fmt.Sprintf("Trim kept %s, unused for %v", b.name, time.Duration(age0)), "trim-keeps-stale")
			}
		}
	}
	for _, a := range after {
		if _, ok := bm[a.name]; !ok && a.name != "trim.txt" {
			o.violate("C13", "Trim created "+a.name, "trim-creates")
		}
	}
	ra, okA := am["trim.txt"]
	rb, okB := bm["trim.txt"]
	switch {
	case due == 0 && (!okA || !okB || ra != rb):
		o.violate("C13", "Trim touched trim.txt although a trim completed less than a day ago", "trim-not-due")
	case due == 1:
		rec := int64(-1)
		if okA {
			for _, s := range []int64{t0 / 1e9, t1 / 1e9} {
				h := sha256.Sum256([]byte(strconv.FormatInt(s, 10)))
				if ra.sum == hex.EncodeToString(h[:]) {
					rec = s
				}
			}
		}
		if rec < 0 {
			o.violate("C13", "Trim was due but did not record the trim time in trim.txt", "trim-record")
		}
	}
}

// ---------------------------------------------------------------------------------------------
// comparison of one executed case with the model's answer

// compareCase returns a description of the first difference ("" = none) and the properties whose observable
// it is: results of Put and of the lookups, bytes, output ids, sizes → C05 (after a Trim in the same history
// also C13: the difference may be in what the trim left); the result of Trim, which files exist after a Trim,
// trim.txt and every mtime (the refresh rule of used) → C13; file contents and, without a Trim, the set of files → C05.
func compareCase(er *execResult, modelLine string) (string, []string) {
	c05, c13, both := []string{"C05"}, []string{"C13"}, []string{"C05", "C13"}
	parts := strings.SplitN(modelLine, "|", 2)
	if len(parts) != 2 {
		return "model: " + modelLine, nil
	}
	var mres []string
	if parts[0] != "" {
		mres = strings.Split(parts[0], ",")
	}
	if len(mres) != len(er.results) {
		return fmt.Sprintf("model answered %d results for %d operations", len(mres), len(er.results)), nil
	}
	// do model and implementation end with the same set of files?
	sameNames := func() bool {
		var mls []string
		if parts[1] != "" {
			mls = strings.Split(parts[1], ";")
		}
		if len(mls) != len(er.listing) {
			return false
		}
		for i, m := range mls {
			if strings.SplitN(m, ":", 2)[0] != er.listing[i].name {
				return false
			}
		}
		return true
	}
	hasT := false
	for i := range mres {
		if mres[i] != er.results[i] {
			d := fmt.Sprintf("op %d: impl %s, model %s", i, er.results[i], mres[i])
			switch {
			case er.kinds[i] == "T":
				return d, c13
			case strings.HasPrefix(mres[i], "nf:") == strings.HasPrefix(er.results[i], "nf:"):
				return d, c05 // both found or both not found: a Trim decides presence only
			case hasT && !sameNames():
				return d, c13 // a lookup after a Trim that left different files: the trim's doing
			case hasT:
				return d, both
			}
			return d, c05
		}
		if er.kinds[i] == "T" {
			hasT = true
		}
	}
	var mls []string
	if parts[1] != "" {
		mls = strings.Split(parts[1], ";")
	}
	setProps := c05
	if hasT {
		setProps = c13
	}
	if len(mls) != len(er.listing) {
		var in []string
		for _, l := range er.listing {
			in = append(in, l.name)
		}
		return fmt.Sprintf("listing: impl has %d files %v, model %d: %s", len(er.listing), in, len(mls), parts[1]), setProps
	}
	for i, m := range mls {
		f := strings.Split(m, ":")
		l := er.listing[i]
		if len(f) != 4 {
			return "model listing entry: " + m, nil
		}
		mt, _ := strconv.ParseInt(f[3], 10, 64)
		if f[0] != l.name {
			return fmt.Sprintf("listing: impl %s:%d:%s, model %s", l.name, l.size, l.sum, m), setProps
		}
		if f[1] != strconv.Itoa(l.size) || f[2] != l.sum {
			d := fmt.Sprintf("listing: impl %s:%d:%s, model %s", l.name, l.size, l.sum, m)
			if l.name == "trim.txt" {
				return d, c13
			}
			return d, c05
		}
		if d := mt - l.mtime; d > guardNS || d < -guardNS {
			return fmt.Sprintf("listing: mtime of %s: impl %d, model %d", l.name, l.mtime, mt), c13
		}
	}
	return "", nil
}

// ---------------------------------------------------------------------------------------------
// generators

const (
	hourNS = int64(time.Hour)
	dayNS  = 24 * hourNS
)

func genHistory(r *rand.Rand, contents []string, nIDs int, maxOps int) *acase {
	cs := &acase{Kind: "hist"}
	n := 1 + r.Intn(maxOps)
	pickC := func() string { return contents[r.Intn(len(contents))] }
	ages := []int64{0, 0, 0, 30 * int64(time.Minute), 2 * hourNS, 3 * dayNS, -2 * hourNS, 50 * int64(time.Minute), 70 * int64(time.Minute)}
	age := func() int64 { return ages[r.Intn(len(ages))] }
	target := func() string {
		if r.Intn(2) == 0 {
			return fmt.Sprintf("@a%d", r.Intn(nIDs))
		}
		return "@d" + pickC()
	}
	for len(cs.Ops) < n {
		switch k := r.Intn(100); {
		case k < 22:
			op := aop{K: "P", ID: r.Intn(nIDs), Content: pickC()}
			if r.Intn(3) == 0 {
				op.K = "Q"
			}
			cs.Ops = append(cs.Ops, op)
			if r.Intn(2) == 0 { // read back at once
				cs.Ops = append(cs.Ops, aop{K: []string{"B", "F"}[r.Intn(2)], ID: op.ID})
			}
		case k < 32:
			cs.Ops = append(cs.Ops, aop{K: "G", ID: r.Intn(nIDs)})
		case k < 46:
			cs.Ops = append(cs.Ops, aop{K: "B", ID: r.Intn(nIDs)})
		case k < 58:
			cs.Ops = append(cs.Ops, aop{K: "F", ID: r.Intn(nIDs)})
		case k < 62:
			op := aop{K: "O", Out: pickC()}
			if r.Intn(4) == 0 {
				h := sha256.Sum256([]byte{byte(r.Intn(4))})
				op.Out = "h" + hex.EncodeToString(h[:])
			}
			cs.Ops = append(cs.Ops, op)
		case k < 68: // truncate
			cs.Ops = append(cs.Ops, aop{K: "t", Name: target(), N: []int{0, 1, 2, 174, 100, -1, -2, 69999, 65536}[r.Intn(9)], AgeNS: age()})
		case k < 73: // extend
			cs.Ops = append(cs.Ops, aop{K: "t", Name: target(), N: 1000000 + []int{1, 2, 20, 5000}[r.Intn(4)], AgeNS: age()})
		case k < 79: // flip a byte
			cs.Ops = append(cs.Ops, aop{K: "x", Name: target(), N: -(1 + r.Intn(70000)), AgeNS: age()})
		case k < 84:
			cs.Ops = append(cs.Ops, aop{K: "d", Name: target()})
		case k < 89: // replace with another file of the same kind
			if r.Intn(2) == 0 {
				cs.Ops = append(cs.Ops, aop{K: "c", Src: fmt.Sprintf("@a%d", r.Intn(nIDs)), Name: fmt.Sprintf("@a%d", r.Intn(nIDs)), AgeNS: age()})
			} else {
				cs.Ops = append(cs.Ops, aop{K: "c", Src: "@d" + pickC(), Name: "@d" + pickC(), AgeNS: age()})
			}
		case k < 93: // arbitrary bytes
			b := make([]byte, r.Intn(201))
			for i := range b {
				b[i] = byte(r.Intn(256))
			}
			if r.Intn(3) == 0 {
				b = bytes.Repeat([]byte{' '}, len(b))
			}
			cs.Ops = append(cs.Ops, aop{K: "w", Name: target(), Content: xspec(b), AgeNS: age()})
		case k < 98: // a well-formed but possibly lying index entry
			f := &fake{ID: r.Intn(nIDs), Out: pickC(), AgeNS: []int64{0, hourNS, -hourNS, 400 * dayNS}[r.Intn(4)], Upper: r.Intn(3) == 0}
			f.DSize = []int64{0, 0, 0, 1, -1, 70000, 5}[r.Intn(7)]
			f.Sign = []string{"", "", "", "+", "-"}[r.Intn(5)]
			cs.Ops = append(cs.Ops, aop{K: "w", Name: fmt.Sprintf("@a%d", r.Intn(nIDs)), Entry: f, AgeNS: age()})
		default: // age a file
			cs.Ops = append(cs.Ops, aop{K: "m", Name: target(), AgeNS: age()})
		}
	}
	return cs
}

var foreignNames = []string{"README", "trim.txt.bak", "x-a", "y-d", "fuzz/corpus/seed-a", "fuzz/ab/abcd-a", "fuzz/x-d", "ab/x-a.tmp", "ab/README", "ab/foo-b", "ab/-a.", "ab/sub/nested-a", "cd/sub/deeper/z-d",
	"AB/upper-a", "abc/three-a", "g0/nothex-a", "a/one-d", "0/zero-a", "00x/long-d", "ab/data-D", "ab/index-A", "ef/a", "ef/d", "ef/-", "log.txt"}
var entryLikeNames = []string{"ab/-a", "ab/-d", "ab/x-a", "ab/zzzz-d", "00/q-a", "ff/q-d", "0a/--a", "a0/a-a", "a0/a-d", "7f/with_us-a", "7f/UPPER-d", "ab/.-a", "ab/x-a-a", "ab/x-a.tmp-d"}

func trimAges(r *rand.Rand) int64 {
	const s = int64(time.Second)
	base := []int64{0, 10 * s, hourNS - 10*s, hourNS + 10*s, dayNS, 4 * dayNS, 5*dayNS - 10*s, 5*dayNS + 10*s, 5*dayNS + hourNS - 10*s, 5*dayNS + hourNS - 60*s,
		5*dayNS + hourNS + 10*s, 5*dayNS + hourNS + 60*s, 5*dayNS + 2*hourNS, 6 * dayNS, 30 * dayNS, 400 * dayNS, 20000 * dayNS, -10 * s, -hourNS - 10*s, -3 * dayNS}
	return base[r.Intn(len(base))]
}

func genTrimCase(r *rand.Rand, contents []string, nIDs int) *acase {
	cs := &acase{Kind: "trim"}
	const s = int64(time.Second)
	// population
	nf := r.Intn(31)
	for i := 0; i < nf; i++ {
		switch k := r.Intn(10); {
		case k < 3: // a real entry
			id := r.Intn(nIDs)
			c := contents[r.Intn(len(contents))]
			cs.Ops = append(cs.Ops, aop{K: "P", ID: id, Content: c})
			if r.Intn(5) > 0 {
				cs.Ops = append(cs.Ops, aop{K: "m", Name: fmt.Sprintf("@a%d", id), AgeNS: trimAges(r)})
			}
			if r.Intn(5) > 0 {
				cs.Ops = append(cs.Ops, aop{K: "m", Name: "@d" + c, AgeNS: trimAges(r)})
			}
		case k < 6:
			cs.Ops = append(cs.Ops, aop{K: "w", Name: entryLikeNames[r.Intn(len(entryLikeNames))], Content: xspec([]byte("x")), AgeNS: trimAges(r)})
		default:
			cs.Ops = append(cs.Ops, aop{K: "w", Name: foreignNames[r.Intn(len(foreignNames))], Content: xspec([]byte("keep")), AgeNS: trimAges(r)})
		}
	}
	// now and then an output that is already there (possibly aged) is stored again, under the same or another id
	var stored []string
	for _, op := range cs.Ops {
		if op.K == "P" {
			stored = append(stored, op.Content)
		}
	}
	if len(stored) > 0 && r.Intn(3) == 0 {
		cs.Ops = append(cs.Ops, aop{K: []string{"P", "Q"}[r.Intn(2)], ID: r.Intn(nIDs), Content: stored[r.Intn(len(stored))]})
	}
	// the last-trim record
	switch r.Intn(16) {
	case 0: // missing
	case 1:
		cs.Ops = append(cs.Ops, aop{K: "w", Name: "trim.txt", Content: "x-", AgeNS: trimAges(r)})
	case 2:
		cs.Ops = append(cs.Ops, aop{K: "w", Name: "trim.txt", Content: xspec([]byte("  123\n")), AgeNS: trimAges(r)})
	case 3:
		g := []string{"garbage", "12a", "0x10", "1_000", "1e9", "١٢٣", "- 5", "+", "-", "1700000000 1700000000", "\x00"}
		cs.Ops = append(cs.Ops, aop{K: "w", Name: "trim.txt", Content: xspec([]byte(g[r.Intn(len(g))])), AgeNS: trimAges(r)})
	case 4:
		cs.Ops = append(cs.Ops, aop{K: "w", Name: "trim.txt", Content: xspec([]byte([]string{"-1700000000", "-1", "-9223372036854775808", "-0"}[r.Intn(4)])), AgeNS: trimAges(r)})
	case 5:
		cs.Ops = append(cs.Ops, aop{K: "w", Name: "trim.txt", Content: xspec([]byte([]string{"9223372036854775808", "99999999999999999999", "9223372036854775807", "9223372000000000000", "9223371974719179007", "9223371974719179008", "18446744073709551616"}[r.Intn(7)])), AgeNS: trimAges(r)})
	default:
		// a parseable record relative to now: recent, old, future by 59 / 61 minutes …
		d := []int64{0, 10 * s, hourNS, 23 * hourNS, dayNS - 10*s, dayNS + 10*s, 2 * dayNS, 400 * dayNS, -10 * s, -59 * 60 * s, -61 * 60 * s, -hourNS + 10*s, -hourNS - 10*s, -dayNS}[r.Intn(14)]
		pad := []string{"%d", "%d\n", " %d ", "\t%d\r\n", "+%d", "00%d", "\u0085%d\u00a0", "\u3000%d\u2003\n"}[r.Intn(8)]
		cs.Ops = append(cs.Ops, aop{K: "w", Name: "trim.txt", Content: "@rec" + pad, AgeNS: d})
	}
	// lookups before the trim
	nl := r.Intn(6)
	for i := 0; i < nl; i++ {
		id := r.Intn(nIDs)
		switch r.Intn(5) {
		case 0:
			cs.Ops = append(cs.Ops, aop{K: "G", ID: id})
		case 1, 2:
			cs.Ops = append(cs.Ops, aop{K: "B", ID: id})
		case 3:
			cs.Ops = append(cs.Ops, aop{K: "F", ID: id})
		case 4:
			cs.Ops = append(cs.Ops, aop{K: "O", Out: contents[r.Intn(len(contents))]})
		}
	}
	cs.Ops = append(cs.Ops, aop{K: "T"})
	if r.Intn(3) == 0 { // a second trim right away is never due
		cs.Ops = append(cs.Ops, aop{K: "T"})
	}
	if r.Intn(2) == 0 {
		cs.Ops = append(cs.Ops, aop{K: "B", ID: r.Intn(nIDs)})
	}
	return cs
}

// resolveRec turns the "@rec<format>" content of a trim record into a concrete one at execution time.
func resolveRecs(cs *acase) *acase {
	out := &acase{Kind: cs.Kind, Ops: append([]aop{}, cs.Ops...)}
	for i, op := range out.Ops {
		if strings.HasPrefix(op.Content, "@rec") {
			now := time.Now().UnixNano()
			sec := (now - op.AgeNS) / 1e9
			out.Ops[i].Content = xspec([]byte(fmt.Sprintf(op.Content[4:], sec)))
			out.Ops[i].AgeNS = 0
		}
	}
	return out
}

// ---------------------------------------------------------------------------------------------
// index-entry parsing cases (exhaustive single-byte edits, truncations, extensions, random)

func parseCases(r *rand.Rand, nRandom int) (ids [][32]byte, datas [][]byte) {
	id := cacheIDs[2]
	out := sha256.Sum256([]byte("out"))
	valid := []byte(fmt.Sprintf("v1 %x %x %20d %20d\n", id, out, 12345, int64(1700000000123456789)))
	add := func(b []byte) {
		ids = append(ids, id)
		datas = append(datas, append([]byte{}, b...))
	}
	add(valid)
	repl := []byte{' ', '0', '9', 'a', 'f', 'F', 'A', 'g', 'G', '-', '+', '\n', 0, 'v', '1', '_', 0xff, '/'}
	for pos := range valid {
		for _, c := range repl {
			if valid[pos] != c {
				b := append([]byte{}, valid...)
				b[pos] = c
				add(b)
			}
		}
	}
	for n := 0; n < len(valid); n++ {
		add(valid[:n])
	}
	for n := 1; n <= 12; n++ {
		add(append(append([]byte{}, valid...), bytes.Repeat([]byte{'\n'}, n)...))
		add(append(append([]byte{}, valid...), bytes.Repeat([]byte{0}, n)...))
		add(append(append([]byte{}, valid...), genBytes(n, n)...))
	}
	// numeric fields: signs, overflow, zeros, embedded and trailing spaces
	nums := []string{"0", "00000000000000000000", "+0", "-0", "+5", "-5", "9223372036854775807", "9223372036854775808", "+9223372036854775807", "-9223372036854775808", "-9223372036854775809",
		"18446744073709551615", "18446744073709551616", "99999999999999999999", "1 2", "12 ", "+", "-", "", "1_000", "0x10", "1e3", "١٢٣", "12a", "+-1", "--1", "+ 1", "0000000000000000001", "\t1"}
	for _, s := range nums {
		for _, field := range []int{0, 1} {
			f := [2]string{"12345", "1700000000123456789"}
			f[field] = s
			if len(s) > 20 {
				continue
			}
			add([]byte(fmt.Sprintf("v1 %x %x %20s %20s\n", id, out, f[0], f[1])))
			add([]byte(fmt.Sprintf("v1 %x %x %-20s %-20s\n", id, out, f[0], f[1])))
		}
	}
	// hex case, other ids
	add([]byte(fmt.Sprintf("v1 %X %x %20d %20d\n", id, out, 1, 1)))
	add([]byte(fmt.Sprintf("v1 %x %X %20d %20d\n", id, out, 1, 1)))
	add([]byte(fmt.Sprintf("v1 %X %X %20d %20d\n", id, out, 1, 1)))
	add([]byte(fmt.Sprintf("v1 %x %x %20d %20d\n", cacheIDs[0], out, 1, 1)))
	add([]byte(fmt.Sprintf("v1 %x %x %20d %20d\n", out, id, 1, 1)))
	add([]byte(fmt.Sprintf("v2 %x %x %20d %20d\n", id, out, 1, 1)))
	add([]byte(fmt.Sprintf("v1 %x %x %20d %20d\r", id, out, 1, 1)))
	for i := 0; i < nRandom; i++ {
		n := 170 + r.Intn(11)
		b := make([]byte, n)
		switch r.Intn(3) {
		case 0:
			for j := range b {
				b[j] = byte(r.Intn(256))
			}
		case 1: // valid with a few random edits
			b = append([]byte{}, valid...)
			for k := 0; k < 1+r.Intn(3); k++ {
				b[r.Intn(len(b))] = repl[r.Intn(len(repl))]
			}
		default: // right skeleton, random field contents
			alpha := []byte("0123456789abcdefABCDEF +-g")
			b = append([]byte{}, valid...)
			for j := range b {
				if valid[j] != ' ' && valid[j] != '\n' && j > 2 && r.Intn(4) == 0 {
					b[j] = alpha[r.Intn(len(alpha))]
				}
			}
		}
		add(b)
	}
	return
}

// ---------------------------------------------------------------------------------------------

func runCache(tier string, seed int64, model string, replay string) *corr.Result {
	res := corr.NewResult("cache", tier, seed)
	r := rand.New(rand.NewSource(seed))
	var mu sync.Mutex

	if strings.HasPrefix(replay, "clock ") {
		n := runClockLane(res, r, model, 0, strings.TrimPrefix(replay, "clock "))
		res.Evaluations, res.DistinctNontrivial = n, n
		res.Rule = "replay of one clock-controlled history"
		return res
	}
	quick := tier != "thorough"
	nHist, nTrim, nParseRandom, maxOps := 3000, 2000, 1500, 40
	contents := []string{"x-", "x41", "x4142", "g70000.3"}
	nIDs := 3
	if !quick {
		nHist, nTrim, nParseRandom = 100000, 40000, 30000
	}
	if os.Getenv("VERIF_SEARCH") != "" && quick {
		nHist, nTrim = 6000, 4000
	}

	// ---- cases
	var cases []*acase
	var replayParse [][2]string // (id hex, data hex)
	if strings.HasPrefix(replay, "parse ") {
		f := strings.Fields(replay)
		if len(f) == 3 {
			replayParse = append(replayParse, [2]string{f[1], f[2]})
		}
		nHist, nTrim = 0, 0
	} else if replay != "" {
		var cs acase
		if err := json.Unmarshal([]byte(replay), &cs); err != nil {
			res.Observations = append(res.Observations, "replay: cannot decode case: "+err.Error())
			res.Disagree("<replay>", "", err.Error())
			return res
		}
		cases = append(cases, &cs)
		nParseRandom = 0
	} else if len(replayParse) == 0 {
		// corpus: the scripted timeline of TestCacheTrim-like shape and two repair witnesses
		cases = append(cases,
			&acase{Kind: "hist", Ops: []aop{{K: "P", ID: 0, Content: "g70000.3"}, {K: "t", Name: "@dg70000.3", N: 100}, {K: "B", ID: 0}, {K: "F", ID: 0}, {K: "P", ID: 1, Content: "g70000.3"}, {K: "B", ID: 0}, {K: "F", ID: 0}}},
			&acase{Kind: "hist", Ops: []aop{{K: "P", ID: 0, Content: "x4142"}, {K: "x", Name: "@dx4142", N: 1}, {K: "B", ID: 0}, {K: "F", ID: 0}, {K: "Q", ID: 0, Content: "x4142"}, {K: "B", ID: 0}}},
			&acase{Kind: "hist", Ops: []aop{{K: "P", ID: 0, Content: "x41"}, {K: "t", Name: "@dx41", N: 1000020}, {K: "F", ID: 0}, {K: "P", ID: 2, Content: "x41"}, {K: "F", ID: 0}, {K: "B", ID: 2}}},
			&acase{Kind: "trim", Ops: []aop{{K: "P", ID: 0, Content: "x41"}, {K: "m", Name: "@a0", AgeNS: 6 * dayNS}, {K: "m", Name: "@dx41", AgeNS: 6 * dayNS}, {K: "B", ID: 0}, {K: "T"}, {K: "B", ID: 0}}},
			&acase{Kind: "trim", Ops: []aop{{K: "P", ID: 0, Content: "x41"}, {K: "m", Name: "@a0", AgeNS: 6 * dayNS}, {K: "m", Name: "@dx41", AgeNS: 6 * dayNS}, {K: "T"}, {K: "B", ID: 0}}},
			// regression (fixed in /repo e29dd81): a Put that re-uses a six-day-old output file must refresh it, or the trim removes what was just stored
			&acase{Kind: "trim", Ops: []aop{{K: "Q", ID: 0, Content: "x68656c6c6f"}, {K: "m", Name: "@a0", AgeNS: 6 * dayNS}, {K: "m", Name: "@dx68656c6c6f", AgeNS: 6 * dayNS}, {K: "Q", ID: 1, Content: "x68656c6c6f"}, {K: "T"}, {K: "B", ID: 1}, {K: "F", ID: 1}}},
			&acase{Kind: "trim", Ops: []aop{{K: "P", ID: 0, Content: "x-"}, {K: "m", Name: "@dx-", AgeNS: 400 * dayNS}, {K: "P", ID: 2, Content: "x-"}, {K: "T"}, {K: "F", ID: 2}, {K: "B", ID: 2}}},
		)
		for i := 0; i < nHist; i++ {
			cs, ni := contents, nIDs
			if !quick && i%2 == 1 {
				cs, ni = []string{"x-", "x41", "x4142", "g70000.3", "g63.4", "g64.5", "g65.6", "g4096.8", "g32769.7", "g1.9"}, 5
			}
			cases = append(cases, genHistory(r, cs, ni, maxOps))
		}
		for i := 0; i < nTrim; i++ {
			cases = append(cases, genTrimCase(r, []string{"x-", "x41", "g300.2"}, nIDs))
		}
	}

	// ---- run the implementation (parallel workers, each in its own temporary cache directory)
	nw := runtime.NumCPU()
	if nw > len(cases) {
		nw = len(cases)
	}
	execs := make([]execResult, len(cases))
	var wg sync.WaitGroup
	var werr error
	next := make(chan int, len(cases))
	for i := range cases {
		next <- i
	}
	close(next)
	for k := 0; k < nw; k++ {
		wg.Add(1)
		go func() {
			defer wg.Done()
			w, err := newWorker()
			if err != nil {
				mu.Lock()
				werr = err
				mu.Unlock()
				return
			}
			defer w.close()
			for i := range next {
				js, _ := json.Marshal(cases[i])
				o := &oracle{res: res, mu: &mu, input: string(js)}
				execs[i] = w.exec(resolveRecs(cases[i]), o)
			}
		}()
	}
	wg.Wait()
	if werr != nil {
		res.Observations = append(res.Observations, "cannot create a cache directory: "+werr.Error())
		res.Disagree("<setup>", "", werr.Error())
		return res
	}

	// ---- index parsing and digest cases on the implementation
	var lines []string
	var impl []string
	var inputs []string
	if nParseRandom > 0 {
		w, err := newWorker()
		if err != nil {
			res.Disagree("<setup>", "", err.Error())
			return res
		}
		pids, pdatas := parseCases(r, nParseRandom)
		if len(replayParse) > 0 {
			var id [32]byte
			copy(id[:], corr.Unhx(replayParse[0][0]))
			pids, pdatas = [][32]byte{id}, [][]byte{corr.Unhx(replayParse[0][1])}
		}
		seen := map[string]bool{}
		for i := range pids {
			if seen[string(pdatas[i])] {
				continue
			}
			seen[string(pdatas[i])] = true
			p := filepath.Join(w.dir, relName(pids[i], "a"))
			if err := os.WriteFile(p, pdatas[i], 0o666); err != nil {
				panic(err)
			}
			out := ""
			func() {
				defer func() {
					if rec := recover(); rec != nil {
						out = "PANIC"
						res.Violate("C05", fmt.Sprintf("parse %x %s", pids[i], corr.Hx(pdatas[i])), fmt.Sprintf("Get panics: %v", rec), "panic")
					}
				}()
				e, err := w.c.Get(pids[i])
				if err != nil {
					out = "nf:" + reasonOf(err)
				} else {
					out = "ok:" + showEntry(e)
				}
			}()
			res.OracleChecked["C05"]++
			lines = append(lines, fmt.Sprintf("parse %x %s", pids[i], corr.Hx(pdatas[i])))
			impl = append(impl, out)
			inputs = append(inputs, "")
			res.Distribution["parse:"+strings.SplitN(out, ":", 3)[0]+":"+strings.SplitN(strings.TrimPrefix(out, "nf:"), ":", 2)[0]]++
		}
		w.close()
		res.Exhaustive = true
		res.Extra["exhaustive_spaces"] = []string{"every single-byte replacement of a valid 175-byte index entry by each of 18 bytes at every position", "every proper prefix of a valid entry", "extensions of a valid entry by 1..12 bytes (three paddings)"}
		for _, n := range []int{0, 1, 2, 3, 54, 55, 56, 57, 62, 63, 64, 65, 118, 119, 120, 121, 127, 128, 129, 183, 184, 191, 192, 255, 256, 257, 1000, 4095, 4096, 70000} {
			spec := fmt.Sprintf("g%d.%d", n, n%7)
			s := sha256.Sum256(contentBytes(spec))
			lines = append(lines, "sha "+spec)
			impl = append(impl, hex.EncodeToString(s[:]))
			inputs = append(inputs, "")
		}
	}
	nFixed := len(lines)
	for i := range cases {
		if execs[i].line == "" {
			continue // the implementation panicked: reported as a violation
		}
		lines = append(lines, execs[i].line)
		impl = append(impl, "")
		js, _ := json.Marshal(cases[i])
		inputs = append(inputs, string(js))
	}

	// ---- the model
	modelOut, err := mdl.Run(model, nil, lines, 0)
	if err != nil {
		res.Observations = append(res.Observations, "model driver error: "+err.Error())
		res.Disagree("<driver>", "", err.Error())
		return res
	}
	for i := 0; i < nFixed; i++ {
		if impl[i] != modelOut[i] {
			res.DisagreeFor([]string{"C05"}, lines[i], impl[i], modelOut[i]) // index parsing, digests
		}
	}
	j := nFixed
	nontrivial := map[string]bool{}
	for i := range cases {
		if execs[i].line == "" {
			continue
		}
		if d, props := compareCase(&execs[i], modelOut[j]); d != "" {
			res.DisagreeFor(props, inputs[j]+"  ⇒  "+execs[i].line, d, modelOut[j])
		}
		// statistics and the non-triviality rule
		damaged, lookedAfter, removed, hasT := false, false, 0, false
		for k, op := range strings.Split(strings.TrimPrefix(execs[i].line, "hist "), ",") {
			kind := op[:1]
			res.Distribution["op:"+kind]++
			if k < len(execs[i].results) {
				rs := execs[i].results[k]
				if strings.Contains("GFB", kind) {
					key := "ok"
					if strings.HasPrefix(rs, "nf:") {
						key = rs
					}
					res.Distribution["lookup:"+kind+":"+key]++
					if damaged {
						lookedAfter = true
					}
				}
			}
			if strings.Contains("wdmtxc", kind) {
				damaged = true
			}
			if kind == "T" {
				hasT = true
			}
		}
		if cases[i].Kind == "trim" {
			// count what the model/implementation agree was removed: files written that are gone
			names := map[string]bool{}
			for _, l := range execs[i].listing {
				names[l.name] = true
			}
			for _, op := range cases[i].Ops {
				if op.K == "w" && op.Name != "trim.txt" && !names[resolveName(op.Name)] {
					removed++
				}
			}
			res.Distribution[fmt.Sprintf("trim:removed=%d", min(removed, 5))]++
		}
		if (cases[i].Kind == "hist" && damaged && lookedAfter) || (cases[i].Kind == "trim" && hasT && len(cases[i].Ops) > 2) {
			nontrivial[inputs[j]] = true
		}
		j++
	}
	res.Evaluations = len(lines)
	res.DistinctNontrivial = len(nontrivial) + nFixed
	res.Rule = "distinct histories containing at least one on-disk damage operation followed by a lookup, distinct trim cases with a non-empty population, and distinct index-entry byte strings / digest inputs; every operation's result (ok / not-found reason, bytes, OutputID, size, entry time) and the final directory listing (names, lengths, SHA-256 of contents, mtimes within 2 s) are compared between the real package in a temporary directory and the Lean model"
	for _, i := range []int{0, nFixed / 2, nFixed, nFixed + 5, len(lines) - 1} {
		if i >= 0 && i < len(lines) {
			l, m := lines[i], modelOut[i]
			if len(l) > 600 {
				l = l[:600] + "…"
			}
			if len(m) > 600 {
				m = m[:600] + "…"
			}
			res.Samples = append(res.Samples, map[string]string{"case": l, "model": m})
		}
	}
	if replay == "" {
		nClock := 600
		if !quick {
			nClock = 20000
		}
		n := runClockLane(res, r, model, nClock, "")
		res.Evaluations += n
		res.DistinctNontrivial += n
		res.Rule += "; plus clock-controlled histories (scratch copy of the package with an exported SetNow, same virtual time for model and implementation): exact comparison of results, files and mtimes at every time boundary (±1 ns), and the statement's rules evaluated on virtual time"
	}
	res.Extra["generator"] = fmt.Sprintf("%d histories (≤%d ops, %d ids × contents %v), %d trim cases, %d index-entry strings + digests", nHist, maxOps, nIDs, contents, nTrim, nFixed)
	return res
}
