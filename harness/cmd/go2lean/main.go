// go2lean prints the Lean translation of selected functions of a Go file (debugging aid for
// harness/internal/go2lean; the check runs the translator through the groups' factgen).
package main

import (
	"fmt"
	"go/parser"
	"go/token"
	"os"
	"strings"

	"verif/harness/internal/go2lean"
)

func main() {
	if len(os.Args) < 4 {
		fmt.Fprintln(os.Stderr, "usage: go2lean <preset> <file.go> <func,func,...>")
		os.Exit(2)
	}
	fset := token.NewFileSet()
	f, err := parser.ParseFile(fset, os.Args[2], nil, 0)
	if err != nil {
		fmt.Fprintln(os.Stderr, err)
		os.Exit(1)
	}
	cfg := go2lean.Presets[os.Args[1]]
	if cfg == nil {
		fmt.Fprintln(os.Stderr, "unknown preset")
		os.Exit(2)
	}
	sd, err := go2lean.StructDefs(fset, f, cfg)
	if err != nil {
		fmt.Fprintln(os.Stderr, "structs:", err)
		os.Exit(1)
	}
	fmt.Print(sd)
	text, err := go2lean.Translate(fset, f, strings.Split(os.Args[3], ","), cfg)
	if err != nil {
		fmt.Fprintln(os.Stderr, "translation failed:", err)
		os.Exit(1)
	}
	fmt.Print(text)
}
