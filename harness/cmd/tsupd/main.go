// tsupd: factgen only — regenerates lean/GIV/Gen/TsRunUpdate.lean (property C16); the
// correspondence run of C16 lives in cmd/tsrun (shared with C01).
package main

import (
	"fmt"
	"os"

	"verif/harness/internal/fact"
)

func main() {
	if len(os.Args) >= 2 && os.Args[1] == "factgen" {
		fact.Main(os.Args[2:], "tsupd", "TsRunUpdate", genTsUpd)
		return
	}
	fmt.Fprintln(os.Stderr, "usage: tsupd factgen [flags]")
	os.Exit(2)
}
