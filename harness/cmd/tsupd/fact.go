package main

import (
	"go/ast"
	"strings"

	"verif/harness/internal/fact"
)

// genTsUpd extracts the deciding expressions of Params.UpdateScripts (property C16):
// doCmdCmp's update branch and applyScriptUpdates.  Kept apart from the script-loop facts
// (cmd/tsrun, property C01) so that a change to one cannot disturb the other's obligations.
func genTsUpd(g *fact.Gen) {
	const ts = "testscript/testscript.go"
	const cmd = "testscript/cmd.go"

	shape := func(name, doc string, pinned bool, f func() (bool, bool, string)) { g.EmitBool(name, doc, pinned, f) }
	ordered := func(src string, needles ...string) bool {
		pos := 0
		for _, n := range needles {
			i := strings.Index(src[pos:], n)
			if i < 0 {
				return false
			}
			pos += i + len(n)
		}
		return true
	}
	body := func(fd *ast.FuncDecl) string {
		if fd == nil || fd.Body == nil {
			return ""
		}
		return g.Src(fd.Body)
	}
	present := func(fd *ast.FuncDecl, fname string, needles ...string) func() (bool, bool, string) {
		return func() (bool, bool, string) {
			if fd == nil {
				return false, false, "func " + fname + " not found"
			}
			if ordered(body(fd), needles...) {
				return true, true, ""
			}
			return false, true, ""
		}
	}
	run := g.Method(ts, "TestScript", "run")

	// ---- doCmdCmp
	dc := g.Method(cmd, "TestScript", "doCmdCmp")
	dcSrc := body(dc)
	shape("updateCondFlagAndNotEnv", "doCmdCmp: the update test is `ts.params.UpdateScripts && !env`.", true, func() (bool, bool, string) {
		if dc == nil {
			return false, false, "func doCmdCmp not found"
		}
		if !strings.Contains(dcSrc, "ts.params.UpdateScripts") {
			return false, false, "no UpdateScripts test in doCmdCmp"
		}
		return strings.Contains(dcSrc, "ifts.params.UpdateScripts&&!env{"), true, ""
	})
	shape("updateAfterNegAndEq", "doCmdCmp: the `if neg { … return }` and `if eq { return }` statements precede the update test.", true, func() (bool, bool, string) {
		if dc == nil {
			return false, false, "func doCmdCmp not found"
		}
		return ordered(dcSrc, "eq:=text1==text2", "ifneg{ifeq{ts.Fatalf(", "}return}ifeq{return}", "ifts.params.UpdateScripts"), true, ""
	})
	shape("updateKeyIsAbsName2", "doCmdCmp: the entry is looked up as `ts.scriptFiles[absName2]`, `absName2 := ts.MkAbs(name2)`.", true,
		present(dc, "doCmdCmp", "name1,name2:=args[0],args[1]", "absName2:=ts.MkAbs(name2)", "ifscriptFile,ok:=ts.scriptFiles[absName2];ok{"))
	shape("updateStoresText1", "doCmdCmp: `ts.scriptUpdates[scriptFile] = text1` followed by `return`.", true,
		present(dc, "doCmdCmp", "text1:=ts.ReadFile(name1)", "ts.scriptUpdates[scriptFile]=text1return"))

	// ---- applyScriptUpdates
	runSrc := body(run)
	shape("applyDeferredAfterSetup", "run: `defer ts.applyScriptUpdates()` is registered after `ts.setup()`.", true, func() (bool, bool, string) {
		if run == nil {
			return false, false, "func run not found"
		}
		if !strings.Contains(runSrc, "deferts.applyScriptUpdates()") {
			return false, false, "applyScriptUpdates is not deferred in run"
		}
		return ordered(runSrc, "script:=ts.setup()", "deferts.applyScriptUpdates()"), true, ""
	})
	au := g.Method(ts, "TestScript", "applyScriptUpdates")
	shape("applyNoopWhenEmpty", "applyScriptUpdates returns at once when `len(ts.scriptUpdates) == 0`.", true, func() (bool, bool, string) {
		if au == nil || len(au.Body.List) == 0 {
			return false, false, "func applyScriptUpdates not found"
		}
		return g.Src(au.Body.List[0]) == "iflen(ts.scriptUpdates)==0{return}", true, ""
	})
	shape("applyQuotesWhenNeeded", "applyScriptUpdates: `if txtar.NeedsQuote(data) { data1, err := txtar.Quote(data); if err != nil { ts.Fatalf … } data = data1 }`.", true,
		present(au, "applyScriptUpdates", "data:=[]byte(content)iftxtar.NeedsQuote(data){data1,err:=txtar.Quote(data)iferr!=nil{ts.Fatalf(", "}data=data1}f.Data=data"))
	shape("updateFatalCaught", "applyScriptUpdates protects its Fatalf with a deferred catchFailNow (false: the failNow panic escapes).", true, func() (bool, bool, string) {
		if au == nil {
			return false, false, "func applyScriptUpdates not found"
		}
		for _, st := range au.Body.List {
			if _, isFor := st.(*ast.RangeStmt); isFor {
				break
			}
			if d, ok := st.(*ast.DeferStmt); ok && g.Src(d) == "defercatchFailNow(func(){ts.t.FailNow()})" {
				return true, true, ""
			}
		}
		return false, true, ""
	})
	shape("applyWritesFormat", "applyScriptUpdates writes `txtar.Format(ts.archive)` to ts.file.", true,
		present(au, "applyScriptUpdates", "os.WriteFile(ts.file,txtar.Format(ts.archive),"))
}
