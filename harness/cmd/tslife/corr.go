package main

// tslife correspondence + oracle pass (C04: isolation and cleanup, C17: deadline).
//
// C04: batches of 4–16 generated scripts, each batch run by ONE testscript.RunT call in a worker
// process of its own (private GOTMPDIR / TMPDIR, host probe variables), subtests in parallel
// goroutines released together.  Every script's observations (probes: cwd, variables, tree; helper
// reports: cwd + whole environment; order of deferred callbacks and which helpers were alive then;
// helpers alive and tree at the log flush; verdict) are compared with the Lean model's SOLO
// prediction for that script; model-independent oracles check what is left behind.
// C17: batches with Params.Deadline = now + D whose scripts block in a foreground helper that exits
// on the interrupt / ignores it / has Go's default disposition / exits early / exits at about the
// moment the context fires; timing is checked against the model's plan with wide guard bands and
// the coarse outcome must be one of the model's executions for the scenario class.

import (
	"bytes"
	"encoding/json"
	"fmt"
	"os"
	"os/exec"
	"path"
	"path/filepath"
	"runtime"
	"sort"
	"strconv"
	"strings"
	"sync"
	"syscall"
	"time"

	"verif/harness/internal/corr"
	"verif/harness/internal/mdl"
)

const (
	guardEarlyMs = 30   // nothing may happen earlier than planned (timers do not fire early)
	guardLateMs  = 1500 // scheduling slack on a loaded machine
)

type job struct {
	id     string // replayable case id: iso:<seed>:<index> | dl:<seed>:<D>:<variant>
	iso    *isoBatch
	spec   *batchSpec
	obs    *batchObs
	err    string
	dir    string
	after  afterObs
	unpriv bool   // run the worker as uid 65534 (only when the harness itself runs as root)
	bin    string // worker binary: this program, or the instrumented scratch build
}

// afterObs: what the parent finds after the worker process has gone.
type afterObs struct {
	GotmpEntries []string
	RootEntries  []string // entries of the retained root (TestWork / WorkdirRoot)
	Retained     map[string][]string
	AlivePids    []int
}

var (
	unprivOnce sync.Once
	unprivYes  bool
)

// unprivOK: the harness runs as root AND uid 65534 can execute this binary (it cannot when the
// framework is checked out below a directory such as /root that other users may not traverse);
// otherwise the batches that would run unprivileged run as the current user.
func unprivOK() bool {
	unprivOnce.Do(func() {
		if os.Getuid() != 0 {
			return
		}
		cmd := exec.Command(selfPath(), "unpriv-probe")
		cmd.SysProcAttr = &syscall.SysProcAttr{Credential: &syscall.Credential{Uid: 65534, Gid: 65534}}
		if err := cmd.Start(); err == nil {
			cmd.Wait()
			unprivYes = true
		}
	})
	return unprivYes
}

func selfPath() string {
	p, err := os.Executable()
	if err != nil {
		return os.Args[0]
	}
	return p
}

// runWorker materialises the batch under dir, runs `tslife worker` on it and inspects the leftovers.
func runWorker(j *job, top string) {
	dir, err := os.MkdirTemp(top, "b")
	if err != nil {
		j.err = err.Error()
		return
	}
	j.dir = dir
	sp := j.spec
	sp.Dir = dir
	gotmp := filepath.Join(dir, "gotmp")
	os.MkdirAll(gotmp, 0o777)
	os.MkdirAll(filepath.Join(dir, "bin"), 0o777)
	if err := os.Symlink(selfPath(), filepath.Join(dir, "bin", "vh")); err != nil {
		j.err = err.Error()
		return
	}
	for i := range sp.Scripts {
		s := &sp.Scripts[i]
		p := filepath.Join(dir, s.File)
		os.MkdirAll(filepath.Dir(p), 0o777)
		text := s.text()
		if sp.Mode == "deadline" {
			text = s.rawText()
		}
		if err := os.WriteFile(p, text, 0o666); err != nil {
			j.err = err.Error()
			return
		}
	}
	env := []string{"PATH=" + os.Getenv("PATH"), "HOME=" + filepath.Join(dir, "home"), "USER=hostuser", "VH_HOST_SECRET=leak-" + filepath.Base(dir), "LANG=C"}
	// the root is made in $GOTMPDIR, or in os.TempDir() = $TMPDIR when GOTMPDIR is unset
	if j.iso != nil && len(sp.Scripts)%2 == 1 {
		env = append(env, "TMPDIR="+gotmp)
	} else {
		env = append(env, "GOTMPDIR="+gotmp, "TMPDIR="+filepath.Join(dir, "unused-tmp"))
	}
	if j.iso != nil && j.iso.passGOCOV {
		os.MkdirAll(filepath.Join(dir, "cov"), 0o777)
		env = append(env, "GOCOVERDIR="+filepath.Join(dir, "cov"))
	}
	if j.iso != nil && j.iso.passGORACE {
		env = append(env, "GORACE=atexit_sleep_ms=0")
	}
	if j.iso != nil && !j.iso.passGORACE && len(sp.Scripts)%3 == 0 {
		env = append(env, "GORACE=") // set but empty: must not be passed through
	}
	in, _ := json.Marshal(sp)
	if j.bin == "" {
		j.bin = selfPath()
	}
	cmd := exec.Command(j.bin, "worker")
	cmd.Env = env
	cmd.Dir = dir
	if j.unpriv {
		// run the whole batch as an unprivileged user: read-only directories then really are an
		// obstacle for os.RemoveAll, which removeAll's chmod walk has to overcome
		filepath.Walk(dir, func(p string, info os.FileInfo, err error) error {
			if err == nil {
				os.Lchown(p, 65534, 65534)
			}
			return nil
		})
		os.Chmod(top, 0o755)
		cmd.SysProcAttr = &syscall.SysProcAttr{Credential: &syscall.Credential{Uid: 65534, Gid: 65534}}
	}
	cmd.Stdin = bytes.NewReader(in)
	var stdout, stderr bytes.Buffer
	cmd.Stdout, cmd.Stderr = &stdout, &stderr
	done := make(chan error, 1)
	if err := cmd.Start(); err != nil {
		j.err = err.Error()
		return
	}
	go func() { done <- cmd.Wait() }()
	select {
	case err := <-done:
		if err != nil {
			j.err = fmt.Sprintf("worker: %v: %s", err, tail(stderr.String(), 2000))
			return
		}
	case <-time.After(120 * time.Second):
		cmd.Process.Kill()
		<-done
		j.err = "worker timed out after 120s (a script or RunT hangs): " + tail(stderr.String(), 2000)
		return
	}
	var obs batchObs
	if err := json.Unmarshal(stdout.Bytes(), &obs); err != nil {
		j.err = "worker output unreadable: " + err.Error() + ": " + tail(stderr.String(), 1000)
		return
	}
	j.obs = &obs

	// ---- leftovers
	ents, _ := os.ReadDir(gotmp)
	for _, e := range ents {
		j.after.GotmpEntries = append(j.after.GotmpEntries, e.Name())
	}
	j.after.Retained = map[string][]string{}
	if sp.TestWork || sp.WorkdirRoot {
		root := obs.Root
		ents, _ := os.ReadDir(root)
		for _, e := range ents {
			j.after.RootEntries = append(j.after.RootEntries, e.Name())
			tree, _ := relTree(filepath.Join(root, e.Name()))
			j.after.Retained[e.Name()] = tree
		}
	}
	// every helper pid must be gone (not merely a zombie of somebody): poll generously
	var pids []int
	for _, s := range obs.Scripts {
		for _, h := range s.Helpers {
			pids = append(pids, h.Pid)
		}
	}
	deadline := time.Now().Add(10 * time.Second)
	for {
		var alive []int
		for _, p := range pids {
			if pidRunning(p) {
				alive = append(alive, p)
			}
		}
		j.after.AlivePids = alive
		if len(alive) == 0 || time.Now().After(deadline) {
			break
		}
		time.Sleep(20 * time.Millisecond)
	}
	for _, p := range j.after.AlivePids {
		if proc, err := os.FindProcess(p); err == nil {
			proc.Kill()
		}
	}
}

func tail(s string, n int) string {
	if len(s) > n {
		return s[len(s)-n:]
	}
	return s
}

func cleanupJob(j *job) {
	if j.dir == "" {
		return
	}
	// read-only directories left by TestWork runs
	filepath.Walk(j.dir, func(p string, info os.FileInfo, err error) error {
		if err == nil && info.IsDir() {
			os.Chmod(p, 0o777)
		}
		return nil
	})
	os.RemoveAll(j.dir)
}

// ---------------------------------------------------------------- C04: model request and observed line

func relTo(workdir, p string) string {
	r, err := filepath.Rel(workdir, p)
	if err != nil {
		return "?" + p
	}
	return filepath.ToSlash(r)
}

func (j *job) setupEnvFor(name string) [][2]string {
	var hostPath string
	for _, kv := range j.obs.HostEnv {
		if kv[0] == "PATH" {
			hostPath = kv[1]
		}
	}
	e := [][2]string{{"PATH", filepath.Join(j.spec.Dir, "bin") + ":" + hostPath}, {"VH_LOG", filepath.Join(j.spec.Dir, "vh.log")}, {"VH_SCRIPT", name}}
	return append(e, j.spec.SetupEnv...)
}

func b01(b bool) string {
	if b {
		return "1"
	}
	return "0"
}

func (j *job) modelRequest(i int, so *scriptObs) string {
	sp := &j.spec.Scripts[i]
	keys := make([]string, len(j.spec.ProbeKeys))
	for k, v := range j.spec.ProbeKeys {
		keys[k] = hx(v)
	}
	return strings.Join([]string{"script", b01(j.spec.ContinueOnError) + b01(j.spec.UniqueNames) + b01(j.spec.Verbose),
		hx(j.obs.Root), hx(so.Name), encEnv(j.obs.HostEnv), encEnv(j.setupEnvFor(so.Name)), encInts(sp.SetupDefers, ","),
		strings.Join(keys, ","), encFiles(sp.Files), encOps(sp.Ops)}, " ")
}

func joinOr(l []string, sep string) string {
	if len(l) == 0 {
		return "-"
	}
	return strings.Join(l, sep)
}

// reconcileDeferred: the model gives, per deferred call, the `sig` helpers certainly running and
// those interrupted but not yet waited for (which exit by themselves at some moment). The observed
// alive set is accepted — and replaced by the model's token — when certain ⊆ observed ⊆ certain ∪ maybe.
func reconcileDeferred(observed []string, modelLine string) []string {
	var mtoks []string
	for _, f := range strings.Split(modelLine, " ") {
		if strings.HasPrefix(f, "D=") && f != "D=-" {
			mtoks = strings.Split(f[2:], ",")
		}
	}
	set := func(s string) map[string]bool {
		m := map[string]bool{}
		if s != "-" && s != "" {
			for _, x := range strings.Split(s, ".") {
				m[x] = true
			}
		}
		return m
	}
	out := append([]string{}, observed...)
	for k := range out {
		if k >= len(mtoks) {
			break
		}
		o := strings.SplitN(out[k], "@", 2)
		m := strings.SplitN(mtoks[k], "@", 2)
		if len(o) != 2 || len(m) != 2 || o[0] != m[0] {
			continue
		}
		dm := strings.SplitN(m[1], "/", 2)
		if len(dm) != 2 {
			continue
		}
		certain, maybe, obs := set(dm[0]), set(dm[1]), set(o[1])
		ok := true
		for x := range certain {
			if !obs[x] {
				ok = false
			}
		}
		for x := range obs {
			if !certain[x] && !maybe[x] {
				ok = false
			}
		}
		if ok {
			out[k] = mtoks[k]
		}
	}
	return out
}

func (j *job) observedLine(so *scriptObs, modelLine string) string {
	wd := filepath.Join(j.obs.Root, "script-"+so.Name)
	ds := append([]deferObs{}, so.Deferred...)
	sort.Slice(ds, func(a, b int) bool { return ds[a].Seq < ds[b].Seq })
	var dv []string
	flushLast := so.LogCalls == 1
	for _, d := range ds {
		dv = append(dv, strconv.Itoa(d.ID)+"@"+encInts(d.Alive, "."))
		if so.LogSeq != 0 && d.Seq > so.LogSeq {
			flushLast = false
		}
	}
	dv = reconcileDeferred(dv, modelLine)
	var probes []string
	for _, p := range so.Probes {
		vals := make([]string, len(p.Vals))
		for k, v := range p.Vals {
			vals[k] = hx(v)
		}
		probes = append(probes, encPath(p.Cwd)+"|"+joinOr(vals, ",")+"|"+joinOr(p.Tree, ","))
	}
	var reports []string
	for _, r := range so.Reports {
		reports = append(reports, encPath(relTo(wd, r.Cwd))+"|"+encEffEnv(r.Env))
	}
	return "V=" + so.Verdict + " D=" + joinOr(dv, ",") + " G=" + encInts(so.Registered, ".") + " N=" + strconv.Itoa(len(so.Helpers)) +
		" U=" + encInts(so.FlushAlive, ".") + " L=" + b01(flushLast) + " P=" + joinOr(probes, ";") + " R=" + joinOr(reports, ";") +
		" F=" + joinOr(so.FlushTree, ",")
}

// isoOracle: the model-independent part of C04.
// expectedUnpack: the tree ("<path>=d" / "<path>=f<hex data>", sorted) that unpacking the entries into an
// empty work directory must give; ok=false when the entries conflict (a path that is both file and
// directory, a duplicate under RequireUniqueNames, names that leave the directory) — not judged then.
func expectedUnpack(files []fileSpec, unique bool) ([]string, bool) {
	data := map[string]string{}
	dirs := map[string]bool{".tmp": true}
	for _, f := range files {
		if f.Name == "" || strings.HasPrefix(f.Name, "/") || strings.Contains(f.Name, "$") {
			return nil, false
		}
		p := path.Clean(f.Name)
		if p == "." || p == ".." || strings.HasPrefix(p, "../") {
			return nil, false
		}
		if _, dup := data[p]; dup && unique {
			return nil, false
		}
		data[p] = f.Data
		for d := path.Dir(p); d != "."; d = path.Dir(d) {
			dirs[d] = true
		}
		// the directories named by the un-cleaned name are created too (MkdirAll of filepath.Dir(name) is
		// applied to the cleaned absolute path, so nothing extra appears)
	}
	for p := range data {
		if dirs[p] {
			return nil, false
		}
		for d := path.Dir(p); d != "."; d = path.Dir(d) {
			if _, isFile := data[d]; isFile {
				return nil, false
			}
		}
	}
	var out []string
	for d := range dirs {
		out = append(out, encPath(d)+"=d")
	}
	for p, d := range data {
		out = append(out, encPath(p)+"=f"+hx(d))
	}
	sort.Strings(out)
	return out, true
}

func isoOracle(res *corr.Result, j *job) {
	res.OracleChecked["C04"]++
	v := func(what, class string) { res.Violate("C04", j.id, what, class) }
	sp, obs := j.spec, j.obs
	retain := sp.TestWork || sp.WorkdirRoot
	if obs.RootFatal != "" {
		v("RunT failed outright: "+obs.RootFatal, "runt-fatal")
		return
	}
	if len(obs.Scripts) != len(sp.Scripts) {
		v(fmt.Sprintf("%d subtests for %d scripts", len(obs.Scripts), len(sp.Scripts)), "subtest-count")
	}
	names := map[string]bool{}
	for si, s := range obs.Scripts {
		// a deferred function of the script that panics on purpose (and was registered)
		wantPanic := ""
		if si < len(sp.Scripts) {
			for _, o := range sp.Scripts[si].Ops {
				if o.T == "D" && len(o.A) > 1 && o.A[1] == "p" {
					for _, id := range s.Registered {
						if strconv.Itoa(id) == o.A[0] {
							wantPanic = "deferred panic " + o.A[0]
						}
					}
				}
			}
		}
		if names[s.Name] {
			v("two scripts share the name (and so the work directory) "+s.Name, "shared-workdir")
		}
		names[s.Name] = true
		if s.Panic != wantPanic {
			v("script "+s.Name+" panicked: "+s.Panic+" (expected: "+wantPanic+")", "panic")
		}
		if len(s.FlushAlive) > 0 {
			v(fmt.Sprintf("script %s: helper(s) %v still alive when the log was flushed", s.Name, s.FlushAlive), "process-alive-at-flush")
		}
		if s.LogCalls != 1 {
			v(fmt.Sprintf("script %s: log flushed %d times", s.Name, s.LogCalls), "log-calls")
		}
		// deferred functions: reverse registration order
		ds := append([]deferObs{}, s.Deferred...)
		sort.Slice(ds, func(a, b int) bool { return ds[a].Seq < ds[b].Seq })
		var got []int
		for _, d := range ds {
			got = append(got, d.ID)
		}
		want := make([]int, len(s.Registered))
		for k, id := range s.Registered {
			want[len(s.Registered)-1-k] = id
		}
		if fmt.Sprint(got) != fmt.Sprint(want) {
			v(fmt.Sprintf("script %s: deferred functions ran as %v, registered as %v", s.Name, got, s.Registered), "defer-order")
		}
		// the work directory right after setup (first operation of every script is a probe): exactly the
		// archive's files — the last entry wins where two entries name the same path — with exactly their
		// data, their parent directories and .tmp (judged only when the entries do not conflict otherwise)
		if si < len(sp.Scripts) && len(s.Probes) > 0 && len(sp.Scripts[si].Ops) > 0 && sp.Scripts[si].Ops[0].T == "P" {
			if want, ok := expectedUnpack(sp.Scripts[si].Files, sp.UniqueNames); ok {
				got := append([]string{}, s.Probes[0].Tree...)
				sort.Strings(got)
				if fmt.Sprint(got) != fmt.Sprint(want) {
					v(fmt.Sprintf("script %s: work directory after setup is %v, the archive says %v", s.Name, got, want), "unpack-not-exact")
				}
				res.Distribution["oracle-unpack-exact"]++
			}
		}
		// host variables must be invisible
		for _, p := range s.Probes {
			for k, key := range sp.ProbeKeys {
				if (key == "VH_HOST_SECRET" || key == "USER" || key == "GOTMPDIR") && k < len(p.Vals) && strings.HasPrefix(p.Vals[k], "leak-") {
					v("script "+s.Name+" sees host variable "+key, "host-var-visible")
				}
			}
		}
		for _, r := range s.Reports {
			for _, kv := range r.Env {
				if strings.HasPrefix(kv[1], "leak-") || kv[0] == "USER" || kv[0] == "LANG" {
					v("script "+s.Name+": child process sees host variable "+kv[0], "host-var-visible")
				}
			}
		}
	}
	if len(j.after.AlivePids) > 0 {
		v(fmt.Sprintf("helper processes %v still alive after the run", j.after.AlivePids), "process-leak")
	}
	if !retain {
		if len(j.after.GotmpEntries) > 0 {
			v(fmt.Sprintf("temporary root not removed: %v left in the private temp dir", j.after.GotmpEntries), "root-left")
		}
	} else {
		var want []string
		for n := range names {
			want = append(want, "script-"+n)
		}
		sort.Strings(want)
		got := append([]string{}, j.after.RootEntries...)
		sort.Strings(got)
		if fmt.Sprint(got) != fmt.Sprint(want) {
			v(fmt.Sprintf("retained root holds %v, want %v", got, want), "retained-set")
		}
		if sp.WorkdirRoot && len(j.after.GotmpEntries) > 0 {
			v(fmt.Sprintf("WorkdirRoot given but %v created in the temp dir", j.after.GotmpEntries), "root-left")
		}
		if !sp.WorkdirRoot && len(j.after.GotmpEntries) != 1 {
			v(fmt.Sprintf("TestWork: %v in the temp dir, want exactly the root", j.after.GotmpEntries), "retained-set")
		}
		for _, s := range obs.Scripts {
			if s.FlushOK && fmt.Sprint(j.after.Retained["script-"+s.Name]) != fmt.Sprint(s.FlushTree) {
				v("script "+s.Name+": retained work directory differs from its state at the end of the script", "retained-differs")
			}
		}
	}
}

// ---------------------------------------------------------------- C17

type plan struct{ g, i, k int64 } // ns

func parsePlan(s string) (plan, bool) {
	var p plan
	n, err := fmt.Sscanf(s, "g=%d i=%d k=%d", &p.g, &p.i, &p.k)
	return p, err == nil && n == 3
}

// scenario class of a deadline script kind: mayExit, onInt
func dlClass(kind string) (string, string) {
	switch kind {
	case "quit", "negquit", "default":
		return "0", "1"
	case "ignore":
		return "0", "0"
	}
	return "1", "1" // early, edge
}

type dlCheck struct {
	cases    []string // model requests
	expect   []string // expected model answers ("" = any answer starting with "member" accepted among alternatives)
	altGroup []int    // requests with the same non-zero group are alternatives: one must be a member
}

func dlEvaluate(res *corr.Result, j *job, model string) (timingSuspects []string) {
	sp, obs := j.spec, j.obs
	v := func(what, class string) { res.Violate("C17", j.id, what, class) }
	res.OracleChecked["C17"]++
	if obs.RootFatal != "" {
		v("RunT failed outright: "+obs.RootFatal, "runt-fatal")
		return
	}
	dns := int64(sp.DeadlineMs) * 1e6
	var reqs []string
	reqs = append(reqs, fmt.Sprintf("grace %d", dns))
	// when does the context of each blocked script expire, given when the script started?
	var ctxScripts []int
	for i := range obs.Scripts {
		so := &obs.Scripts[i]
		switch sp.Scripts[i].Kind {
		case "quit", "negquit", "ignore":
			if len(so.Helpers) > 0 && so.Helpers[0].SigNs != 0 {
				ctxScripts = append(ctxScripts, i)
				reqs = append(reqs, fmt.Sprintf("ctxdl 0 %d %d", so.Helpers[0].StartNs-obs.T0Unix, dns))
			}
		}
	}
	type q struct {
		script  int
		alts    []string
		execReq string
	}
	var qs []q
	for i := range obs.Scripts {
		so := &obs.Scripts[i]
		kind := sp.Scripts[i].Kind
		if kind == "pass" {
			continue
		}
		me, oi := dlClass(kind)
		timedOut := strings.Contains(so.Log, "[context deadline exceeded]")
		var h *helperObs
		if len(so.Helpers) > 0 {
			h = &so.Helpers[0]
		}
		delivered := h != nil && h.SigNs != 0 || strings.Contains(so.Log, "SIGQUIT: quit")
		killed := kind == "ignore" && h != nil && !pidRunning(h.Pid) && so.DoneNs < 25e9
		resS := "own"
		if timedOut {
			resS = "ctx"
		} else if so.Verdict == "fail" {
			resS = "other"
		}
		mk := func(ctxDone bool) string {
			return fmt.Sprintf("waitorstop 100 1000 %s %s %s %s %s %s", me, oi, b01(ctxDone), b01(delivered), b01(killed), resS)
		}
		x := q{script: i}
		if timedOut {
			x.alts = []string{mk(true)}
		} else {
			x.alts = []string{mk(false), mk(true)} // whether the context had fired is not observable when the command's own status is returned
		}
		neg := kind == "negquit"
		x.execReq = fmt.Sprintf("execout %s %s %s", b01(neg), b01(timedOut || so.Verdict == "fail"), b01(timedOut))
		qs = append(qs, x)
	}
	for _, x := range qs {
		reqs = append(reqs, x.alts...)
		reqs = append(reqs, x.execReq)
	}
	out, err := mdl.Run(model, nil, reqs, 1)
	if err != nil {
		res.DisagreeFor([]string{"C17"}, j.id, "", "model driver: "+err.Error())
		return
	}
	res.Evaluations += len(reqs)
	pl, ok := parsePlan(out[0])
	if !ok {
		res.DisagreeFor([]string{"C17"}, reqs[0], "", out[0])
		return
	}
	k := 1
	for _, i := range ctxScripts {
		so := &obs.Scripts[i]
		var x int64
		if n, _ := fmt.Sscanf(out[k], "x=%d", &x); n != 1 {
			res.DisagreeFor([]string{"C17"}, reqs[k], "", out[k])
		} else {
			at := so.Helpers[0].SigNs - obs.T0Unix
			if at/1e6 < x/1e6-guardEarlyMs || at/1e6 > x/1e6+guardLateMs {
				res.DisagreeFor([]string{"C17"}, j.id+" script "+so.Name+": "+reqs[k], fmt.Sprintf("interrupted at %dms after the RunT call", at/1e6), fmt.Sprintf("context expires at %dms", x/1e6))
			}
		}
		k++
	}
	for _, x := range qs {
		so := &obs.Scripts[x.script]
		member := false
		for range x.alts {
			if strings.HasPrefix(out[k], "member") {
				member = true
			}
			k++
		}
		if !member {
			res.DisagreeFor([]string{"C17"}, j.id+" script "+so.Name+": "+strings.Join(x.alts, " | "), "observed", out[k-1])
		}
		execOut := out[k]
		k++
		kind := sp.Scripts[x.script].Kind
		if strings.HasPrefix(execOut, "fatal:") {
			msg := string(corr.Unhx(strings.TrimPrefix(execOut, "fatal:")))
			if !strings.Contains(so.Log, msg) {
				res.DisagreeFor([]string{"C17"}, j.id+" script "+so.Name+": "+x.execReq, "log lacks the message: "+tail(so.Log, 300), execOut)
			}
			if so.Verdict != "fail" {
				res.DisagreeFor([]string{"C17"}, j.id+" script "+so.Name+": "+x.execReq, "verdict "+so.Verdict, execOut)
			}
		} else if execOut == "ok" && so.Verdict != "pass" && kind != "edge" {
			res.DisagreeFor([]string{"C17"}, j.id+" script "+so.Name+": "+x.execReq, "verdict "+so.Verdict+": "+tail(so.Log, 300), execOut)
		}
	}

	// ---- oracle on the implementation, with the plan's numbers
	ms := func(ns int64) int64 { return ns / 1e6 }
	suspect := func(what string) { timingSuspects = append(timingSuspects, what) }
	for i := range obs.Scripts {
		so := &obs.Scripts[i]
		kind := sp.Scripts[i].Kind
		var h *helperObs
		if len(so.Helpers) > 0 {
			h = &so.Helpers[0]
		}
		switch kind {
		case "quit", "negquit", "ignore", "default":
			if so.Verdict != "fail" || !strings.Contains(so.Log, "test timed out while running command") {
				v(fmt.Sprintf("script %s (%s) blocked past the deadline but was reported %s without the timed-out message: %s", so.Name, kind, so.Verdict, tail(so.Log, 300)), "not-reported")
			}
			if kind != "default" {
				if h == nil || h.SigNs == 0 {
					v(fmt.Sprintf("script %s (%s): the helper never saw the interrupt", so.Name, kind), "no-interrupt")
				} else {
					at := h.SigNs - obs.T0Unix
					if ms(at) < ms(pl.i)-guardEarlyMs {
						v(fmt.Sprintf("script %s: interrupted at %dms, before deadline-2g = %dms", so.Name, ms(at), ms(pl.i)), "interrupt-early")
					}
					if ms(at) > ms(pl.i)+guardLateMs {
						suspect(fmt.Sprintf("script %s: interrupted at %dms, planned %dms", so.Name, ms(at), ms(pl.i)))
					}
				}
			}
			end := pl.i
			if kind == "ignore" {
				end = pl.k
				if ms(so.DoneNs) < ms(pl.k)-guardEarlyMs {
					v(fmt.Sprintf("script %s ignores the interrupt but ended at %dms, before deadline-g = %dms", so.Name, ms(so.DoneNs), ms(pl.k)), "kill-early")
				}
			}
			if ms(so.DoneNs) > ms(end)+guardLateMs {
				suspect(fmt.Sprintf("script %s (%s) ended at %dms, planned %dms", so.Name, kind, ms(so.DoneNs), ms(end)))
			}
		case "early":
			if so.Verdict != "pass" {
				v(fmt.Sprintf("script %s finishes after %dms, long before the deadline, but was reported %s: %s", so.Name, sp.Scripts[i].Delta, so.Verdict, tail(so.Log, 300)), "early-affected")
			}
			if h != nil && h.SigNs != 0 {
				v(fmt.Sprintf("script %s: early finisher was signalled", so.Name), "early-affected")
			}
		case "pass":
			if so.Verdict != "pass" {
				v(fmt.Sprintf("script %s without any command to wait for was reported %s", so.Name, so.Verdict), "early-affected")
			}
		case "edge":
			if so.Verdict == "skip" {
				v("edge script skipped", "early-affected")
			}
		}
		if so.Panic != "" {
			v("script "+so.Name+" panicked: "+so.Panic, "panic")
		}
		if len(so.FlushAlive) > 0 {
			v(fmt.Sprintf("script %s: helper still alive when the log was flushed", so.Name), "process-alive-at-flush")
		}
	}
	if sp.Sequential && ms(obs.ReturnNs) > int64(sp.DeadlineMs)+guardLateMs {
		suspect(fmt.Sprintf("RunT (sequential subtests) returned at %dms, deadline %dms", ms(obs.ReturnNs), sp.DeadlineMs))
	}
	if ms(obs.AllDoneNs) > int64(sp.DeadlineMs)+guardLateMs {
		suspect(fmt.Sprintf("all subtests finished at %dms, deadline %dms", ms(obs.AllDoneNs), sp.DeadlineMs))
	}
	if len(j.after.AlivePids) > 0 {
		v(fmt.Sprintf("helper processes %v still alive after the run", j.after.AlivePids), "process-leak")
	}
	// cleanup observables belong to C04 also when seen in a deadline batch
	v4 := func(what, class string) { res.Violate("C04", j.id, what, class) }
	if len(j.after.GotmpEntries) > 0 {
		v4(fmt.Sprintf("temporary root not removed: %v", j.after.GotmpEntries), "root-left")
	}
	if len(obs.CleanupLog) > 0 {
		// instrumented run: the context's cancel function is called exactly once, by the finisher that removed the root
		nK, nR := 0, 0
		for _, l := range obs.CleanupLog {
			if strings.HasPrefix(l, "K ") {
				nK++
			}
			if strings.HasPrefix(l, "R ") {
				nR++
			}
		}
		if nK != 1 || nR != 1 {
			v4(fmt.Sprintf("cancel called %d times, os.Remove(root) %d times: %s", nK, nR, strings.Join(obs.CleanupLog, "; ")), "cancel-count")
		}
		res.Distribution["deadline-batches-with-cleanup-log"]++
	}
	if obs.Goroutines > 8 {
		v(fmt.Sprintf("%d goroutines left in the test process after all subtests finished (leaked waitOrStop goroutines?)", obs.Goroutines), "goroutine-leak")
	}
	res.Distribution[fmt.Sprintf("deadline-%dms", sp.DeadlineMs)]++
	edge := ""
	if len(sp.Scripts) > 0 && sp.Scripts[0].Kind == "edge" {
		edge = "_edge"
	}
	if sp.Sequential {
		edge = "_sequential"
		res.Distribution["deadline-batches-sequential"]++
	}
	res.Extra[fmt.Sprintf("deadline_%dms%s_margin_ms", sp.DeadlineMs, edge)] = int64(sp.DeadlineMs) - ms(obs.AllDoneNs)
	return
}

// runWosSweep runs waitOrStop itself (exported from the scratch copy) on real helper processes
// with a real context: blocking / interrupt-ignoring / default-disposition / early-exiting helpers,
// with and without escalation, and a sweep of helpers that exit at about the moment the context
// fires.  The coarse outcome of every run must be an execution of the model for its scenario class;
// what waitOrStop returns late or leaves behind is checked directly.
func runWosSweep(res *corr.Result, bin, top, tier, model string) {
	cases := wosCases(tier)
	run := func(cs []wosCase) (*wosResult, []helperObs, error) {
		r, hs, dir, err := runWos(bin, top, cs)
		if dir != "" {
			defer os.RemoveAll(dir)
		}
		return r, hs, err
	}
	r, hs, err := run(cases)
	if err != nil {
		res.Observations = append(res.Observations, "waitOrStop sweep failed to run: "+err.Error())
		return
	}
	byLabel := func(hs []helperObs) map[string]*helperObs {
		m := map[string]*helperObs{}
		for i := range hs {
			m[hs[i].Label] = &hs[i]
		}
		return m
	}
	type bad struct {
		c    wosCase
		what string
	}
	evaluate := func(cs []wosCase, r *wosResult, hs []helperObs) (reqs []string, bads []bad) {
		hm := byLabel(hs)
		for i, c := range cs {
			o := r.Cases[i]
			if o.StartFail != "" {
				bads = append(bads, bad{c, "helper did not start: " + o.StartFail})
				reqs = append(reqs, "")
				continue
			}
			me, oi, cd, dv, kl, rs := wosClassify(c, o, hm[c.Label])
			dl := "none"
			if c.CtxMs > 0 {
				dl = "1000"
			}
			kd := "100"
			if c.KillDelay < 0 {
				kd = "-1"
			}
			reqs = append(reqs, strings.Join([]string{"waitorstop", kd, dl, me, oi, cd, dv, kl, rs}, " "))
			// liveness / timing directly: nothing returns (much) before it may, nothing hangs
			limit := int64(c.CtxMs + guardLateMs)
			if c.KillDelay > 0 {
				limit += int64(c.KillDelay)
			}
			if c.Kind == "early" && c.Ms < c.CtxMs-100 || c.CtxMs == 0 {
				limit = int64(c.Ms + guardLateMs)
			}
			if o.ReturnMs > limit {
				bads = append(bads, bad{c, fmt.Sprintf("waitOrStop returned after %dms", o.ReturnMs)})
			}
			if c.Kind == "ignore" && c.KillDelay > 0 && o.ReturnMs < int64(c.CtxMs+c.KillDelay-guardEarlyMs) {
				bads = append(bads, bad{c, fmt.Sprintf("process ignoring the interrupt: waitOrStop returned after %dms, before ctx+killDelay = %dms", o.ReturnMs, c.CtxMs+c.KillDelay)})
			}
			if c.Kind != "early" && o.ReturnMs < int64(c.CtxMs-guardEarlyMs) {
				bads = append(bads, bad{c, fmt.Sprintf("waitOrStop returned after %dms, before the context expired (%dms)", o.ReturnMs, c.CtxMs)})
			}
			if pidRunning(o.Pid) {
				bads = append(bads, bad{c, "the process is still running after waitOrStop returned"})
			}
		}
		return
	}
	reqs, bads := evaluate(cases, r, hs)
	var live []string
	var liveIdx []int
	for i, q := range reqs {
		if q != "" {
			live = append(live, q)
			liveIdx = append(liveIdx, i)
		}
	}
	out, err := mdl.Run(model, nil, live, 0)
	if err != nil {
		res.DisagreeFor([]string{"C17"}, "<driver>", "", err.Error())
		return
	}
	res.Evaluations += len(live)
	res.OracleChecked["C17"] += len(cases)
	var retry []wosCase
	for k, o := range out {
		c := cases[liveIdx[k]]
		res.Distribution["waitOrStop-direct-"+c.Kind]++
		if !strings.HasPrefix(o, "member") {
			retry = append(retry, c)
		} else {
			res.Distribution["waitOrStop-outcome-"+live[k][strings.Index(live[k], " ")+1:]]++
		}
	}
	for _, b := range bads {
		retry = append(retry, b.c)
	}
	if r.GoroutinesAfter > r.GoroutinesBefore+2 {
		res.Violate("C17", "wos", fmt.Sprintf("%d goroutines before the waitOrStop calls, %d after all of them returned: leaked stopper goroutines", r.GoroutinesBefore, r.GoroutinesAfter), "goroutine-leak")
	}
	res.Extra["waitOrStop_goroutines"] = []int{r.GoroutinesBefore, r.GoroutinesAfter}
	if len(retry) == 0 {
		return
	}
	// anything off: once more, these cases only, nothing else running
	r2, hs2, err := run(retry)
	if err != nil {
		res.Observations = append(res.Observations, "waitOrStop retry failed to run: "+err.Error())
		return
	}
	reqs2, bads2 := evaluate(retry, r2, hs2)
	var live2 []string
	for _, q := range reqs2 {
		if q != "" {
			live2 = append(live2, q)
		}
	}
	out2, err := mdl.Run(model, nil, live2, 0)
	if err != nil {
		res.DisagreeFor([]string{"C17"}, "<driver>", "", err.Error())
		return
	}
	clean := len(bads2) == 0
	for k, o := range out2 {
		if !strings.HasPrefix(o, "member") {
			clean = false
			res.DisagreeFor([]string{"C17"}, "wos (second run, alone) "+live2[k], "observed", o)
		}
	}
	for _, b := range bads2 {
		res.Violate("C17", fmt.Sprintf("wos:%s:%d:%d:%d", b.c.Kind, b.c.Ms, b.c.CtxMs, b.c.KillDelay), b.what+" (twice, second run alone)", "waitorstop-late-or-leak")
	}
	if clean {
		res.Observations = append(res.Observations, fmt.Sprintf("%d waitOrStop runs looked off in the full sweep and were fine when re-run alone", len(retry)))
	}
}

func mergeResult(dst, src *corr.Result) {
	dst.Evaluations += src.Evaluations
	dst.DistinctNontrivial += src.DistinctNontrivial
	for _, d := range src.Disagreements {
		dst.DisagreeFor(d.Properties, d.Case, d.Impl, d.Model)
	}
	dst.NDisagreements += src.NDisagreements - len(src.Disagreements)
	for _, v := range src.Violations {
		dst.Violate(v.Property, v.Input, v.What, v.Class)
	}
	for k, n := range src.OracleChecked {
		dst.OracleChecked[k] += n
	}
	for k, n := range src.Distribution {
		if !strings.HasPrefix(k, "violation:") {
			dst.Distribution[k] += n
		}
	}
	for k, x := range src.Extra {
		dst.Extra[k] = x
	}
	dst.Observations = append(dst.Observations, src.Observations...)
}

// ---------------------------------------------------------------- entry

func runTsLife(tier string, seed int64, model string, replay string) *corr.Result {
	res := corr.NewResult("tslife", tier, seed)
	top, err := os.MkdirTemp("", "giv-tslife-")
	if err != nil {
		res.Disagree("<setup>", err.Error(), "")
		return res
	}
	defer os.RemoveAll(top)

	nIso, dls, variants, edges := 300, []int{600, 1000, 2000, 3000}, 1, []int{1000}
	seqs := []int{4000}
	if tier == "thorough" {
		seqs = []int{3000, 4000, 6000}
		nIso, variants = 3000, 4
		dls = []int{300, 600, 1000, 1500, 2000, 2500, 3000, 4000}
		edges = []int{400, 600, 1000, 2000, 3000}
	}
	if os.Getenv("VERIF_SEARCH") != "" {
		nIso *= 2
	}
	var jobs []*job
	if replay != "" {
		f := strings.Split(replay, ":")
		switch {
		case f[0] == "iso" && len(f) == 3:
			s, _ := strconv.ParseInt(f[1], 10, 64)
			i, _ := strconv.Atoi(f[2])
			b := genIsoBatch(s, i)
			jobs = append(jobs, &job{id: replay, iso: b, spec: &b.spec, unpriv: unprivOK() && i%3 == 0})
		case f[0] == "dl" && len(f) == 4:
			s, _ := strconv.ParseInt(f[1], 10, 64)
			d, _ := strconv.Atoi(f[2])
			va, _ := strconv.Atoi(f[3])
			jobs = append(jobs, &job{id: replay, spec: genDeadlineBatch(s, d, va)})
		default:
			res.Observations = append(res.Observations, "unrecognised replay case "+replay)
		}
	} else {
		for _, d := range dls {
			for va := 0; va < variants; va++ {
				jobs = append(jobs, &job{id: fmt.Sprintf("dl:%d:%d:%d", seed, d, va), spec: genDeadlineBatch(seed, d, va)})
			}
		}
		for _, d := range edges {
			jobs = append(jobs, &job{id: fmt.Sprintf("dl:%d:%d:%d", seed, d, 100), spec: genDeadlineBatch(seed, d, 100)})
		}
		for _, d := range seqs {
			jobs = append(jobs, &job{id: fmt.Sprintf("dl:%d:%d:%d", seed, d, 200), spec: genDeadlineBatch(seed, d, 200)})
		}
		for i := 0; i < nIso; i++ {
			b := genIsoBatch(seed, i)
			jobs = append(jobs, &job{id: fmt.Sprintf("iso:%d:%d", seed, i), iso: b, spec: &b.spec, unpriv: unprivOK() && i%3 == 0})
		}
	}

	// ---- instrumented scratch copy: waitOrStop on real processes, logged cleanup closures
	var scratch *scratchBuild
	if true {
		sb, err := buildScratch()
		if err != nil {
			res.Observations = append(res.Observations, "scratch copy of package testscript could not be built (waitOrStop sweeps and cleanup traces skipped): "+tail(err.Error(), 400))
		} else {
			scratch = sb
			defer scratch.cleanup()
			if sb.note != "" {
				res.Observations = append(res.Observations, sb.note)
			}
		}
	}
	if scratch != nil && replay == "" {
		runWosSweep(res, scratch.built.Bin, top, tier, model)
	}
	if scratch != nil && scratch.instrumented {
		for k, j := range jobs {
			if (j.iso != nil && k%2 == 0 && !j.unpriv) || j.iso == nil {
				j.bin = scratch.built.Bin
			}
		}
	}

	// deadline batches first, all together (they mostly sleep) and with nothing else running, so that
	// their timing is not disturbed by the process churn of the isolation batches; then the iso
	// batches through a small pool
	var wg sync.WaitGroup
	dlSem := make(chan struct{}, 8) // at most 8 deadline batches (≈ 70 helper processes) at a time
	for _, j := range jobs {
		if j.iso == nil {
			j := j
			wg.Add(1)
			go func() {
				defer wg.Done()
				dlSem <- struct{}{}
				defer func() { <-dlSem }()
				runWorker(j, top)
			}()
		}
	}
	wg.Wait()
	pool := runtime.NumCPU() / 2
	if pool < 2 {
		pool = 2
	}
	if pool > 8 {
		pool = 8
	}
	sem := make(chan struct{}, pool)
	for _, j := range jobs {
		if j.iso == nil {
			continue
		}
		j := j
		wg.Add(1)
		go func() {
			defer wg.Done()
			sem <- struct{}{}
			defer func() { <-sem }()
			runWorker(j, top)
		}()
	}
	wg.Wait()

	if replay != "" {
		for _, j := range jobs {
			res.Extra["replay_obs"] = j.obs
			res.Extra["replay_after"] = j.after
			res.Extra["replay_err"] = j.err
		}
	}
	// ---- C17
	for _, j := range jobs {
		if j.iso != nil {
			continue
		}
		if j.err != "" {
			res.Violate("C17", j.id, j.err, "run-failed")
			cleanupJob(j)
			continue
		}
		// Everything here depends on the OS delivering signals and scheduling goroutines in time.
		// Evaluate into a scratch result; if anything at all is off, run the batch once more, alone,
		// and let that second run decide.
		tmp := corr.NewResult("tslife", tier, seed)
		suspects := dlEvaluate(tmp, j, model)
		cleanupJob(j)
		if len(suspects) > 0 || tmp.NDisagreements > 0 || len(tmp.Violations) > 0 {
			first := append([]string{}, suspects...)
			for _, v := range tmp.Violations {
				first = append(first, v.What)
			}
			for _, d := range tmp.Disagreements {
				first = append(first, "model/impl: "+d.Case+" → "+d.Model)
			}
			j2 := &job{id: j.id, spec: j.spec}
			runWorker(j2, top)
			tmp = corr.NewResult("tslife", tier, seed)
			if j2.err != "" {
				tmp.Violate("C17", j.id, j2.err, "run-failed")
			} else if again := dlEvaluate(tmp, j2, model); len(again) > 0 {
				tmp.Violate("C17", j.id, "late twice (second run alone): "+strings.Join(again, "; "), "late")
			}
			if tmp.NDisagreements == 0 && len(tmp.Violations) == 0 {
				res.Observations = append(res.Observations, "not reproduced when run alone ("+j.id+"): "+tail(strings.Join(first, "; "), 600))
			}
			cleanupJob(j2)
		}
		mergeResult(res, tmp)
	}

	// ---- C04
	var reqs []string
	type ref struct {
		j *job
		i int
	}
	var refs []ref
	for _, j := range jobs {
		if j.iso == nil {
			continue
		}
		if j.err != "" {
			res.Violate("C04", j.id, j.err, "run-failed")
			continue
		}
		isoOracle(res, j)
		{
			// the names RunT gave to the subtests, against the model's naming function
			var fn []string
			for _, sc := range j.spec.Scripts {
				fn = append(fn, hx(filepath.Base(sc.File)))
			}
			reqs = append(reqs, "names "+strings.Join(fn, ","))
			refs = append(refs, ref{j, -2})
		}
		if len(j.obs.CleanupLog) > 0 {
			idx := map[string]int{}
			for i, so := range j.obs.Scripts {
				idx[so.Name] = i
			}
			var evs []string
			for _, l := range j.obs.CleanupLog {
				f := strings.Fields(l)
				v := "0"
				if len(f) >= 3 {
					v = f[2]
				}
				if len(f) >= 2 && f[0] != "K" {
					evs = append(evs, fmt.Sprintf("%d:%s:%s", idx[f[1]], f[0], v))
				}
			}
			reqs = append(reqs, fmt.Sprintf("cleanuptrace %d 0 %s", len(j.obs.Scripts), strings.Join(evs, ",")))
			refs = append(refs, ref{j, -1})
		}
		for i := range j.obs.Scripts {
			if i < len(j.spec.Scripts) {
				reqs = append(reqs, j.modelRequest(i, &j.obs.Scripts[i]))
				refs = append(refs, ref{j, i})
			}
		}
	}
	seenTrace := map[string]bool{}
	out, err := mdl.Run(model, nil, reqs, 0)
	if err != nil {
		res.DisagreeFor([]string{"C04"}, "<driver>", "", err.Error())
	} else {
		nontrivial := 0
		for k, r := range refs {
			if r.i == -2 {
				var got []string
				for _, so := range r.j.obs.Scripts {
					got = append(got, hx(so.Name))
				}
				if strings.Join(got, ",") != out[k] {
					var names []string
					for _, so := range r.j.obs.Scripts {
						names = append(names, so.Name)
					}
					res.DisagreeFor([]string{"C04"}, r.j.id+" :: "+reqs[k], "subtest names "+strings.Join(names, " "), out[k])
				}
				continue
			}
			if r.i < 0 {
				// the logged operations of the real cleanup closures must be a run of the model, ending complete
				res.Distribution["cleanup-traces-replayed"]++
				if out[k] != "ok root=0 attempts=1 failed=0 cancels=1 complete=1" {
					res.DisagreeFor([]string{"C04"}, r.j.id+" :: "+tail(reqs[k], 600), strings.Join(r.j.obs.CleanupLog, "; "), out[k])
				}
				key := reqs[k][strings.LastIndex(reqs[k], " ")+1:]
				if !seenTrace[key] {
					seenTrace[key] = true
					res.Distribution["cleanup-traces-distinct"]++
				}
				continue
			}
			so := &r.j.obs.Scripts[r.i]
			impl := r.j.observedLine(so, out[k])
			if impl != out[k] {
				res.DisagreeFor([]string{"C04"}, r.j.id+" script "+so.Name+" :: "+reqs[k], impl, out[k])
			}
			res.Distribution["verdict-"+so.Verdict]++
			if len(so.Helpers) > 0 {
				res.Distribution["scripts-with-background-or-foreground-helpers"]++
			}
			if len(so.Deferred) > 1 {
				res.Distribution["scripts-with-2+-deferred"]++
			}
			if len(so.Probes) > 0 && (len(so.Helpers) > 0 || len(so.Deferred) > 0 || so.Verdict != "pass") {
				nontrivial++
			}
			if k < 3 {
				res.Samples = append(res.Samples, map[string]string{"case": tail(reqs[k], 600), "model": tail(out[k], 600)})
			}
		}
		res.DistinctNontrivial += nontrivial
		res.Evaluations += len(reqs)
	}
	for _, j := range jobs {
		if j.iso == nil {
			continue
		}
		sp := j.spec
		res.Distribution[fmt.Sprintf("batch-size-%02d", len(sp.Scripts))]++
		if sp.UseDir {
			res.Distribution["batches-params-dir"]++
		}
		for _, sc := range sp.Scripts {
			if strings.Contains(sc.File, "#") {
				res.Distribution["scripts-with-#-in-file-name"]++
			}
			for _, o := range sc.Ops {
				if o.T == "D" && len(o.A) > 1 && o.A[1] != "" {
					res.Distribution["scripts-with-aborting-deferred-function"]++
				}
			}
		}
		if sp.TestWork {
			res.Distribution["batches-testwork"]++
		}
		if sp.WorkdirRoot {
			res.Distribution["batches-workdirroot"]++
		}
		if sp.ContinueOnError {
			res.Distribution["batches-continue-on-error"]++
		}
		res.Distribution["batches-iso"]++
		if j.unpriv && j.obs != nil && j.obs.Uid != 0 {
			res.Distribution["batches-run-as-unprivileged-user"]++
		}
		cleanupJob(j)
	}
	res.Rule = "C04: scripts (of batches of 4–16 run in parallel by one RunT) that make at least one probe and start a helper process, register a deferred function or end other than by passing; each script's observations are compared with the Lean model's solo prediction. C17: every script of a deadline batch is one evaluation (coarse outcome ∈ model executions, message attribution, plan timing with guard bands)"
	res.Extra["guard_ms"] = map[string]int{"early": guardEarlyMs, "late": guardLateMs}
	if os.Getuid() == 0 && !unprivOK() {
		res.Observations = append(res.Observations, "uid 65534 cannot execute "+selfPath()+": the batches meant to run unprivileged (read-only directories as a real obstacle) ran as root")
	}
	return res
}
