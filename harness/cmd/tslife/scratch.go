package main

// Instrumented scratch copy of package testscript (never of /repo itself): the working tree is
// copied to a temp dir by shimkit, testscript.go's cleanup closure is rewritten so that its four
// operations are linearised and logged, an export file makes waitOrStop callable, and a driver
// made of this package's own worker.go / gen.go (embedded) is compiled against the copy.

import (
	"bufio"
	"bytes"
	_ "embed"
	"encoding/json"
	"fmt"
	"os"
	"os/exec"
	"path/filepath"
	"regexp"
	"strings"

	"verif/harness/internal/shimkit"
)

//go:embed worker.go
var workerSrc string

//go:embed gen.go
var genSrc string

const scratchExport = `package testscript

import (
	"context"
	"fmt"
	"math/rand"
	"os"
	"os/exec"
	"sync"
	"sync/atomic"
	"time"
)

var (
	verifMu  sync.Mutex
	verifLog []string
)

// a little scheduling noise in front of every logged operation, to vary the interleavings
func verifJitter() {
	switch rand.Intn(4) {
	case 0:
	case 1:
		time.Sleep(time.Duration(rand.Intn(300)) * time.Microsecond)
	default:
		for i := rand.Intn(3); i >= 0; i-- {
			time.Sleep(0)
		}
	}
}

func verifHook(ev, name string) {
	verifMu.Lock()
	verifLog = append(verifLog, ev+" "+name)
	verifMu.Unlock()
}

// the operation and its log entry are one critical section: the log order is the real order
func verifAdd(p *int32, d int32, name string) int32 {
	verifJitter()
	verifMu.Lock()
	r := atomic.AddInt32(p, d)
	verifLog = append(verifLog, fmt.Sprintf("D %s %d", name, r))
	verifMu.Unlock()
	verifJitter()
	return r
}

func verifRemove(dir, name string) error {
	verifJitter()
	verifMu.Lock()
	err := os.Remove(dir)
	ok := 0
	if err == nil {
		ok = 1
	}
	verifLog = append(verifLog, fmt.Sprintf("R %s %d", name, ok))
	verifMu.Unlock()
	return err
}

func VerifTakeLog() []string {
	verifMu.Lock()
	defer verifMu.Unlock()
	l := verifLog
	verifLog = nil
	return l
}

// WaitOrStopVerif exposes the unexported waitOrStop.
func WaitOrStopVerif(ctx context.Context, cmd *exec.Cmd, killDelay time.Duration) error {
	return waitOrStop(ctx, cmd, killDelay)
}
`

const scratchMain = `package main

import (
	"context"
	"encoding/json"
	"errors"
	"fmt"
	"os"
	"os/exec"
	"path/filepath"
	"runtime"
	"strings"
	"sync"
	"time"

	"github.com/rogpeppe/go-internal/testscript"
)

func init() { takeCleanupLog = testscript.VerifTakeLog }

func main() {
	if filepath.Base(os.Args[0]) == "vh" {
		helperMain(os.Args[1:])
		return
	}
	if len(os.Args) < 2 {
		os.Exit(2)
	}
	switch os.Args[1] {
	case "worker":
		workerMain()
	case "wos":
		wosMain()
	default:
		os.Exit(2)
	}
}

type wosCase struct {
	Kind      string ` + "`json:\"kind\"`" + `       // quit | ignore | default | early
	Ms        int    ` + "`json:\"ms\"`" + `         // early: exits by itself after Ms
	CtxMs     int    ` + "`json:\"ctx_ms\"`" + `     // context timeout; 0 = no deadline
	KillDelay int    ` + "`json:\"kill_delay\"`" + ` // ms; -1 = none
	Label     string ` + "`json:\"label\"`" + `
}

type wosObs struct {
	Err       string ` + "`json:\"err\"`" + `        // "" | ctx | exit | signal:<name> | other:<text>
	CtxDone   bool   ` + "`json:\"ctx_done\"`" + `   // ctx.Err() != nil when waitOrStop returned
	ReturnMs  int64  ` + "`json:\"return_ms\"`" + `
	Pid       int    ` + "`json:\"pid\"`" + `
	StartFail string ` + "`json:\"start_fail,omitempty\"`" + `
}

// wos <dir>: cases as JSON on stdin; every case runs waitOrStop on a real helper process.
func wosMain() {
	dir := os.Args[2]
	var cases []wosCase
	if err := json.NewDecoder(os.Stdin).Decode(&cases); err != nil {
		fmt.Fprintln(os.Stderr, err)
		os.Exit(2)
	}
	base := runtime.NumGoroutine()
	out := make([]wosObs, len(cases))
	var wg sync.WaitGroup
	sem := make(chan struct{}, 24)
	for i, c := range cases {
		i, c := i, c
		wg.Add(1)
		go func() {
			defer wg.Done()
			sem <- struct{}{}
			defer func() { <-sem }()
			args := []string{"dl", c.Kind, c.Label}
			if c.Kind == "early" {
				args = append(args, fmt.Sprint(c.Ms))
			}
			cmd := exec.Command(filepath.Join(dir, "bin", "vh"), args...)
			cmd.Env = []string{"VH_LOG=" + filepath.Join(dir, "vh.log"), "VH_SCRIPT=wos"}
			var sb strings.Builder
			cmd.Stdout, cmd.Stderr = &sb, &sb
			ctx := context.Background()
			var cancel context.CancelFunc = func() {}
			t0 := time.Now()
			if c.CtxMs > 0 {
				ctx, cancel = context.WithTimeout(ctx, time.Duration(c.CtxMs)*time.Millisecond)
			}
			defer cancel()
			if err := cmd.Start(); err != nil {
				out[i].StartFail = err.Error()
				return
			}
			kd := time.Duration(c.KillDelay) * time.Millisecond
			if c.KillDelay < 0 {
				kd = -1
			}
			err := testscript.WaitOrStopVerif(ctx, cmd, kd)
			o := &out[i]
			o.ReturnMs = time.Since(t0).Milliseconds()
			o.CtxDone = ctx.Err() != nil
			o.Pid = cmd.Process.Pid
			var ee *exec.ExitError
			switch {
			case err == nil:
			case errors.Is(err, context.DeadlineExceeded):
				o.Err = "ctx"
			case errors.As(err, &ee):
				if ee.Exited() {
					o.Err = "exit"
				} else {
					o.Err = "signal:" + ee.String()
				}
			default:
				o.Err = "other:" + err.Error()
			}
		}()
	}
	wg.Wait()
	time.Sleep(50 * time.Millisecond)
	res := map[string]any{"cases": out, "goroutines_before": base, "goroutines_after": runtime.NumGoroutine()}
	data, _ := json.Marshal(res)
	os.Stdout.Write(data)
}
`

type scratchBuild struct {
	built        *shimkit.Built
	instrumented bool // the cleanup closure could be rewritten
	note         string
}

func (s *scratchBuild) cleanup() {
	if s != nil && s.built != nil {
		s.built.Cleanup()
	}
}

// rewriteCleanup adds the logging calls to RunT's cleanup closure; ok=false if the four anchors are
// not each found exactly once.
func rewriteCleanup(src string) (string, bool) {
	type rep struct {
		re  *regexp.Regexp
		new string
	}
	reps := []rep{
		{regexp.MustCompile(`removeAll\(ts\.workdir\)`), `verifJitter(); removeAll(ts.workdir); verifHook("A", name); verifJitter()`},
		{regexp.MustCompile(`atomic\.AddInt32\(&refCount,\s*(-?\d+)\)`), `verifAdd(&refCount, $1, name)`},
		{regexp.MustCompile(`os\.Remove\(testTempDir\)`), `verifRemove(testTempDir, name)`},
		{regexp.MustCompile(`if cancel != nil \{\s*cancel\(\)`), `verifHook("C", name); if cancel != nil { verifHook("K", name); cancel()`},
	}
	for _, r := range reps {
		if len(r.re.FindAllStringIndex(src, -1)) != 1 {
			return src, false
		}
		src = r.re.ReplaceAllString(src, r.new)
	}
	return src + "\nvar _ = atomic.AddInt32\n", true
}

func buildScratch() (*scratchBuild, error) {
	repo := os.Getenv("VERIF_REPO")
	if repo == "" {
		repo = "/repo"
	}
	vshim := "vshim"
	if root := os.Getenv("VERIF_ROOT"); root != "" {
		vshim = filepath.Join(root, "harness", "vshim")
	}
	drv, err := os.MkdirTemp("", "giv-tslife-drv-")
	if err != nil {
		return nil, err
	}
	defer os.RemoveAll(drv)
	for name, content := range map[string]string{"worker.go": workerSrc, "gen.go": genSrc, "smain.go": scratchMain} {
		if err := os.WriteFile(filepath.Join(drv, name), []byte(content), 0o666); err != nil {
			return nil, err
		}
	}
	sb := &scratchBuild{}
	extra := map[string]string{"testscript/export_verif.go": scratchExport}
	if src, err := os.ReadFile(filepath.Join(repo, "testscript", "testscript.go")); err == nil {
		if out, ok := rewriteCleanup(string(src)); ok {
			extra["testscript/testscript.go"] = out
			sb.instrumented = true
		} else {
			sb.note = "cleanup closure of RunT not instrumented: anchors (removeAll(ts.workdir), atomic.AddInt32(&refCount, N), os.Remove(testTempDir), cancel()) not found exactly once"
		}
	}
	b, err := shimkit.Build(shimkit.Spec{Repo: repo, DriverDir: drv, VshimDir: vshim, ExtraFiles: extra})
	if err != nil {
		return nil, err
	}
	sb.built = b
	return sb, nil
}

// ---------------------------------------------------------------- waitOrStop on real processes

type wosCase struct {
	Kind      string `json:"kind"`
	Ms        int    `json:"ms"`
	CtxMs     int    `json:"ctx_ms"`
	KillDelay int    `json:"kill_delay"`
	Label     string `json:"label"`
}

type wosObs struct {
	Err       string `json:"err"`
	CtxDone   bool   `json:"ctx_done"`
	ReturnMs  int64  `json:"return_ms"`
	Pid       int    `json:"pid"`
	StartFail string `json:"start_fail,omitempty"`
}

type wosResult struct {
	Cases            []wosObs `json:"cases"`
	GoroutinesBefore int      `json:"goroutines_before"`
	GoroutinesAfter  int      `json:"goroutines_after"`
}

func runWos(bin, top string, cases []wosCase) (*wosResult, []helperObs, string, error) {
	dir, err := os.MkdirTemp(top, "w")
	if err != nil {
		return nil, nil, "", err
	}
	os.MkdirAll(filepath.Join(dir, "bin"), 0o777)
	if err := os.Symlink(bin, filepath.Join(dir, "bin", "vh")); err != nil {
		return nil, nil, dir, err
	}
	in, _ := json.Marshal(cases)
	cmd := exec.Command(bin, "wos", dir)
	cmd.Stdin = bytes.NewReader(in)
	var stdout, stderr bytes.Buffer
	cmd.Stdout, cmd.Stderr = bufio.NewWriter(&stdout), &stderr
	cmd.Stdout = &stdout
	if err := cmd.Run(); err != nil {
		return nil, nil, dir, fmt.Errorf("wos driver: %v: %s", err, tail(stderr.String(), 1000))
	}
	var res wosResult
	if err := json.Unmarshal(stdout.Bytes(), &res); err != nil {
		return nil, nil, dir, err
	}
	hs := helpersOf(readLog(filepath.Join(dir, "vh.log")), "wos")
	return &res, hs, dir, nil
}

func wosCases(tier string) []wosCase {
	var cs []wosCase
	add := func(c wosCase) {
		c.Label = fmt.Sprintf("W%d", len(cs))
		cs = append(cs, c)
	}
	const T = 250
	reps := 2
	step := 2
	if tier == "thorough" {
		reps, step = 6, 1
	}
	for r := 0; r < reps; r++ {
		for _, k := range []string{"quit", "ignore", "default"} {
			add(wosCase{Kind: k, CtxMs: T, KillDelay: 120})
		}
		add(wosCase{Kind: "quit", CtxMs: T, KillDelay: -1})    // background flavour: no escalation needed
		add(wosCase{Kind: "default", CtxMs: T, KillDelay: -1}) //
		add(wosCase{Kind: "early", Ms: 30, CtxMs: T, KillDelay: 120})
		add(wosCase{Kind: "early", Ms: 60, CtxMs: 0, KillDelay: 120}) // no deadline at all
		add(wosCase{Kind: "early", Ms: 40, CtxMs: T, KillDelay: -1})
	}
	// the racing zone: the helper exits by itself at about the moment the context fires
	// (process start-up takes a few ms, so the sweep is generous on the early side)
	for eps := -40; eps <= 16; eps += step {
		add(wosCase{Kind: "early", Ms: T + eps, CtxMs: T, KillDelay: 120})
	}
	return cs
}

func wosClassify(c wosCase, o wosObs, h *helperObs) (me, oi, ctxDone, delivered, killed, res string) {
	me, oi = dlClass(c.Kind)
	delivered = b01(h != nil && h.SigNs != 0)
	killed = "0"
	switch {
	case o.Err == "":
		res = "own"
	case o.Err == "ctx":
		res = "ctx"
	case strings.HasPrefix(o.Err, "signal:") || o.Err == "exit":
		// waitOrStop returned the wait status of a process that did not exit normally
		res = "sig"
		if c.Kind == "early" {
			res = "own"
		}
	default:
		res = "other"
	}
	if c.Kind == "ignore" && !pidRunning(o.Pid) {
		killed = "1"
	}
	if c.Kind == "default" && o.Err == "ctx" {
		delivered = "1" // Go's default disposition: the process died of the SIGQUIT (no handler to log it)
	}
	ctxDone = b01(o.CtxDone)
	return
}
