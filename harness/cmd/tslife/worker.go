package main

// The part of the tslife harness that touches the real code: an implementation of testscript.T
// with testing's parallel-subtest semantics, the worker process (`tslife worker`: one batch of
// scripts through ONE testscript.RunT call, in a private GOTMPDIR), the custom script commands
// through which scripts report their observations, and the helper program `vh`.

import (
	"bufio"
	"encoding/json"
	"fmt"
	"io/fs"
	"os"
	"os/signal"
	"path/filepath"
	"runtime"
	"sort"
	"strconv"
	"strings"
	"sync"
	"syscall"
	"time"

	"github.com/rogpeppe/go-internal/testscript"
)

// ---------------------------------------------------------------- batch description (parent → worker)

type fileSpec struct {
	Name string `json:"name"` // clean relative slash path
	Data string `json:"data"`
}

type scriptSpec struct {
	File        string     `json:"file"` // path of the script file relative to the batch dir
	Files       []fileSpec `json:"files"`
	Ops         []opSpec   `json:"ops"`
	SetupDefers []int      `json:"setup_defers"`
	// deadline mode
	Kind  string `json:"kind,omitempty"`  // quit | ignore | default | early | negquit | pass
	Delta int    `json:"delta,omitempty"` // early: exit after Delta ms
}

type batchSpec struct {
	Mode            string       `json:"mode"` // iso | deadline
	Dir             string       `json:"dir"`  // private directory of the batch
	Scripts         []scriptSpec `json:"scripts"`
	ContinueOnError bool         `json:"coe"`
	UniqueNames     bool         `json:"unique"`
	Verbose         bool         `json:"verbose"`
	TestWork        bool         `json:"testwork"`
	WorkdirRoot     bool         `json:"workdir_root"`
	UseDir          bool         `json:"use_dir"`    // scripts found through Params.Dir (all in s0/) instead of Params.Files
	Sequential      bool         `json:"sequential"` // the T runs subtests one after the other (Run is synchronous, Parallel a no-op)
	SetupEnv        [][2]string  `json:"setup_env"`  // appended by Params.Setup (plus PATH, VH_LOG, VH_SCRIPT)
	ProbeKeys       []string     `json:"probe_keys"`
	DeadlineMs      int          `json:"deadline_ms"`
}

// ---------------------------------------------------------------- observations (worker → parent)

type probeObs struct {
	Cwd  string   `json:"cwd"` // relative to the work dir, "." for the work dir
	Vals []string `json:"vals"`
	Tree []string `json:"tree"` // "<rel path>=d" | "<rel path>=f<hex>"
}

type deferObs struct {
	ID    int   `json:"id"`
	Alive []int `json:"alive"` // start indexes of this script's `sig` helpers alive when the callback ran
	Seq   int64 `json:"seq"`
}

type reportObs struct {
	Cwd string      `json:"cwd"` // absolute
	Env [][2]string `json:"env"`
}

type helperObs struct {
	Label   string `json:"label"`
	Kind    string `json:"kind"`
	Pid     int    `json:"pid"`
	StartNs int64  `json:"start_ns"`
	SigNs   int64  `json:"sig_ns"` // first interrupt (SIGINT for bg helpers, SIGQUIT for deadline helpers) seen; 0 = none
	ExitNs  int64  `json:"exit_ns"`
}

type scriptObs struct {
	Name       string      `json:"name"` // subtest name given by RunT
	File       string      `json:"file"`
	Verdict    string      `json:"verdict"`
	Panic      string      `json:"panic,omitempty"`
	Workdir    string      `json:"workdir"`
	Probes     []probeObs  `json:"probes"`
	Deferred   []deferObs  `json:"deferred"`
	Registered []int       `json:"registered"`
	Reports    []reportObs `json:"reports"`
	Helpers    []helperObs `json:"helpers"`
	LogCalls   int         `json:"log_calls"`
	LogSeq     int64       `json:"log_seq"`     // sequence number of the (first) Log call
	FlushAlive []int       `json:"flush_alive"` // helpers (start index) alive at the Log call
	FlushTree  []string    `json:"flush_tree"`  // work dir at the Log call
	FlushOK    bool        `json:"flush_ok"`    // the work dir could be read at the Log call
	Log        string      `json:"log"`
	DoneNs     int64       `json:"done_ns"` // when the subtest goroutine ended, relative to t0
}

type batchObs struct {
	Scripts    []scriptObs `json:"scripts"`
	HostEnv    [][2]string `json:"host_env"`
	Root       string      `json:"root"` // work root used by RunT ("" if none was seen)
	T0Unix     int64       `json:"t0_unix_ns"`
	ReturnNs   int64       `json:"return_ns"`   // RunT returned, relative to t0
	AllDoneNs  int64       `json:"all_done_ns"` // all subtests finished
	RootFatal  string      `json:"root_fatal,omitempty"`
	Goroutines int         `json:"goroutines"` // runtime.NumGoroutine() some time after everything finished
	Uid        int         `json:"uid"`
	CleanupLog []string    `json:"cleanup_log,omitempty"` // instrumented scratch copy only: "A name" | "D name result" | "R name ok" | "C name"
}

// takeCleanupLog returns the linearised log of the cleanup closures' operations; only the
// instrumented scratch copy of package testscript provides one (see scratch.go).
var takeCleanupLog = func() []string { return nil }

// ---------------------------------------------------------------- testscript.T with testing's semantics

type vT struct {
	name    string
	root    *vRoot
	parent  *vT
	mu      sync.Mutex
	logs    []string
	failed  bool
	skipped bool
	panicV  string
	paused  chan struct{} // closed when the subtest calls Parallel or ends
	once    sync.Once
	done    chan struct{}
	doneAt  time.Time
	onLog   func(t *vT, first bool)
	nLog    int
}

type vRoot struct {
	sequential bool // subtests run one after the other, like cmd/testscript's runT or `go test -parallel 1`
	verbose    bool
	release    chan struct{} // closed when the parent function (RunT) has returned
	mu         sync.Mutex
	subs       []*vT
	seq        int64
	hook       func(t *vT, first bool)
}

func (r *vRoot) next() int64 {
	r.mu.Lock()
	defer r.mu.Unlock()
	r.seq++
	return r.seq
}

type rootFatal struct{ msg string }

func (t *vT) Log(a ...any) {
	t.mu.Lock()
	t.logs = append(t.logs, fmt.Sprint(a...))
	t.nLog++
	first := t.nLog == 1
	t.mu.Unlock()
	if t.parent != nil && t.root.hook != nil {
		t.root.hook(t, first)
	}
}
func (t *vT) Skip(a ...any) {
	t.mu.Lock()
	t.logs = append(t.logs, fmt.Sprint(a...))
	t.skipped = true
	t.mu.Unlock()
	runtime.Goexit()
}
func (t *vT) Fatal(a ...any) {
	t.mu.Lock()
	t.logs = append(t.logs, fmt.Sprint(a...))
	t.mu.Unlock()
	t.FailNow()
}
func (t *vT) FailNow() {
	t.mu.Lock()
	t.failed = true
	t.mu.Unlock()
	if t.parent == nil {
		panic(rootFatal{strings.Join(t.logs, "\n")})
	}
	runtime.Goexit()
}
func (t *vT) Verbose() bool { return t.root.verbose }

// Parallel: signal the parent that this subtest is paused, then wait until the parent function
// has returned (testing releases parallel subtests when the parent's function is done).
func (t *vT) Parallel() {
	if t.root.sequential {
		return
	}
	t.once.Do(func() { close(t.paused) })
	<-t.root.release
}

// Run starts f in a goroutine of its own and returns when it has finished or called Parallel.
func (t *vT) Run(name string, f func(testscript.T)) {
	sub := &vT{name: name, root: t.root, parent: t, paused: make(chan struct{}), done: make(chan struct{})}
	t.root.mu.Lock()
	t.root.subs = append(t.root.subs, sub)
	t.root.mu.Unlock()
	go func() {
		defer func() {
			sub.doneAt = time.Now()
			sub.once.Do(func() { close(sub.paused) })
			close(sub.done)
		}()
		defer func() {
			// a panic that is not runtime.Goexit: record it, the subtest failed
			if r := recover(); r != nil {
				sub.mu.Lock()
				sub.failed = true
				sub.panicV = fmt.Sprint(r)
				sub.mu.Unlock()
			}
		}()
		f(sub)
	}()
	if t.root.sequential {
		<-sub.done
		return
	}
	<-sub.paused
}

func (t *vT) verdict() string {
	t.mu.Lock()
	defer t.mu.Unlock()
	switch {
	case t.failed:
		return "fail"
	case t.skipped:
		return "skip"
	}
	return "pass"
}

// ---------------------------------------------------------------- helper log

// Every helper process appends single lines (one write each, O_APPEND) to $VH_LOG:
//
//	started <script> <label> <kind> <pid> <unix ns>
//	sig     <script> <label> <pid> <unix ns> <signal>
//	exit    <script> <label> <pid> <unix ns>
//	report  <script> <pid> <json {cwd, env}>
func appendLog(path, line string) {
	f, err := os.OpenFile(path, os.O_WRONLY|os.O_APPEND|os.O_CREATE, 0o666)
	if err != nil {
		return
	}
	f.WriteString(line + "\n")
	f.Close()
}

func readLog(path string) [][]string {
	data, err := os.ReadFile(path)
	if err != nil {
		return nil
	}
	var out [][]string
	for _, l := range strings.Split(string(data), "\n") {
		if l == "" {
			continue
		}
		out = append(out, strings.SplitN(l, " ", 7))
	}
	return out
}

// helpersOf returns the helpers of one script in start order, from the log.
func helpersOf(lines [][]string, script string) []helperObs {
	var hs []helperObs
	idx := map[string]int{}
	for _, f := range lines {
		if len(f) < 5 || f[1] != script {
			continue
		}
		switch f[0] {
		case "started":
			if len(f) >= 6 {
				pid, _ := strconv.Atoi(f[4])
				ns, _ := strconv.ParseInt(f[5], 10, 64)
				idx[f[2]] = len(hs)
				hs = append(hs, helperObs{Label: f[2], Kind: f[3], Pid: pid, StartNs: ns})
			}
		case "sig":
			if i, ok := idx[f[2]]; ok && hs[i].SigNs == 0 {
				hs[i].SigNs, _ = strconv.ParseInt(f[4], 10, 64)
			}
		case "exit":
			if i, ok := idx[f[2]]; ok {
				hs[i].ExitNs, _ = strconv.ParseInt(f[4], 10, 64)
			}
		}
	}
	return hs
}

func pidAlive(pid int) bool {
	if pid <= 0 {
		return false
	}
	err := syscall.Kill(pid, 0)
	return err == nil || err == syscall.EPERM
}

// pidRunning is pidAlive minus zombies (a zombie has exited: only its parent has not reaped it),
// and only if the process still is one of our helpers (pids are recycled on a busy machine).
func pidRunning(pid int) bool {
	if !pidAlive(pid) {
		return false
	}
	if cl, err := os.ReadFile(fmt.Sprintf("/proc/%d/cmdline", pid)); err == nil && len(cl) > 0 {
		argv0 := string(cl)
		if i := strings.IndexByte(argv0, 0); i >= 0 {
			argv0 = argv0[:i]
		}
		if filepath.Base(argv0) != "vh" {
			return false
		}
	}
	data, err := os.ReadFile(fmt.Sprintf("/proc/%d/stat", pid))
	if err != nil {
		return false
	}
	s := string(data)
	if i := strings.LastIndex(s, ")"); i >= 0 && i+2 < len(s) {
		return s[i+2] != 'Z' && s[i+2] != 'X'
	}
	return true
}

// ---------------------------------------------------------------- the helper program `vh`

func helperMain(args []string) {
	logPath, script := os.Getenv("VH_LOG"), os.Getenv("VH_SCRIPT")
	now := func() string { return strconv.FormatInt(time.Now().UnixNano(), 10) }
	pid := strconv.Itoa(os.Getpid())
	if len(args) == 0 {
		os.Exit(2)
	}
	// safety net: no helper outlives the run by more than this, whatever happens to the harness
	time.AfterFunc(90*time.Second, func() { os.Exit(7) })
	switch args[0] {
	case "report":
		cwd, _ := os.Getwd()
		var env [][2]string
		for _, kv := range os.Environ() {
			i := strings.Index(kv[1:], "=") + 1 // a name may start with '='? not on unix; names like "/" ":" "$" are kept
			env = append(env, [2]string{kv[:i], kv[i+1:]})
		}
		data, _ := json.Marshal(map[string]any{"cwd": cwd, "env": env})
		appendLog(logPath, "report "+script+" "+pid+" "+string(data))
		fmt.Println("reported")
		os.Exit(0)
	case "bg": // bg <kind s|o|b> <label>
		if len(args) < 3 {
			os.Exit(2)
		}
		kind, label := args[1], args[2]
		c := make(chan os.Signal, 4)
		signal.Notify(c, os.Interrupt)
		appendLog(logPath, "started "+script+" "+label+" "+kind+" "+pid+" "+now())
		code := 0
		if kind == "b" {
			code = 1
		}
		var timeout <-chan time.Time
		if kind != "s" {
			timeout = time.After(25 * time.Millisecond)
		}
		select {
		case <-c:
			appendLog(logPath, "sig "+script+" "+label+" "+pid+" "+now()+" int")
		case <-timeout:
		}
		appendLog(logPath, "exit "+script+" "+label+" "+pid+" "+now())
		os.Exit(code)
	case "dl": // dl <kind quit|ignore|default|early> <label> [ms]
		if len(args) < 3 {
			os.Exit(2)
		}
		kind, label := args[1], args[2]
		c := make(chan os.Signal, 4)
		if kind != "default" {
			signal.Notify(c, syscall.SIGQUIT, os.Interrupt)
		}
		appendLog(logPath, "started "+script+" "+label+" "+kind+" "+pid+" "+now())
		fmt.Println("helper running")
		switch kind {
		case "early":
			ms := 0
			if len(args) >= 4 {
				ms, _ = strconv.Atoi(args[3])
			}
			select {
			case s := <-c:
				appendLog(logPath, "sig "+script+" "+label+" "+pid+" "+now()+" "+s.String())
				os.Exit(3)
			case <-time.After(time.Duration(ms) * time.Millisecond):
			}
			appendLog(logPath, "exit "+script+" "+label+" "+pid+" "+now())
			os.Exit(0)
		case "quit":
			s := <-c
			appendLog(logPath, "sig "+script+" "+label+" "+pid+" "+now()+" "+s.String())
			os.Exit(3)
		case "ignore":
			for {
				select {
				case s := <-c:
					appendLog(logPath, "sig "+script+" "+label+" "+pid+" "+now()+" "+s.String())
				case <-time.After(30 * time.Second):
					os.Exit(8)
				}
			}
		default: // Go's default disposition: SIGQUIT prints the goroutine dump and exits 2
			time.Sleep(30 * time.Second)
			os.Exit(8)
		}
	}
	os.Exit(2)
}

// ---------------------------------------------------------------- worker

func relTree(dir string) ([]string, bool) {
	var out []string
	ok := true
	err := filepath.WalkDir(dir, func(p string, d fs.DirEntry, err error) error {
		if err != nil {
			ok = false
			return nil
		}
		rel, _ := filepath.Rel(dir, p)
		if rel == "." {
			return nil
		}
		if d.IsDir() {
			out = append(out, encPath(rel)+"=d")
		} else {
			data, err := os.ReadFile(p)
			if err != nil {
				ok = false
			}
			out = append(out, encPath(rel)+"=f"+hx(string(data)))
		}
		return nil
	})
	if err != nil {
		ok = false
	}
	sort.Strings(out)
	return out, ok
}

func workerMain() {
	var spec batchSpec
	if err := json.NewDecoder(bufio.NewReader(os.Stdin)).Decode(&spec); err != nil {
		fmt.Fprintln(os.Stderr, "worker: bad spec:", err)
		os.Exit(2)
	}
	obs := runBatch(&spec)
	data, _ := json.Marshal(obs)
	os.Stdout.Write(data)
}

func runBatch(spec *batchSpec) *batchObs {
	out := &batchObs{Uid: os.Getuid()}
	for _, kv := range os.Environ() {
		i := strings.Index(kv, "=")
		out.HostEnv = append(out.HostEnv, [2]string{kv[:i], kv[i+1:]})
	}
	logPath := filepath.Join(spec.Dir, "vh.log")
	binDir := filepath.Join(spec.Dir, "bin")
	byFile := map[string]*scriptSpec{}
	var files []string
	for i := range spec.Scripts {
		s := &spec.Scripts[i]
		byFile[filepath.Join(spec.Dir, s.File)] = s
		files = append(files, filepath.Join(spec.Dir, s.File))
	}

	type perScript struct {
		mu         sync.Mutex
		spec       *scriptSpec
		workdir    string
		probes     []probeObs
		deferred   []deferObs
		registered []int
		logSeq     int64
		flushAlive []int
		flushTree  []string
		flushOK    bool
		t          testscript.T
	}
	var mu sync.Mutex
	scripts := map[string]*perScript{} // by workdir base name "script-<name>"
	get := func(workdir string) *perScript {
		mu.Lock()
		defer mu.Unlock()
		k := filepath.Base(workdir)
		p := scripts[k]
		if p == nil {
			p = &perScript{workdir: workdir}
			scripts[k] = p
		}
		return p
	}
	root := &vRoot{verbose: spec.Verbose, sequential: spec.Sequential, release: make(chan struct{})}
	scriptOf := func(workdir string) string { return strings.TrimPrefix(filepath.Base(workdir), "script-") }
	sigAlive := func(name string) []int {
		var alive []int
		for i, h := range helpersOf(readLog(logPath), name) {
			if h.Kind == "s" && pidAlive(h.Pid) {
				alive = append(alive, i)
			}
		}
		return alive
	}

	params := testscript.Params{
		Files:              files,
		ContinueOnError:    spec.ContinueOnError,
		RequireUniqueNames: spec.UniqueNames,
		TestWork:           spec.TestWork,
		Setup: func(env *testscript.Env) error {
			p := get(env.WorkDir)
			name := scriptOf(env.WorkDir)
			env.Vars = append(env.Vars, "PATH="+binDir+string(os.PathListSeparator)+os.Getenv("PATH"), "VH_LOG="+logPath, "VH_SCRIPT="+name)
			for _, kv := range spec.SetupEnv {
				env.Setenv(kv[0], kv[1])
			}
			// which spec? the one whose subtest name matches is found later through the T; here use the
			// file recorded by RunT: the work dir name is derived from the subtest name.
			p.mu.Lock()
			sp := p.spec
			p.workdir = env.WorkDir
			p.t = env.T()
			p.mu.Unlock()
			if sp != nil {
				for _, id := range sp.SetupDefers {
					id := id
					p.registered = append(p.registered, id)
					env.Defer(func() {
						d := deferObs{ID: id, Alive: sigAlive(name), Seq: root.next()}
						p.mu.Lock()
						p.deferred = append(p.deferred, d)
						p.mu.Unlock()
					})
				}
			}
			return nil
		},
		Cmds: map[string]func(ts *testscript.TestScript, neg bool, args []string){
			"probe": func(ts *testscript.TestScript, neg bool, args []string) {
				wd := ts.Getenv("WORK")
				p := get(wd)
				cwd, err := filepath.Rel(wd, ts.MkAbs("."))
				if err != nil {
					cwd = "?" + ts.MkAbs(".")
				}
				var vals []string
				for _, k := range spec.ProbeKeys {
					vals = append(vals, ts.Getenv(k))
				}
				tree, _ := relTree(wd)
				p.mu.Lock()
				p.probes = append(p.probes, probeObs{Cwd: filepath.ToSlash(cwd), Vals: vals, Tree: tree})
				p.mu.Unlock()
			},
			"regdefer": func(ts *testscript.TestScript, neg bool, args []string) {
				if len(args) < 1 || len(args) > 2 {
					ts.Fatalf("usage: regdefer id [failnow|skip|panic]")
				}
				how := ""
				if len(args) == 2 {
					how = args[1]
				}
				id, err := strconv.Atoi(args[0])
				ts.Check(err)
				wd := ts.Getenv("WORK")
				p := get(wd)
				name := scriptOf(wd)
				p.mu.Lock()
				p.registered = append(p.registered, id)
				p.mu.Unlock()
				ts.Defer(func() {
					d := deferObs{ID: id, Alive: sigAlive(name), Seq: root.next()}
					p.mu.Lock()
					p.deferred = append(p.deferred, d)
					t := p.t
					p.mu.Unlock()
					// a cleanup function that does not return normally
					switch how {
					case "failnow":
						t.FailNow()
					case "skip":
						t.Skip("skipped by a deferred function")
					case "panic":
						panic(fmt.Sprintf("deferred panic %d", id))
					}
				})
			},
			// sync <label>: wait until the helper with that label has reported that it runs
			"sync": func(ts *testscript.TestScript, neg bool, args []string) {
				if len(args) != 1 {
					ts.Fatalf("usage: sync label")
				}
				name := scriptOf(ts.Getenv("WORK"))
				deadline := time.Now().Add(30 * time.Second)
				for time.Now().Before(deadline) {
					for _, h := range helpersOf(readLog(logPath), name) {
						if h.Label == args[0] {
							return
						}
					}
					time.Sleep(2 * time.Millisecond)
				}
				ts.Fatalf("helper %s did not start", args[0])
			},
		},
	}
	if spec.UseDir {
		params.Files = nil
		params.Dir = filepath.Join(spec.Dir, "s0")
	}
	if spec.WorkdirRoot {
		params.WorkdirRoot = filepath.Join(spec.Dir, "wroot")
		os.MkdirAll(params.WorkdirRoot, 0o777)
	}

	// The Setup hook needs the script's spec (for its Setup-registered defers); the subtest name
	// → file association is RunT's, so derive it the way RunT does and check it against what the
	// T sees (names must be distinct; the parent re-checks).
	names := map[string]bool{}
	for _, f := range files {
		name := filepath.Base(f)
		name = strings.TrimSuffix(strings.TrimSuffix(name, ".txt"), ".txtar")
		prefix := name
		for i := 1; names[name]; i++ {
			name = prefix + "#" + strconv.Itoa(i)
		}
		names[name] = true
		p := &perScript{spec: byFile[f]}
		scripts["script-"+name] = p
	}

	gotmp := os.Getenv("GOTMPDIR")
	if gotmp == "" {
		gotmp = os.TempDir()
	}
	findRoot := func() string {
		if spec.WorkdirRoot {
			return params.WorkdirRoot
		}
		ents, _ := os.ReadDir(gotmp)
		for _, e := range ents {
			if strings.HasPrefix(e.Name(), "go-test-script") {
				return filepath.Join(gotmp, e.Name())
			}
		}
		return ""
	}
	root.hook = func(t *vT, first bool) {
		if !first {
			return
		}
		// run's deferred block flushes the log as its last action: snapshot the script's world now
		r := findRoot()
		mu.Lock()
		p := scripts["script-"+t.name]
		mu.Unlock()
		if p == nil || r == "" {
			return
		}
		wd := filepath.Join(r, "script-"+t.name)
		var alive []int
		for i, h := range helpersOf(readLog(logPath), t.name) {
			if pidAlive(h.Pid) {
				alive = append(alive, i)
			}
		}
		tree, ok := relTree(wd)
		p.mu.Lock()
		p.workdir = wd
		p.logSeq = root.next()
		p.flushAlive, p.flushTree, p.flushOK = alive, tree, ok
		p.mu.Unlock()
	}

	rootT := &vT{name: "root", root: root}
	t0 := time.Now()
	out.T0Unix = t0.UnixNano()
	if spec.DeadlineMs > 0 {
		params.Deadline = t0.Add(time.Duration(spec.DeadlineMs) * time.Millisecond)
	}
	func() {
		defer func() {
			if r := recover(); r != nil {
				if rf, ok := r.(rootFatal); ok {
					out.RootFatal = rf.msg
				} else {
					out.RootFatal = fmt.Sprint("panic: ", r)
				}
			}
		}()
		testscript.RunT(rootT, params)
	}()
	out.ReturnNs = time.Since(t0).Nanoseconds()
	out.Root = findRoot()
	close(root.release)
	root.mu.Lock()
	subs := append([]*vT{}, root.subs...)
	root.mu.Unlock()
	for _, s := range subs {
		<-s.done
	}
	out.AllDoneNs = time.Since(t0).Nanoseconds()

	lines := readLog(logPath)
	for i, s := range subs {
		mu.Lock()
		p := scripts["script-"+s.name]
		mu.Unlock()
		so := scriptObs{Name: s.name, Verdict: s.verdict(), Panic: s.panicV, LogCalls: s.nLog, Log: strings.Join(s.logs, "\n"), DoneNs: s.doneAt.Sub(t0).Nanoseconds()}
		if i < len(files) {
			so.File = files[i]
		}
		if p != nil {
			p.mu.Lock()
			so.Workdir, so.Probes, so.Deferred, so.Registered = p.workdir, p.probes, p.deferred, p.registered
			so.LogSeq, so.FlushAlive, so.FlushTree, so.FlushOK = p.logSeq, p.flushAlive, p.flushTree, p.flushOK
			p.mu.Unlock()
		}
		so.Helpers = helpersOf(lines, s.name)
		for _, f := range lines {
			if f[0] == "report" && len(f) >= 4 && f[1] == s.name {
				var r struct {
					Cwd string      `json:"cwd"`
					Env [][2]string `json:"env"`
				}
				json.Unmarshal([]byte(strings.Join(f[3:], " ")), &r)
				so.Reports = append(so.Reports, reportObs{Cwd: r.Cwd, Env: r.Env})
			}
		}
		out.Scripts = append(out.Scripts, so)
	}
	out.CleanupLog = takeCleanupLog()
	// leaked goroutines of waitOrStop would still be blocked on errc now
	time.Sleep(20 * time.Millisecond)
	out.Goroutines = runtime.NumGoroutine()
	return out
}
