// tslife group binary: `tslife factgen ...` and `tslife corr ...` (properties C04, C17).
//
// The same binary is also the helper program of the generated scripts: when it is invoked
// through a link named `vh` (put on the scripts' PATH by Params.Setup) it behaves as the
// helper process (see helperMain), and `tslife worker` runs one batch of scripts through
// testscript.RunT in a process of its own (private GOTMPDIR, host probe variables).
package main

import (
	"fmt"
	"os"
	"path/filepath"
	"strings"

	"verif/harness/internal/corr"
	"verif/harness/internal/fact"
)

func main() {
	if filepath.Base(os.Args[0]) == "vh" {
		helperMain(os.Args[1:])
		return
	}
	if len(os.Args) < 2 {
		fmt.Fprintln(os.Stderr, "usage: tslife factgen|corr [flags]")
		os.Exit(2)
	}
	switch os.Args[1] {
	case "factgen":
		for i, a := range os.Args[2:] {
			if (a == "-out" || a == "--out") && i+3 < len(os.Args) {
				factOutDir = os.Args[i+3]
			} else if strings.HasPrefix(a, "-out=") || strings.HasPrefix(a, "--out=") {
				factOutDir = a[strings.Index(a, "=")+1:]
			}
		}
		fact.Main(os.Args[2:], "tslife", "TsLife", genTsLife)
	case "corr":
		corr.Main(os.Args[2:], runTsLife)
	case "worker":
		workerMain()
	default:
		fmt.Fprintln(os.Stderr, "usage: tslife factgen|corr [flags]")
		os.Exit(2)
	}
}
