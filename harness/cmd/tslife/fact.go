package main

import (
	"fmt"
	"go/ast"
	"go/token"
	"strconv"
	"strings"

	"verif/harness/internal/fact"
)

// genTsLife extracts, by function name and syntactic shape, the constants, tables and deciding
// expressions of the testscript life cycle (RunT's deadline arithmetic and reference-counted
// cleanup, setup's environment, run's deferred blocks, Defer's chaining, exec / waitOrStop /
// cmdExec) that GIV.Model.TsLife uses.
func genTsLife(g *fact.Gen) {
	const ts = "testscript/testscript.go"
	const cmd = "testscript/cmd.go"

	ordered := func(src string, needles ...string) bool {
		pos := 0
		for _, n := range needles {
			i := strings.Index(src[pos:], n)
			if i < 0 {
				return false
			}
			pos += i + len(n)
		}
		return true
	}
	body := func(fd *ast.FuncDecl) string {
		if fd == nil || fd.Body == nil {
			return ""
		}
		return g.Src(fd.Body)
	}
	// shapeOf emits a Bool: true when `yes` matches (ordered needles), false when `no` matches,
	// lost (pinned) when neither is recognised.
	shape := func(name, doc string, pinned bool, fd *ast.FuncDecl, fname string, yes []string, no ...[]string) {
		g.EmitBool(name, doc, pinned, func() (bool, bool, string) {
			if fd == nil {
				return false, false, "func " + fname + " not found"
			}
			s := body(fd)
			if ordered(s, yes...) {
				return true, true, ""
			}
			for _, alt := range no {
				if ordered(s, alt...) {
					return false, true, ""
				}
			}
			if len(no) == 0 {
				return false, true, ""
			}
			return false, false, "unrecognised shape in " + fname
		})
	}
	emitInt := func(name, doc string, pinned int64, f func() (int64, bool, string)) {
		v, ok, why := f()
		if !ok {
			v = pinned
			g.Lost(name, why)
		} else {
			g.Found(name, strconv.FormatInt(v, 10))
		}
		if v < 0 {
			g.Emit("/-- %s -/\ndef %s : Int := (%d)\n", doc, name, v)
		} else {
			g.Emit("/-- %s -/\ndef %s : Int := %d\n", doc, name, v)
		}
	}
	emitStr := func(name, doc, pinned string, f func() (string, bool, string)) {
		v, ok, why := f()
		if !ok {
			v = pinned
			g.Lost(name, why)
		} else {
			g.Found(name, strconv.Quote(v))
		}
		g.Emit("/-- %s -/\ndef %s : String := %s\n", doc, name, strconv.Quote(v))
	}
	intLit := func(e ast.Expr) (int64, bool) {
		neg := false
		if u, ok := e.(*ast.UnaryExpr); ok && u.Op == token.SUB {
			neg = true
			e = u.X
		}
		if p, ok := e.(*ast.ParenExpr); ok {
			e = p.X
		}
		bl, ok := e.(*ast.BasicLit)
		if !ok || bl.Kind != token.INT {
			return 0, false
		}
		v, err := strconv.ParseInt(bl.Value, 0, 64)
		if err != nil {
			return 0, false
		}
		if neg {
			v = -v
		}
		return v, true
	}
	unitNs := map[string]int64{"time.Nanosecond": 1, "time.Microsecond": 1e3, "time.Millisecond": 1e6, "time.Second": 1e9, "time.Minute": 60e9, "time.Hour": 3600e9}
	// durationNs evaluates `N * time.Unit`, `time.Unit * N` or `time.Unit`.
	durationNs := func(e ast.Expr) (int64, bool) {
		if u, ok := unitNs[g.Src(e)]; ok {
			return u, true
		}
		be, ok := e.(*ast.BinaryExpr)
		if !ok || be.Op != token.MUL {
			return 0, false
		}
		if n, ok := intLit(be.X); ok {
			if u, ok := unitNs[g.Src(be.Y)]; ok {
				return n * u, true
			}
		}
		if n, ok := intLit(be.Y); ok {
			if u, ok := unitNs[g.Src(be.X)]; ok {
				return n * u, true
			}
		}
		return 0, false
	}

	// ------------------------------------------------------------------ RunT: deadline arithmetic
	runT := g.FuncDecl(ts, "RunT")
	var deadlineIf *ast.IfStmt // if !p.Deadline.IsZero() { ... }
	if runT != nil {
		for _, st := range runT.Body.List {
			if is, ok := st.(*ast.IfStmt); ok && g.Src(is.Cond) == "!p.Deadline.IsZero()" {
				deadlineIf = is
			}
		}
	}
	emitInt("defaultGraceNs", "RunT: `gracePeriod = 100 * time.Millisecond` — the default and minimum grace period, in nanoseconds.", 100e6, func() (int64, bool, string) {
		if runT == nil {
			return 0, false, "func RunT not found"
		}
		var v int64
		found := false
		ast.Inspect(runT.Body, func(n ast.Node) bool {
			if vs, ok := n.(*ast.ValueSpec); ok {
				for i, nm := range vs.Names {
					if nm.Name == "gracePeriod" && i < len(vs.Values) {
						if d, ok := durationNs(vs.Values[i]); ok {
							v, found = d, true
						}
					}
				}
			}
			return true
		})
		if !found {
			return 0, false, "no `gracePeriod = N * time.Unit` declaration in RunT"
		}
		return v, true, ""
	})
	var graceIf *ast.IfStmt // if gp := timeout / 20; gp > gracePeriod { gracePeriod = gp }
	var subStmt *ast.AssignStmt
	var ctxStmt ast.Stmt
	subIdx, graceIdx, ctxIdx, untilIdx := -1, -1, -1, -1
	if deadlineIf != nil {
		for i, st := range deadlineIf.Body.List {
			switch s := st.(type) {
			case *ast.IfStmt:
				if s.Init != nil && strings.HasPrefix(g.Src(s.Init), "gp:=timeout/") {
					graceIf, graceIdx = s, i
				}
			case *ast.AssignStmt:
				src := g.Src(s)
				if s.Tok == token.SUB_ASSIGN && strings.HasPrefix(src, "timeout-=") {
					subStmt, subIdx = s, i
				}
				if strings.HasPrefix(src, "ctx,cancel=context.WithTimeout(ctx,timeout)") {
					ctxStmt, ctxIdx = s, i
				}
				if src == "timeout:=time.Until(p.Deadline)" {
					untilIdx = i
				}
			}
		}
	}
	_ = ctxStmt
	emitInt("graceDivisor", "RunT: `gp := timeout / 20` — the grace period grows to 1/20 (5%) of the remaining time.", 20, func() (int64, bool, string) {
		if graceIf == nil {
			return 0, false, "`if gp := timeout / N; …` not found in RunT's deadline block"
		}
		as, ok := graceIf.Init.(*ast.AssignStmt)
		if !ok || len(as.Rhs) != 1 {
			return 0, false, "unexpected init"
		}
		be, ok := as.Rhs[0].(*ast.BinaryExpr)
		if !ok || be.Op != token.QUO {
			return 0, false, "not a division"
		}
		n, ok := intLit(be.Y)
		if !ok || n <= 0 {
			return 0, false, "divisor not a positive literal"
		}
		return n, true, ""
	})
	g.EmitBool("graceCmpStrict", "RunT: the grace period is replaced when `gp > gracePeriod` (true) / `gp >= gracePeriod` (false), and the body is `gracePeriod = gp`.", true, func() (bool, bool, string) {
		if graceIf == nil {
			return false, false, "grace if not found"
		}
		if g.Src(graceIf.Body) != "{gracePeriod=gp}" || graceIf.Else != nil {
			return false, false, "body is not `gracePeriod = gp`"
		}
		switch g.Src(graceIf.Cond) {
		case "gp>gracePeriod":
			return true, true, ""
		case "gp>=gracePeriod":
			return false, true, ""
		}
		return false, false, "unrecognised comparison " + g.Src(graceIf.Cond)
	})
	emitInt("reservedGraces", "RunT: `timeout -= 2 * gracePeriod` — number of grace periods reserved before the deadline.", 2, func() (int64, bool, string) {
		if subStmt == nil || len(subStmt.Rhs) != 1 {
			return 0, false, "`timeout -= N * gracePeriod` not found"
		}
		be, ok := subStmt.Rhs[0].(*ast.BinaryExpr)
		if ok && be.Op == token.MUL {
			if n, ok := intLit(be.X); ok && g.Src(be.Y) == "gracePeriod" {
				return n, true, ""
			}
			if n, ok := intLit(be.Y); ok && g.Src(be.X) == "gracePeriod" {
				return n, true, ""
			}
		}
		if g.Src(subStmt.Rhs[0]) == "gracePeriod" {
			return 1, true, ""
		}
		return 0, false, "unrecognised right-hand side " + g.Src(subStmt.Rhs[0])
	})
	g.EmitBool("deadlineOrder", "RunT: inside `if !p.Deadline.IsZero()`: `timeout := time.Until(p.Deadline)`, then the grace adjustment, then `timeout -= …`, then `ctx, cancel = context.WithTimeout(ctx, timeout)`.", true, func() (bool, bool, string) {
		if deadlineIf == nil {
			return false, false, "`if !p.Deadline.IsZero()` not found in RunT"
		}
		if untilIdx < 0 || graceIdx < 0 || subIdx < 0 || ctxIdx < 0 {
			return false, false, "one of the four statements not found"
		}
		return untilIdx < graceIdx && graceIdx < subIdx && subIdx < ctxIdx, true, ""
	})
	shape("tsGetsCtxAndGrace", "RunT: every TestScript is built with `ctxt: ctx` and `gracePeriod: gracePeriod` (the per-run context and grace period).", true, runT, "RunT",
		[]string{"ts:=&TestScript{", "ctxt:ctx,", "gracePeriod:gracePeriod,"})

	// ------------------------------------------------------------------ RunT: work root and reference-counted cleanup
	shape("rootIsMkdirTempInGOTMPDIR", "RunT: without WorkdirRoot the root is `os.MkdirTemp(os.Getenv(\"GOTMPDIR\"), \"go-test-script\")`.", true, runT, "RunT",
		[]string{`iftestTempDir==""{testTempDir,err=os.MkdirTemp(os.Getenv("GOTMPDIR"),"go-test-script")`})
	shape("workdirRootImpliesTestWork", "RunT: a non-empty WorkdirRoot sets `p.TestWork = true`.", true, runT, "RunT",
		[]string{"testTempDir:=p.WorkdirRoot", `iftestTempDir==""{`, "}else{p.TestWork=true}"})
	shape("refInitIsLenFiles", "RunT: `refCount := int32(len(files))`.", true, runT, "RunT", []string{"refCount:=int32(len(files))"})
	// the deferred cleanup closure of the per-script function
	var cleanup *ast.FuncLit
	var perScript *ast.FuncLit
	if runT != nil {
		ast.Inspect(runT.Body, func(n ast.Node) bool {
			if ce, ok := n.(*ast.CallExpr); ok && g.Src(ce.Fun) == "t.Run" && len(ce.Args) == 2 {
				if fl, ok := ce.Args[1].(*ast.FuncLit); ok {
					perScript = fl
				}
			}
			return true
		})
	}
	if perScript != nil {
		for _, st := range perScript.Body.List {
			if ds, ok := st.(*ast.DeferStmt); ok {
				if fl, ok := ds.Call.Fun.(*ast.FuncLit); ok && strings.Contains(g.Src(fl.Body), "refCount") {
					cleanup = fl
				}
			}
		}
	}
	cleanupSrc := ""
	if cleanup != nil {
		cleanupSrc = g.Src(cleanup.Body)
	}
	needCleanup := func(f func() (bool, bool, string)) func() (bool, bool, string) {
		return func() (bool, bool, string) {
			if cleanup == nil {
				return false, false, "deferred cleanup closure (mentions refCount) not found in the t.Run function of RunT"
			}
			return f()
		}
	}
	g.EmitBool("cleanupDeferredBeforeRun", "RunT's per-script function: `t.Parallel()`, then the TestScript value, then `defer func() { …cleanup… }()`, then `ts.run()`.", true, func() (bool, bool, string) {
		if perScript == nil {
			return false, false, "t.Run(name, func(t T) {…}) not found in RunT"
		}
		s := g.Src(perScript.Body)
		return ordered(s, "t.Parallel()", "ts:=&TestScript{", "deferfunc(){", "refCount", "}()", "ts.run()"), true, ""
	})
	g.EmitBool("retainReturnsFirst", "cleanup: the first statement is `if p.TestWork || *testWork { return }` — nothing is removed when retention is requested.", true, needCleanup(func() (bool, bool, string) {
		return strings.HasPrefix(cleanupSrc, "{ifp.TestWork||*testWork{return}"), true, ""
	}))
	g.EmitBool("decAfterRemoveAll", "cleanup: `removeAll(ts.workdir)` precedes `atomic.AddInt32(&refCount, -1)` (true) or follows it (false).", true, needCleanup(func() (bool, bool, string) {
		i := strings.Index(cleanupSrc, "removeAll(ts.workdir)")
		j := strings.Index(cleanupSrc, "atomic.AddInt32(&refCount,")
		if i < 0 || j < 0 {
			return false, false, "removeAll(ts.workdir) or atomic.AddInt32(&refCount, …) not found"
		}
		return i < j, true, ""
	}))
	emitInt("refDelta", "cleanup: the value added to refCount by `atomic.AddInt32(&refCount, -1)`.", -1, func() (int64, bool, string) {
		if cleanup == nil {
			return 0, false, "cleanup closure not found"
		}
		var v int64
		found := false
		ast.Inspect(cleanup.Body, func(n ast.Node) bool {
			if ce, ok := n.(*ast.CallExpr); ok && g.Src(ce.Fun) == "atomic.AddInt32" && len(ce.Args) == 2 && g.Src(ce.Args[0]) == "&refCount" {
				if d, ok := intLit(ce.Args[1]); ok {
					v, found = d, true
				}
			}
			return true
		})
		if !found {
			return 0, false, "atomic.AddInt32(&refCount, <literal>) not found"
		}
		return v, true, ""
	})
	emitInt("refZero", "cleanup: the root is removed when the result of the AddInt32 `== 0`.", 0, func() (int64, bool, string) {
		if cleanup == nil {
			return 0, false, "cleanup closure not found"
		}
		var v int64
		found := false
		ast.Inspect(cleanup.Body, func(n ast.Node) bool {
			if is, ok := n.(*ast.IfStmt); ok {
				if be, ok := is.Cond.(*ast.BinaryExpr); ok && be.Op == token.EQL && strings.HasPrefix(g.Src(be.X), "atomic.AddInt32(&refCount,") {
					if d, ok := intLit(be.Y); ok && strings.Contains(g.Src(is.Body), "os.Remove(testTempDir)") {
						v, found = d, true
					}
				}
			}
			return true
		})
		if !found {
			return 0, false, "`if atomic.AddInt32(&refCount, …) == N { os.Remove(testTempDir) … }` not found"
		}
		return v, true, ""
	})
	g.EmitBool("rootRemoveIsPlainRemove", "cleanup: the root is removed with `os.Remove(testTempDir)` (fails on a non-empty directory), not RemoveAll, and only inside the `== 0` branch.", true, needCleanup(func() (bool, bool, string) {
		if strings.Contains(cleanupSrc, "os.RemoveAll(testTempDir)") || strings.Contains(cleanupSrc, "removeAll(testTempDir)") {
			return false, true, ""
		}
		if strings.Count(cleanupSrc, "testTempDir") != 1 {
			return false, false, "testTempDir is mentioned more than once in the cleanup closure"
		}
		return ordered(cleanupSrc, "ifatomic.AddInt32(&refCount,", "{", "os.Remove(testTempDir)"), true, ""
	}))
	g.EmitBool("cancelAfterRootRemove", "cleanup: `if cancel != nil { cancel() }` follows `os.Remove(testTempDir)` inside the `== 0` branch.", true, needCleanup(func() (bool, bool, string) {
		return ordered(cleanupSrc, "ifatomic.AddInt32(&refCount,", "os.Remove(testTempDir)", "ifcancel!=nil{cancel()}"), true, ""
	}))
	removeAll := g.FuncDecl(ts, "removeAll")
	shape("removeAllChmodsDirs", "removeAll walks the tree making every directory 0o777 (`if entry.IsDir() { os.Chmod(path, 0o777) }`, walk errors ignored) and then calls `os.RemoveAll(dir)`.", true, removeAll, "removeAll",
		[]string{"filepath.WalkDir(dir,", "iferr!=nil{returnnil}", "ifentry.IsDir(){os.Chmod(path,0o777)}", "returnos.RemoveAll(dir)"})

	// ------------------------------------------------------------------ setup: environment from scratch
	setup := g.Method(ts, "TestScript", "setup")
	retOf := func(fname string) (string, bool) { // the `default:` return of homeEnvName / tempEnvName
		fd := g.FuncDecl(ts, fname)
		if fd == nil {
			return "", false
		}
		val, ok := "", false
		ast.Inspect(fd.Body, func(n ast.Node) bool {
			if cc, isCC := n.(*ast.CaseClause); isCC && cc.List == nil && len(cc.Body) == 1 {
				if rs, isRet := cc.Body[0].(*ast.ReturnStmt); isRet && len(rs.Results) == 1 {
					val, ok = fact.StringLit(rs.Results[0])
				}
			}
			return true
		})
		return val, ok
	}
	type kv struct{ k, src string }
	var vars []kv
	varsOK := false
	why := "func setup not found"
	if setup != nil {
		why = "`Vars: []string{…}` literal not found in setup"
		ast.Inspect(setup.Body, func(n ast.Node) bool {
			kvx, ok := n.(*ast.KeyValueExpr)
			if !ok || g.Src(kvx.Key) != "Vars" {
				return true
			}
			cl, ok := kvx.Value.(*ast.CompositeLit)
			if !ok {
				return true
			}
			varsOK = true
			for _, e := range cl.Elts {
				// forms: "NAME=" + expr | "NAME=value" | f() + "=value" | f() + "=" + expr
				var parts []ast.Expr
				var flat func(x ast.Expr)
				flat = func(x ast.Expr) {
					if be, ok := x.(*ast.BinaryExpr); ok && be.Op == token.ADD {
						flat(be.X)
						flat(be.Y)
						return
					}
					parts = append(parts, x)
				}
				flat(e)
				name, rest := "", ""
				idx := 0
				if s, ok := fact.StringLit(parts[0]); ok {
					i := strings.Index(s[1:], "=") // a name may itself be "=": not here; "$=$", "/=", ":="
					if strings.HasPrefix(s, "=") || i < 0 {
						varsOK, why = false, "element without NAME= prefix: "+g.Src(e)
						return false
					}
					name, rest = s[:i+1], s[i+2:]
					idx = 1
				} else if ce, ok := parts[0].(*ast.CallExpr); ok && len(ce.Args) == 0 && len(parts) >= 2 {
					fn := g.Src(ce.Fun)
					v, ok := retOf(fn)
					s, ok2 := fact.StringLit(parts[1])
					if !ok || !ok2 || !strings.HasPrefix(s, "=") {
						varsOK, why = false, "unrecognised element "+g.Src(e)
						return false
					}
					name, rest = v, s[1:]
					idx = 2
				} else {
					varsOK, why = false, "unrecognised element "+g.Src(e)
					return false
				}
				src := ""
				switch {
				case idx == len(parts):
					src = ".lit " + strconv.Quote(rest)
				case idx+1 == len(parts) && rest == "":
					switch x := g.Src(parts[idx]); {
					case x == "ts.workdir":
						src = ".workdir"
					case x == "tmpDir":
						src = ".tmpdir"
					case x == "os.DevNull":
						src = ".devnull"
					case x == "string(os.PathSeparator)":
						src = ".sep"
					case x == "string(os.PathListSeparator)":
						src = ".listsep"
					case strings.HasPrefix(x, "os.Getenv(") && len(parts[idx].(*ast.CallExpr).Args) == 1:
						hn, ok := fact.StringLit(parts[idx].(*ast.CallExpr).Args[0])
						if !ok {
							varsOK, why = false, "os.Getenv of a non-literal"
							return false
						}
						src = ".host " + strconv.Quote(hn)
					default:
						varsOK, why = false, "unrecognised value expression "+x
						return false
					}
				default:
					varsOK, why = false, "unrecognised element "+g.Src(e)
					return false
				}
				vars = append(vars, kv{name, src})
			}
			return false
		})
	}
	if !varsOK {
		g.Lost("documentedVars", why)
		vars = []kv{{"WORK", ".workdir"}, {"PATH", `.host "PATH"`}, {"GOTRACEBACK", `.lit "system"`}, {"HOME", `.lit "/no-home"`}, {"TMPDIR", ".tmpdir"},
			{"devnull", ".devnull"}, {"/", ".sep"}, {":", ".listsep"}, {"$", `.lit "$"`}}
	} else {
		var names []string
		for _, v := range vars {
			names = append(names, v.k)
		}
		g.Found("documentedVars", strings.Join(names, ","))
	}
	g.Emit("/-- where the value of an initial environment variable comes from. -/\ninductive VarSrc where\n  | lit (s : String) | workdir | tmpdir | host (name : String) | devnull | sep | listsep\n  deriving Repr, DecidableEq\n")
	{
		var elts []string
		for _, v := range vars {
			elts = append(elts, fmt.Sprintf("(%s, %s)", strconv.Quote(v.k), v.src))
		}
		g.Emit("/-- setup: the `Vars: []string{…}` literal of the initial Env, in source order (unix names for homeEnvName()/tempEnvName()). -/\ndef documentedVars : List (String × VarSrc) := [%s]\n", strings.Join(elts, ", "))
	}
	{
		var names []string
		ok := false
		guardOK := false
		if setup != nil {
			ast.Inspect(setup.Body, func(n ast.Node) bool {
				rs, isRange := n.(*ast.RangeStmt)
				if !isRange {
					return true
				}
				cl, isCL := rs.X.(*ast.CompositeLit)
				if !isCL || g.Src(cl.Type) != "[]string" {
					return true
				}
				if !strings.Contains(g.Src(rs.Body), "env.Vars=append(env.Vars,name+\"=\"+val)") {
					return true
				}
				ok = true
				for _, e := range cl.Elts {
					s, isStr := fact.StringLit(e)
					if !isStr {
						ok = false
					}
					names = append(names, s)
				}
				guardOK = strings.Contains(g.Src(rs.Body), `ifval:=os.Getenv(name);val!=""{env.Vars=append(env.Vars,name+"="+val)}`)
				return false
			})
		}
		if !ok {
			names = []string{"GOCOVERDIR", "GORACE"}
			g.Lost("passthroughVars", "`for _, name := range []string{…} { if val := os.Getenv(name); val != \"\" { env.Vars = append(…) } }` not found in setup")
		} else {
			g.Found("passthroughVars", strings.Join(names, ","))
		}
		g.Emit("/-- setup: host variables propagated into the script environment, in source order. -/\ndef passthroughVars : List String := %s\n", fact.LeanStrList(names))
		g.EmitBool("passthroughOnlyNonEmpty", "setup: a pass-through variable is appended only `if val := os.Getenv(name); val != \"\"`.", true, func() (bool, bool, string) {
			if !ok {
				return false, false, "pass-through loop not found"
			}
			return guardOK, true, ""
		})
	}
	{
		// the non-windows tail: `} else { env.Vars = append(env.Vars, "exe=") }`
		var tail []string
		ok := false
		if setup != nil {
			for _, st := range setup.Body.List {
				is, isIf := st.(*ast.IfStmt)
				if !isIf || g.Src(is.Cond) != `runtime.GOOS=="windows"` || is.Else == nil {
					continue
				}
				eb, isBlock := is.Else.(*ast.BlockStmt)
				if !isBlock || len(eb.List) != 1 {
					continue
				}
				as, isAs := eb.List[0].(*ast.AssignStmt)
				if !isAs || len(as.Rhs) != 1 {
					continue
				}
				ce, isCall := as.Rhs[0].(*ast.CallExpr)
				if !isCall || g.Src(ce.Fun) != "append" || len(ce.Args) < 2 || g.Src(ce.Args[0]) != "env.Vars" {
					continue
				}
				ok = true
				for _, a := range ce.Args[1:] {
					s, isStr := fact.StringLit(a)
					if !isStr || !strings.Contains(s, "=") {
						ok = false
					}
					tail = append(tail, s)
				}
			}
		}
		if !ok {
			tail = []string{"exe="}
			g.Lost("unixTailVars", "`if runtime.GOOS == \"windows\" {…} else { env.Vars = append(env.Vars, \"exe=\") }` not found in setup")
		} else {
			g.Found("unixTailVars", strings.Join(tail, ","))
		}
		var elts []string
		for _, s := range tail {
			i := strings.Index(s, "=")
			elts = append(elts, fmt.Sprintf("(%s, %s)", strconv.Quote(s[:i]), strconv.Quote(s[i+1:])))
		}
		g.Emit("/-- setup: the variables appended after the pass-through ones on non-Windows systems. -/\ndef unixTailVars : List (String × String) := [%s]\n", strings.Join(elts, ", "))
	}
	shape("envOrder", "setup: the Vars literal, then the pass-through loop, then the GOOS tail, then the archive is unpacked, then `ts.params.Setup(env)` runs, then `ts.env = env.Vars`.", true, setup, "setup",
		[]string{"env:=&Env{Vars:[]string{", `for_,name:=range[]string{`, `ifruntime.GOOS=="windows"{`, "a,err:=txtar.ParseFile(ts.file)", "for_,f:=rangea.Files{", "ifts.params.Setup!=nil{ts.Check(ts.params.Setup(env))}", "ts.env=env.Vars"})
	emitStr("workdirPrefix", "setup: `ts.workdir = filepath.Join(ts.testTempDir, \"script-\"+ts.name)`.", "script-", func() (string, bool, string) {
		if setup == nil {
			return "", false, "func setup not found"
		}
		s := body(setup)
		const pre = `ts.workdir=filepath.Join(ts.testTempDir,"`
		i := strings.Index(s, pre)
		if i < 0 {
			return "", false, "workdir assignment not found"
		}
		rest := s[i+len(pre):]
		j := strings.Index(rest, `"+ts.name)`)
		if j < 0 {
			return "", false, "workdir assignment has an unrecognised shape"
		}
		return rest[:j], true, ""
	})
	emitStr("tmpDirName", "setup: `tmpDir := filepath.Join(ts.workdir, \".tmp\")`, created with MkdirAll before anything else.", ".tmp", func() (string, bool, string) {
		if setup == nil {
			return "", false, "func setup not found"
		}
		s := body(setup)
		const pre = `tmpDir:=filepath.Join(ts.workdir,"`
		i := strings.Index(s, pre)
		if i < 0 {
			return "", false, "tmpDir assignment not found"
		}
		rest := s[i+len(pre):]
		j := strings.Index(rest, `")`)
		if j < 0 || !ordered(s, pre, "ts.Check(os.MkdirAll(tmpDir,0o777))", "env:=&Env{") {
			return "", false, "tmpDir is not created before the environment is built"
		}
		return rest[:j], true, ""
	})
	shape("unpackShape", "setup: for every archive file in order: `name := ts.MkAbs(ts.expand(f.Name))`, `os.MkdirAll(filepath.Dir(name), 0o777)`, then `writeFile(name, f.Data, 0o666, ts.params.RequireUniqueNames)`; an ErrExist under RequireUniqueNames and every other error are fatal.", true, setup, "setup",
		[]string{"for_,f:=rangea.Files{", "name:=ts.MkAbs(ts.expand(f.Name))", "ts.Check(os.MkdirAll(filepath.Dir(name),0o777))", "switcherr:=writeFile(name,f.Data,0o666,ts.params.RequireUniqueNames);{",
			"casets.params.RequireUniqueNames&&errors.Is(err,fs.ErrExist):ts.Check(fmt.Errorf(", "default:ts.Check(err)"})
	writeFile := g.FuncDecl(ts, "writeFile")
	shape("writeFileExclOnly", "writeFile opens with O_WRONLY|O_CREATE|O_TRUNC and adds O_EXCL only `if excl` — later duplicates overwrite earlier entries otherwise.", true, writeFile, "writeFile",
		[]string{"oflags:=os.O_WRONLY|os.O_CREATE|os.O_TRUNC", "ifexcl{oflags|=os.O_EXCL}", "os.OpenFile(name,oflags,perm)"})
	shape("setupFailureFailsNow", "setup: `defer catchFailNow(func() { ts.t.FailNow() })` — a failing setup ends the run at once (through run's deferred blocks).", true, setup, "setup",
		[]string{"defercatchFailNow(func(){", "ts.t.FailNow()", "})"})

	// ------------------------------------------------------------------ run: deferred blocks
	run := g.Method(ts, "TestScript", "run")
	{
		var kinds []string
		ok := run != nil
		setupIdx := -1
		var defIdx []int
		bgOrder := false
		if run != nil {
			for i, st := range run.Body.List {
				switch s := st.(type) {
				case *ast.DeferStmt:
					src := g.Src(s)
					switch {
					case strings.Contains(src, "ts.t.Log(") && strings.Contains(src, "interruptProcess("):
						kinds = append(kinds, "bgflush")
						// interrupt everything, then wait for everything (both branches), then flush the log
						bgOrder = ordered(src, "for_,bg:=rangets.background{interruptProcess(bg.cmd.Process)}",
							"ifts.t.Verbose()||failed{", "ts.waitBackground(false)", "}else{for_,bg:=rangets.background{<-bg.wait}ts.background=nil}",
							"ts.t.Log(ts.abbrev(ts.log.String()))")
					case src == "deferfunc(){ts.deferred()}()" || src == "deferts.deferred()":
						kinds = append(kinds, "deferred")
					case src == "deferts.applyScriptUpdates()":
						kinds = append(kinds, "applyUpdates")
					default:
						kinds = append(kinds, "other")
						ok = false
					}
					defIdx = append(defIdx, i)
				case *ast.AssignStmt:
					if g.Src(s) == "script:=ts.setup()" {
						setupIdx = i
					}
				}
			}
		}
		if !ok || len(kinds) == 0 {
			g.Lost("runDefers", "run's top-level defer statements have an unrecognised shape")
			kinds = []string{"bgflush", "deferred", "applyUpdates"}
		} else {
			g.Found("runDefers", strings.Join(kinds, ","))
		}
		g.Emit("/-- run: its top-level `defer` statements in source (= registration) order: `bgflush` = interrupt and wait for background commands, then flush the log; `deferred` = `ts.deferred()`; `applyUpdates` = `ts.applyScriptUpdates()`. -/\ndef runDefers : List String := %s\n", fact.LeanStrList(kinds))
		g.EmitBool("setupAfterTwoDefers", "run: `script := ts.setup()` comes after the first two defer statements and before the third.", true, func() (bool, bool, string) {
			if run == nil || setupIdx < 0 || len(defIdx) < 3 {
				return false, false, "run / setup call / three defers not found"
			}
			return defIdx[1] < setupIdx && setupIdx < defIdx[2], true, ""
		})
		g.EmitBool("bgBlockOrder", "run's first deferred block: interrupt every entry of ts.background, then wait for every entry (`ts.waitBackground(false)` or `<-bg.wait` for each), then `ts.t.Log(…)`.", true, func() (bool, bool, string) {
			if run == nil || len(kinds) == 0 || kinds[0] != "bgflush" {
				return false, false, "background/log block not found as first defer"
			}
			return bgOrder, true, ""
		})
	}
	shape("endOfScriptDrains", "run: after the script loop every entry of ts.background is interrupted and `ts.waitBackground(false)` is called before the verdict.", true, run, "run",
		[]string{`forscript!=""{`, "for_,bg:=rangets.background{interruptProcess(bg.cmd.Process)}", "ts.waitBackground(false)", "iffailed{ts.t.FailNow()}"})
	interruptProcess := g.FuncDecl(ts, "interruptProcess")
	shape("bgInterruptIsOsInterrupt", "interruptProcess sends os.Interrupt and falls back to Kill when that fails.", true, interruptProcess, "interruptProcess",
		[]string{"iferr:=p.Signal(os.Interrupt);err!=nil{", "p.Kill()"})
	waitBg := g.Method(cmd, "TestScript", "waitBackground")
	shape("waitBackgroundClears", "waitBackground receives from `bg.wait` for every entry in order and sets `ts.background = nil` as its last statement (a Fatalf on a status check leaves the list in place).", true, waitBg, "waitBackground",
		[]string{"for_,bg:=rangets.background{<-bg.wait", "if!checkStatus{continue}", "ts.background=nil}"})
	deferM := g.Method(ts, "TestScript", "Defer")
	g.EmitBool("deferChainsOldLast", "Defer: `old := ts.deferred; ts.deferred = func() { defer old(); f() }` — the new function runs first, the older chain after it (true); `old(); f()` would be false.", true, func() (bool, bool, string) {
		if deferM == nil {
			return false, false, "method Defer not found"
		}
		switch body(deferM) {
		case "{old:=ts.deferred;ts.deferred=func(){deferold();f()}}", "{old:=ts.deferredts.deferred=func(){deferold()f()}}":
			return true, true, ""
		case "{old:=ts.deferredts.deferred=func(){old()f()}}", "{old:=ts.deferredts.deferred=func(){deferf()old()}}":
			return false, true, ""
		case "{old:=ts.deferredts.deferred=func(){f()old()}}":
			return true, true, ""
		}
		return false, false, "unrecognised body " + body(deferM)
	})
	shape("deferredStartsEmpty", "RunT: every TestScript starts with `deferred: func() {}`.", true, runT, "RunT", []string{"ts:=&TestScript{", "deferred:func(){},"})

	// ------------------------------------------------------------------ exec / cmdExec / waitOrStop
	execM := g.Method(ts, "TestScript", "exec")
	shape("fgKillDelayIsGrace", "exec (foreground): `if err = cmd.Start(); err == nil { err = waitOrStop(ts.ctxt, cmd, ts.gracePeriod) }`.", true, execM, "exec",
		[]string{"iferr=cmd.Start();err==nil{err=waitOrStop(ts.ctxt,cmd,ts.gracePeriod)}"})
	cmdExec := g.Method(cmd, "TestScript", "cmdExec")
	emitInt("bgKillDelay", "cmdExec (background): `waitOrStop(ts.ctxt, cmd, -1)` — no escalation to Kill.", -1, func() (int64, bool, string) {
		if cmdExec == nil {
			return 0, false, "method cmdExec not found"
		}
		var v int64
		found := false
		ast.Inspect(cmdExec.Body, func(n ast.Node) bool {
			if ce, ok := n.(*ast.CallExpr); ok && g.Src(ce.Fun) == "waitOrStop" && len(ce.Args) == 3 && g.Src(ce.Args[0]) == "ts.ctxt" {
				if d, ok := intLit(ce.Args[2]); ok {
					v, found = d, true
				}
			}
			return true
		})
		if !found {
			return 0, false, "waitOrStop(ts.ctxt, cmd, <literal>) not found in cmdExec"
		}
		return v, true, ""
	})
	shape("bgRecordedAfterStart", "cmdExec (background): only `if err == nil` after execBackground a goroutine `waitOrStop(…); close(wait)` is started and the command appended to ts.background.", true, cmdExec, "cmdExec",
		[]string{"cmd,err=ts.execBackground(", "iferr==nil{wait:=make(chanstruct{})", "gofunc(){waitOrStop(ts.ctxt,cmd,", "close(wait)}()", "ts.background=append(ts.background,backgroundCmd{bgName,cmd,wait,neg})"})
	emitStr("timedOutMsg", "cmdExec: the failure message when the context is done.", "test timed out while running command", func() (string, bool, string) {
		if cmdExec == nil {
			return "", false, "method cmdExec not found"
		}
		s := body(cmdExec)
		const pre = `ifts.ctxt.Err()!=nil{ts.Fatalf("`
		i := strings.Index(s, pre)
		if i < 0 {
			return "", false, "`if ts.ctxt.Err() != nil { ts.Fatalf(\"…\") }` not found"
		}
		// take the message from the AST to keep its spaces
		msg, ok := "", false
		ast.Inspect(cmdExec.Body, func(n ast.Node) bool {
			if is, isIf := n.(*ast.IfStmt); isIf && g.Src(is.Cond) == "ts.ctxt.Err()!=nil" && len(is.Body.List) == 1 {
				if es, isES := is.Body.List[0].(*ast.ExprStmt); isES {
					if ce, isCall := es.X.(*ast.CallExpr); isCall && g.Src(ce.Fun) == "ts.Fatalf" && len(ce.Args) == 1 {
						msg, ok = fact.StringLit(ce.Args[0])
					}
				}
			}
			return true
		})
		if !ok {
			return "", false, "message literal not found"
		}
		return msg, true, ""
	})
	shape("timeoutCheckedFirst", "cmdExec: `if err != nil { … if ts.ctxt.Err() != nil { Fatalf(timed out) } else if !neg { Fatalf(unexpected command failure) } }` — the context is consulted before (and regardless of) the negation.", true, cmdExec, "cmdExec",
		[]string{"iferr!=nil{", `ifts.ctxt.Err()!=nil{ts.Fatalf(`, `}elseif!neg{ts.Fatalf("unexpectedcommandfailure")}`})
	shape("successNegFatal", "cmdExec (foreground): `if err == nil && neg { Fatalf(unexpected command success) }`.", true, cmdExec, "cmdExec",
		[]string{`iferr==nil&&neg{ts.Fatalf("unexpectedcommandsuccess")}`})

	wos := g.FuncDecl(ts, "waitOrStop")
	var stopper *ast.FuncLit
	if wos != nil {
		for _, st := range wos.Body.List {
			if gs, ok := st.(*ast.GoStmt); ok {
				if fl, ok := gs.Call.Fun.(*ast.FuncLit); ok {
					stopper = fl
				}
			}
		}
	}
	stopSrc := ""
	if stopper != nil {
		stopSrc = g.Src(stopper.Body)
	}
	needStop := func(f func() (bool, bool, string)) func() (bool, bool, string) {
		return func() (bool, bool, string) {
			if stopper == nil {
				return false, false, "stopper goroutine (`go func() {…}()`) not found in waitOrStop"
			}
			return f()
		}
	}
	shape("wosUnbuffered", "waitOrStop: `errc := make(chan error)` — unbuffered: every send is a rendezvous with the waiter's receive.", true, wos, "waitOrStop",
		[]string{"errc:=make(chanerror)"}, []string{"errc:=make(chanerror,"})
	g.EmitBool("wosFirstSelect", "stopper: starts with `select { case errc <- nil: return; case <-ctx.Done(): }`.", true, needStop(func() (bool, bool, string) {
		return strings.HasPrefix(stopSrc, "{select{caseerrc<-nil:returncase<-ctx.Done():}"), true, ""
	}))
	emitStr("fgInterruptSignal", "stopper: the interrupt signal on non-Windows systems (`var interrupt os.Signal = syscall.SIGQUIT`).", "syscall.SIGQUIT", func() (string, bool, string) {
		if stopper == nil {
			return "", false, "stopper goroutine not found"
		}
		const pre = "varinterruptos.Signal="
		i := strings.Index(stopSrc, pre)
		if i < 0 {
			return "", false, "`var interrupt os.Signal = …` not found"
		}
		rest := stopSrc[i+len(pre):]
		j := strings.Index(rest, "ifruntime.GOOS")
		if j < 0 {
			return "", false, "unrecognised shape after the interrupt declaration"
		}
		return rest[:j], true, ""
	})
	g.EmitBool("wosSignalAttribution", "stopper: `err := cmd.Process.Signal(interrupt)`; `if err == nil { err = ctx.Err() } else if err == os.ErrProcessDone { errc <- nil; return }`.", true, needStop(func() (bool, bool, string) {
		return ordered(stopSrc, "case<-ctx.Done():}", "err:=cmd.Process.Signal(interrupt)", "iferr==nil{err=ctx.Err()", "}elseiferr==os.ErrProcessDone{errc<-nilreturn}"), true, ""
	}))
	g.EmitBool("wosKillGuardStrict", "stopper: escalation happens `if killDelay > 0` (true); `>= 0` would be false.", true, needStop(func() (bool, bool, string) {
		switch {
		case strings.Contains(stopSrc, "ifkillDelay>0{"):
			return true, true, ""
		case strings.Contains(stopSrc, "ifkillDelay>=0{"):
			return false, true, ""
		}
		return false, false, "`if killDelay > 0 {` not found"
	}))
	g.EmitBool("wosSecondSelect", "stopper: inside the guard `timer := time.NewTimer(killDelay)`, then `select { case errc <- ctx.Err(): timer.Stop(); return; case <-timer.C: }`, then `_ = cmd.Process.Kill()`.", true, needStop(func() (bool, bool, string) {
		return ordered(stopSrc, "ifkillDelay>", "{timer:=time.NewTimer(killDelay)", "select{caseerrc<-ctx.Err():timer.Stop()return", "case<-timer.C:}", "_=cmd.Process.Kill()}"), true, ""
	}))
	g.EmitBool("wosFinalSendErr", "stopper: its last statement is `errc <- err` (after the optional escalation).", true, needStop(func() (bool, bool, string) {
		return strings.HasSuffix(stopSrc, "}errc<-err}"), true, ""
	}))
	shape("wosWaitThenRecv", "waitOrStop: after starting the stopper, `waitErr := cmd.Wait()`, then `if interruptErr := <-errc; interruptErr != nil { return interruptErr }`, then `return waitErr`.", true, wos, "waitOrStop",
		[]string{"}()", "waitErr:=cmd.Wait()", "ifinterruptErr:=<-errc;interruptErr!=nil{returninterruptErr}", "returnwaitErr"})
}
