package main

// Case generators of the tslife group: batches of scripts over the vocabulary of
// GIV.Model.TsLife (`Op`), their rendering as testscript lines and as model requests.

import (
	"encoding/hex"
	"fmt"
	"math/rand"
	"path"
	"sort"
	"strconv"
	"strings"

	"github.com/rogpeppe/go-internal/txtar"
)

func hx(s string) string {
	if s == "" {
		return "-"
	}
	return hex.EncodeToString([]byte(s))
}

// encPath encodes a clean slash path as hex elements joined by "/" ("." for the empty path).
func encPath(p string) string {
	p = strings.Trim(p, "/")
	if p == "" || p == "." {
		return "."
	}
	segs := strings.Split(p, "/")
	for i, s := range segs {
		segs[i] = hx(s)
	}
	return strings.Join(segs, "/")
}

// opSpec is one operation of the model vocabulary.
//
//	P probe | C cd <rel> | K cd $WORK | E env <k> <v> | M mkdir <rel> | Y cp <src> <dst> | R rm <rel> | H chmod <rel> <mode>
//	D regdefer <id> [f|s|p: the function ends in FailNow / Skip / panic] | B bg <name> <kind s|o|b> <neg 0|1> <label> | F fg report | W wait | w wait <name> | X failing line | S skip | T stop
type opSpec struct {
	T string   `json:"t"`
	A []string `json:"a,omitempty"`
}

// lines renders the operation as testscript lines.
func (o opSpec) lines() []string {
	switch o.T {
	case "P":
		return []string{"probe"}
	case "C":
		return []string{"cd " + o.A[0]}
	case "K":
		return []string{"cd $WORK"}
	case "E":
		return []string{"env " + o.A[0] + "=" + o.A[1]}
	case "M":
		return []string{"mkdir " + o.A[0]}
	case "Y":
		return []string{"cp " + o.A[0] + " " + o.A[1]}
	case "R":
		return []string{"rm " + o.A[0]}
	case "H":
		return []string{"chmod " + o.A[1] + " " + o.A[0]}
	case "D":
		if len(o.A) > 1 && o.A[1] != "" {
			return []string{"regdefer " + o.A[0] + " " + map[string]string{"f": "failnow", "s": "skip", "p": "panic"}[o.A[1]]}
		}
		return []string{"regdefer " + o.A[0]}
	case "B":
		l := "exec vh bg " + o.A[1] + " " + o.A[3] + " &" + o.A[0]
		if o.A[0] != "" {
			l += "&"
		}
		if o.A[2] == "1" {
			l = "! " + l
		}
		return []string{l, "sync " + o.A[3]}
	case "F":
		return []string{"exec vh report"}
	case "W":
		return []string{"wait"}
	case "w":
		return []string{"wait " + o.A[0]}
	case "X":
		return []string{"exists no-such-file-anywhere"}
	case "S":
		return []string{"skip"}
	case "T":
		return []string{"stop"}
	}
	return []string{"unknown-op " + o.T}
}

// enc renders the operation for the model driver.
func (o opSpec) enc() string {
	switch o.T {
	case "P", "K", "F", "W", "X", "S", "T":
		return o.T
	case "C", "M", "R":
		return o.T + ":" + encPath(o.A[0])
	case "H":
		return "H:" + encPath(o.A[0])
	case "E":
		return "E:" + hx(o.A[0]) + ":" + hx(o.A[1])
	case "Y":
		return "Y:" + encPath(o.A[0]) + ":" + encPath(o.A[1])
	case "D":
		if len(o.A) > 1 && o.A[1] != "" {
			return "D:" + o.A[0] + ":" + o.A[1]
		}
		return "D:" + o.A[0]
	case "B":
		return "B:" + hx(o.A[0]) + ":" + o.A[1] + ":" + o.A[2]
	case "w":
		return "w:" + hx(o.A[0])
	}
	return "?"
}

func (s *scriptSpec) text() []byte {
	var sb strings.Builder
	for _, o := range s.Ops {
		for _, l := range o.lines() {
			sb.WriteString(l + "\n")
		}
	}
	a := &txtar.Archive{Comment: []byte(sb.String())}
	for _, f := range s.Files {
		a.Files = append(a.Files, txtar.File{Name: f.Name, Data: []byte(f.Data)})
	}
	return txtar.Format(a)
}

func encFiles(fs []fileSpec) string {
	if len(fs) == 0 {
		return "-"
	}
	var out []string
	for _, f := range fs {
		// the model's entries carry the cleaned relative name: ts.MkAbs is filepath.Join(ts.cd, name), which cleans
		out = append(out, encPath(path.Clean(f.Name))+":"+hx(f.Data))
	}
	return strings.Join(out, ",")
}

func encOps(ops []opSpec) string {
	if len(ops) == 0 {
		return "-"
	}
	var out []string
	for _, o := range ops {
		out = append(out, o.enc())
	}
	return strings.Join(out, ",")
}

func encEnv(e [][2]string) string {
	if len(e) == 0 {
		return "-"
	}
	var out []string
	for _, kv := range e {
		out = append(out, hx(kv[0])+":"+hx(kv[1]))
	}
	return strings.Join(out, ",")
}

func encInts(l []int, sep string) string {
	if len(l) == 0 {
		return "-"
	}
	var out []string
	for _, v := range l {
		out = append(out, strconv.Itoa(v))
	}
	return strings.Join(out, sep)
}

// effective environment (last entry wins), sorted by encoded item — the driver's showEffEnv.
func encEffEnv(e [][2]string) string {
	m := map[string]string{}
	for _, kv := range e {
		m[kv[0]] = kv[1]
	}
	var items []string
	for k, v := range m {
		items = append(items, hx(k)+":"+hx(v))
	}
	sort.Strings(items)
	if len(items) == 0 {
		return "-"
	}
	return strings.Join(items, ",")
}

// ---------------------------------------------------------------- script generator

var segPool = []string{"a", "b", "c", "d1", "x.txt", "sub", "data", "z"}
var envNames = []string{"X", "Y", "FOO", "HOME", "WORK2", "TMPDIR", "VH_HOST_SECRET", "GOTRACEBACK", "exe"}
var envVals = []string{"1", "two", "a:b", "/abs/path", "x=y", ""}

type genState struct {
	r      *rand.Rand
	coe    bool
	cwd    []string // generator's idea of the current directory (exact when !coe)
	dirs   map[string]bool
	files  map[string]bool
	bg     []genBg
	nLabel int
	nDefer int
	done   bool

	abortUsed bool
}

type genBg struct{ name, kind string }

func (g *genState) pick(m map[string]bool) (string, bool) {
	if len(m) == 0 {
		return "", false
	}
	keys := make([]string, 0, len(m))
	for k := range m {
		keys = append(keys, k)
	}
	sort.Strings(keys)
	return keys[g.r.Intn(len(keys))], true
}

func (g *genState) freshRel() string {
	n := 1 + g.r.Intn(2)
	var segs []string
	for i := 0; i < n; i++ {
		segs = append(segs, segPool[g.r.Intn(len(segPool))])
	}
	return strings.Join(segs, "/")
}

// rel expresses the absolute (work-dir relative) path abs relative to the generator's cwd.
// Only downward paths are produced when dotdot is false.
func (g *genState) rel(abs string, dotdot bool) (string, bool) {
	cwd := strings.Join(g.cwd, "/")
	if cwd == "" {
		return abs, abs != ""
	}
	if strings.HasPrefix(abs, cwd+"/") {
		return abs[len(cwd)+1:], true
	}
	if !dotdot || g.coe {
		return "", false
	}
	// climb to the work dir, then descend
	up := strings.Repeat("../", len(g.cwd))
	if abs == "" {
		return strings.TrimSuffix(up, "/"), true
	}
	return up + abs, true
}

func (g *genState) addDirs(abs string) {
	segs := strings.Split(abs, "/")
	for i := range segs {
		g.dirs[strings.Join(segs[:i+1], "/")] = true
	}
}

func (g *genState) absOf(rel string) string {
	segs := append([]string{}, g.cwd...)
	for _, s := range strings.Split(rel, "/") {
		switch s {
		case "..":
			if len(segs) > 0 {
				segs = segs[:len(segs)-1]
			}
		case ".", "":
		default:
			segs = append(segs, s)
		}
	}
	return strings.Join(segs, "/")
}

func (g *genState) op() (opSpec, bool) {
	r := g.r
	switch k := r.Intn(100); {
	case k < 16:
		return opSpec{T: "P"}, true
	case k < 26: // cd
		if r.Intn(5) == 0 {
			g.cwd = nil
			return opSpec{T: "K"}, true
		}
		if r.Intn(8) == 0 { // probably missing
			return opSpec{T: "C", A: []string{"nowhere"}}, true
		}
		d, ok := g.pick(g.dirs)
		if !ok {
			return opSpec{}, false
		}
		rel, ok := g.rel(d, true)
		if !ok {
			return opSpec{}, false
		}
		g.cwd = strings.Split(d, "/")
		return opSpec{T: "C", A: []string{rel}}, true
	case k < 36:
		return opSpec{T: "E", A: []string{envNames[r.Intn(len(envNames))], envVals[r.Intn(len(envVals))]}}, true
	case k < 46:
		rel := g.freshRel()
		g.addDirs(g.absOf(rel))
		return opSpec{T: "M", A: []string{rel}}, true
	case k < 56: // cp
		f, ok := g.pick(g.files)
		if !ok {
			return opSpec{}, false
		}
		src, ok := g.rel(f, true)
		if !ok {
			return opSpec{}, false
		}
		dst := g.freshRel()
		if r.Intn(3) == 0 {
			if d, ok := g.pick(g.dirs); ok {
				if dr, ok := g.rel(d, false); ok {
					dst = dr
				}
			}
		}
		g.files[g.absOf(dst)] = true
		return opSpec{T: "Y", A: []string{src, dst}}, true
	case k < 62: // rm, downward only
		var cand []string
		for p := range g.dirs {
			cand = append(cand, p)
		}
		for p := range g.files {
			cand = append(cand, p)
		}
		sort.Strings(cand)
		if len(cand) == 0 || r.Intn(6) == 0 {
			return opSpec{T: "R", A: []string{"never-existed"}}, true
		}
		p := cand[r.Intn(len(cand))]
		rel, ok := g.rel(p, false)
		if !ok {
			return opSpec{}, false
		}
		for q := range g.dirs {
			if q == p || strings.HasPrefix(q, p+"/") {
				delete(g.dirs, q)
			}
		}
		for q := range g.files {
			if q == p || strings.HasPrefix(q, p+"/") {
				delete(g.files, q)
			}
		}
		return opSpec{T: "R", A: []string{rel}}, true
	case k < 70:
		g.nDefer++
		// at most one deferred function per script that does not return normally: it calls FailNow or
		// Skip on the T (runtime.Goexit) or panics; the functions registered before it must still run
		if !g.abortUsed && r.Intn(4) == 0 {
			g.abortUsed = true
			return opSpec{T: "D", A: []string{strconv.Itoa(g.nDefer), []string{"f", "s", "p"}[r.Intn(3)]}}, true
		}
		return opSpec{T: "D", A: []string{strconv.Itoa(g.nDefer)}}, true
	case k < 80: // background helper
		kind := []string{"s", "s", "o", "b"}[r.Intn(4)]
		name := ""
		if r.Intn(2) == 0 {
			name = fmt.Sprintf("n%d", g.nLabel)
		}
		neg := "0"
		if kind == "b" && r.Intn(3) > 0 || kind != "b" && r.Intn(8) == 0 {
			neg = "1"
		}
		g.nLabel++
		g.bg = append(g.bg, genBg{name, kind})
		return opSpec{T: "B", A: []string{name, kind, neg, fmt.Sprintf("L%d", g.nLabel)}}, true
	case k < 86:
		return opSpec{T: "F"}, true
	case k < 90: // wait: only when no `sig` helper is outstanding
		for _, b := range g.bg {
			if b.kind == "s" {
				return opSpec{}, false
			}
		}
		if len(g.bg) > 0 && r.Intn(2) == 0 {
			var named []genBg
			for _, b := range g.bg {
				if b.name != "" {
					named = append(named, b)
				}
			}
			if len(named) > 0 {
				b := named[r.Intn(len(named))]
				return opSpec{T: "w", A: []string{b.name}}, true
			}
		}
		g.bg = nil
		return opSpec{T: "W"}, true
	case k < 93:
		if !g.coe {
			g.done = true
		}
		return opSpec{T: "X"}, true
	case k < 95:
		g.done = true
		return opSpec{T: "S"}, true
	case k < 97:
		g.done = true
		return opSpec{T: "T"}, true
	default:
		return opSpec{T: "P"}, true
	}
}

func genFiles(r *rand.Rand) []fileSpec {
	var out []fileSpec
	n := r.Intn(6)
	for i := 0; i < n; i++ {
		depth := 1 + r.Intn(3)
		var segs []string
		for j := 0; j < depth; j++ {
			segs = append(segs, segPool[r.Intn(len(segPool))])
		}
		data := ""
		for j := r.Intn(3); j > 0; j-- {
			data += []string{"hello", "x y z", "line", "0123"}[r.Intn(4)] + "\n"
		}
		out = append(out, fileSpec{Name: strings.Join(segs, "/"), Data: data})
	}
	if n > 0 && r.Intn(5) == 0 { // the same path again (spelt the same or through "x/../"), different data —
		// shorter, equal or longer than the first entry's: the later entry must replace the earlier one whole
		name := out[r.Intn(len(out))].Name
		if r.Intn(2) == 0 {
			name = "q/../" + name
		}
		out = append(out, fileSpec{Name: name, Data: []string{"dup\n", "", "a much longer replacement text\nwith two lines\n", "x\n"}[r.Intn(4)]})
	}
	return out
}

func genScript(r *rand.Rand, coe bool, idx int) scriptSpec {
	s := scriptSpec{Files: genFiles(r)}
	g := &genState{r: r, coe: coe, dirs: map[string]bool{".tmp": true}, files: map[string]bool{}}
	// the generator's idea of the tree after unpacking (approximate when entries conflict)
	for _, f := range s.Files {
		cn := path.Clean(f.Name)
		if i := strings.LastIndex(cn, "/"); i >= 0 {
			g.addDirs(cn[:i])
		}
		g.files[cn] = true
	}
	for p := range g.files {
		if g.dirs[p] {
			delete(g.files, p)
		}
	}
	if r.Intn(3) == 0 {
		for i := r.Intn(3); i > 0; i-- {
			s.SetupDefers = append(s.SetupDefers, 100+len(s.SetupDefers))
		}
	}
	n := 3 + r.Intn(12)
	s.Ops = append(s.Ops, opSpec{T: "P"})
	for len(s.Ops) < n && !g.done {
		if o, ok := g.op(); ok {
			s.Ops = append(s.Ops, o)
		}
	}
	if !g.done {
		// read-only directories / files at the very end (nothing is written below them afterwards)
		if r.Intn(3) == 0 {
			if d, ok := g.pick(g.dirs); ok {
				if rel, ok := g.rel(d, false); ok {
					s.Ops = append(s.Ops, opSpec{T: "H", A: []string{rel, []string{"555", "500"}[r.Intn(2)]}})
				}
			}
		}
		if r.Intn(2) == 0 {
			s.Ops = append(s.Ops, opSpec{T: "P"})
		}
	}
	return s
}

type isoBatch struct {
	spec       batchSpec
	passGOCOV  bool
	passGORACE bool
}

var scriptBaseNames = []string{"alpha", "beta", "gamma", "delta", "eps", "zeta", "eta", "theta", "iota", "kappa", "lambda", "mu", "nu", "xi", "omicron", "pi"}

func genIsoBatch(seed int64, index int) *isoBatch {
	r := rand.New(rand.NewSource(seed*1000003 + int64(index)*7919 + 17))
	b := &isoBatch{}
	sp := &b.spec
	sp.Mode = "iso"
	sp.ContinueOnError = r.Intn(4) == 0
	sp.UniqueNames = r.Intn(5) == 0
	sp.Verbose = r.Intn(3) == 0
	switch r.Intn(8) {
	case 0:
		sp.TestWork = true
	case 1:
		sp.WorkdirRoot = true
	}
	b.passGOCOV = r.Intn(3) == 0
	b.passGORACE = r.Intn(3) == 0
	sp.ProbeKeys = []string{"WORK", "HOME", "TMPDIR", "PATH", "VH_HOST_SECRET", "GOCOVERDIR", "GORACE", "exe", "X", "FOO", "SETUPVAR", "USER", "GOTMPDIR", "devnull", "/", ":"}
	sp.SetupEnv = [][2]string{{"SETUPVAR", fmt.Sprintf("s%d", r.Intn(100))}}
	if r.Intn(2) == 0 {
		sp.SetupEnv = append(sp.SetupEnv, [2]string{"FOO", "from-setup"})
	}
	n := 4 + r.Intn(13)
	// File names. RunT derives the subtest name (and so the work directory) from the base name and must
	// keep them apart: equal base names (same name with .txt and .txtar, or in different directories),
	// names that literally contain "#1" / "#2", given through Params.Files in any order or found through
	// Params.Dir (sorted, '#' before '.').
	var fileNames []string
	nameMode := r.Intn(6)
	fam := []string{"foo", "n", "alpha"}[r.Intn(3)]
	clash := []string{fam + ".txt", fam + ".txtar", fam + "#1.txt", fam + "#1.txtar", fam + "#2.txt", fam + "#1#1.txt", fam + "#2.txtar"}
	r.Shuffle(len(clash), func(i, j int) { clash[i], clash[j] = clash[j], clash[i] })
	switch nameMode {
	case 0, 1: // one directory (Params.Dir when nameMode == 0): distinct file names, clashing base names
		k := 3 + r.Intn(3)
		for i := 0; i < n; i++ {
			if i < k {
				fileNames = append(fileNames, "s0/"+clash[i])
			} else {
				ext := ".txt"
				if r.Intn(3) == 0 {
					ext = ".txtar"
				}
				fileNames = append(fileNames, "s0/"+scriptBaseNames[i%len(scriptBaseNames)]+ext)
			}
		}
		if nameMode == 0 {
			sp.UseDir = true
			sort.Strings(fileNames) // os.ReadDir order
		} else {
			r.Shuffle(len(fileNames), func(i, j int) { fileNames[i], fileNames[j] = fileNames[j], fileNames[i] })
		}
	case 2: // several directories, the same file names again and again, plus names with '#'
		for i := 0; i < n; i++ {
			fileNames = append(fileNames, fmt.Sprintf("d%d/%s", i/len(clash), clash[i%len(clash)]))
		}
		if r.Intn(2) == 0 {
			for i, j := 0, len(fileNames)-1; i < j; i, j = i+1, j-1 {
				fileNames[i], fileNames[j] = fileNames[j], fileNames[i]
			}
		}
	default:
		for i := 0; i < n; i++ {
			base := scriptBaseNames[i%len(scriptBaseNames)]
			dir := "s0"
			// sometimes the same base name in another directory: RunT must disambiguate (name#1)
			if i > 0 && r.Intn(6) == 0 {
				base = scriptBaseNames[r.Intn(i)]
				dir = fmt.Sprintf("s%d", i)
			}
			ext := ".txt"
			if r.Intn(4) == 0 {
				ext = ".txtar"
			}
			fileNames = append(fileNames, dir+"/"+base+ext)
		}
		// distinct paths
		seen := map[string]bool{}
		for i := range fileNames {
			for seen[fileNames[i]] {
				fileNames[i] = fmt.Sprintf("u%d/%s", i, fileNames[i][strings.Index(fileNames[i], "/")+1:])
			}
			seen[fileNames[i]] = true
		}
	}
	for i := 0; i < n; i++ {
		s := genScript(r, sp.ContinueOnError, i)
		s.File = fileNames[i]
		sp.Scripts = append(sp.Scripts, s)
	}
	return b
}

// ---------------------------------------------------------------- deadline batches (C17)

// genDeadlineBatch: one RunT call with Params.Deadline = now + D; every script blocks in (or
// finishes) one foreground command.
func genDeadlineBatch(seed int64, dms int, variant int) *batchSpec {
	r := rand.New(rand.NewSource(seed*31 + int64(dms)*7 + int64(variant)))
	sp := &batchSpec{Mode: "deadline", DeadlineMs: dms, Verbose: variant%2 == 1}
	if variant >= 200 {
		// Subtests run ONE AFTER THE OTHER (as with cmd/testscript's runT, `-parallel 1`, or more scripts
		// than slots): the first script takes 60% of the time and exits, the second then blocks for ever.
		// The deadline is absolute: the second must still be interrupted at RunT-call time + D - 2g.
		sp.Sequential = true
		d := dms * 6 / 10
		sp.Scripts = append(sp.Scripts,
			scriptSpec{Kind: "early", File: "d/a-early.txt", Delta: d, Ops: []opSpec{{T: "raw", A: []string{fmt.Sprintf("exec vh dl early S0 %d", d)}}}},
			scriptSpec{Kind: "quit", File: "d/b-quit.txt", Ops: []opSpec{{T: "raw", A: []string{"exec vh dl quit S1"}}}},
			scriptSpec{Kind: "pass", File: "d/c-pass.txt", Ops: []opSpec{{T: "raw", A: []string{"mkdir x"}}, {T: "raw", A: []string{"exists x"}}}})
		return sp
	}
	if variant >= 100 {
		// the racing zone: foreground helpers that exit by themselves at about the moment the context fires
		g := dms / 20
		if g < 100 {
			g = 100
		}
		at := dms - 2*g
		for i, eps := range []int{-60, -40, -30, -20, -12, -6, 0, 6, 12, 25} {
			s := scriptSpec{Kind: "edge", File: fmt.Sprintf("d/edge%d.txt", i), Delta: at + eps}
			if s.Delta < 1 {
				s.Delta = 1
			}
			s.Ops = []opSpec{{T: "raw", A: []string{fmt.Sprintf("exec vh dl early E%d %d", i, s.Delta)}}}
			sp.Scripts = append(sp.Scripts, s)
		}
		return sp
	}
	kinds := []string{"quit", "ignore", "default", "early", "negquit", "pass", "quit", "ignore"}
	r.Shuffle(len(kinds), func(i, j int) { kinds[i], kinds[j] = kinds[j], kinds[i] })
	for i, k := range kinds {
		s := scriptSpec{Kind: k, File: fmt.Sprintf("d/%s%d.txt", k, i)}
		label := fmt.Sprintf("L%d", i)
		switch k {
		case "quit", "ignore", "default":
			s.Ops = []opSpec{{T: "raw", A: []string{"exec vh dl " + k + " " + label}}}
		case "negquit":
			s.Ops = []opSpec{{T: "raw", A: []string{"! exec vh dl quit " + label}}}
		case "early":
			// well before the context fires (deadline - 2 grace periods), process start-up included
			g := dms / 20
			if g < 100 {
				g = 100
			}
			s.Delta = 5 + r.Intn((dms-2*g)/4)
			s.Ops = []opSpec{{T: "raw", A: []string{"exec vh dl early " + label + " " + strconv.Itoa(s.Delta)}}, {T: "raw", A: []string{"stdout 'helper running'"}}}
		case "pass":
			s.Ops = []opSpec{{T: "raw", A: []string{"mkdir x"}}, {T: "raw", A: []string{"exists x"}}}
		}
		sp.Scripts = append(sp.Scripts, s)
	}
	return sp
}

func (s *scriptSpec) rawText() []byte {
	var sb strings.Builder
	for _, o := range s.Ops {
		if o.T == "raw" {
			sb.WriteString(o.A[0] + "\n")
		}
	}
	return []byte(sb.String())
}
