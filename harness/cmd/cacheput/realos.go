package main

func (h *harness) runRealOS()   {}
func hammerChild(args []string) {}
