package main

// Real-OS supplement (thorough tier only, supporting evidence): child processes (this binary re-executed
// as `cacheput hammer …`) use the unmodified cache package on one real directory; some are SIGKILLed
// at random times; afterwards a fresh process-level view (this process) runs the oracle.  No timing
// assertions: the sleeps only spread the kill points.

import (
	"bytes"
	"crypto/sha256"
	"fmt"
	"math/rand"
	"os"
	"os/exec"
	"strconv"
	"strings"
	"syscall"
	"time"

	"github.com/rogpeppe/go-internal/cache"
)

const hammerIDs = 6

func hammerPayload(id, ctr int, r *rand.Rand) []byte {
	pad := r.Intn(3)
	n := []int{0, 700, 90000}[pad]
	return []byte(fmt.Sprintf("id=%d ctr=%d %s", id, ctr, strings.Repeat("x", n)))
}

// checkLookups runs the oracle over all ids; it returns descriptions of violations.
func checkLookups(c *cache.Cache) []string {
	var bad []string
	for id := 0; id < hammerIDs; id++ {
		data, e, err := c.GetBytes(actionID(100 + id))
		if err == nil {
			if sha256.Sum256(data) != [32]byte(e.OutputID) {
				bad = append(bad, fmt.Sprintf("GetBytes(id%d): bytes do not hash to the OutputID", id))
			}
			if !bytes.HasPrefix(data, []byte(fmt.Sprintf("id=%d ", id))) {
				bad = append(bad, fmt.Sprintf("GetBytes(id%d): foreign payload %q", id, trunc(string(data), 20)))
			}
		}
		file, fe, ferr := c.GetFile(actionID(100 + id))
		if ferr == nil {
			fd, rerr := os.ReadFile(file)
			if rerr == nil && int64(len(fd)) == fe.Size && sha256.Sum256(fd) != [32]byte(fe.OutputID) {
				bad = append(bad, fmt.Sprintf("GetFile(id%d): file of the reported size with other bytes", id))
			}
		}
	}
	return bad
}

// hammerChild: `cacheput hammer <dir> <seed> <iterations>`.
func hammerChild(args []string) {
	if len(args) < 3 {
		os.Exit(2)
	}
	seed, _ := strconv.ParseInt(args[1], 10, 64)
	iters, _ := strconv.Atoi(args[2])
	c, err := cache.Open(args[0])
	if err != nil {
		fmt.Println("ERROR", err)
		os.Exit(2)
	}
	r := rand.New(rand.NewSource(seed))
	for i := 0; i < iters; i++ {
		id := r.Intn(hammerIDs)
		if r.Intn(2) == 0 {
			c.PutBytes(actionID(100+id), hammerPayload(id, i, r))
		} else if bad := checkLookups(c); len(bad) > 0 {
			fmt.Println("VIOLATION " + strings.Join(bad, "; "))
			os.Exit(3)
		}
	}
}

func (h *harness) runRealOS() {
	r := rand.New(rand.NewSource(h.seed*31 + 5))
	self, err := os.Executable()
	if err != nil {
		h.res.Observations = append(h.res.Observations, "real-OS supplement skipped: "+err.Error())
		return
	}
	rounds, kills, checked := 120, 0, 0
	for round := 0; round < rounds; round++ {
		dir, err := os.MkdirTemp(h.base, "real-")
		if err != nil {
			return
		}
		if _, err := cache.Open(dir); err != nil {
			return
		}
		var cmds []*exec.Cmd
		var outs []*bytes.Buffer
		for k := 0; k < 4; k++ {
			cmd := exec.Command(self, "hammer", dir, strconv.FormatInt(r.Int63(), 10), "150")
			var b bytes.Buffer
			cmd.Stdout = &b
			if err := cmd.Start(); err != nil {
				continue
			}
			cmds = append(cmds, cmd)
			outs = append(outs, &b)
		}
		time.Sleep(time.Duration(2+r.Intn(40)) * time.Millisecond)
		for k := 0; k < 2 && k < len(cmds); k++ {
			cmds[k].Process.Signal(syscall.SIGKILL)
			kills++
		}
		for k, cmd := range cmds {
			cmd.Wait()
			if s := outs[k].String(); strings.Contains(s, "VIOLATION") {
				h.res.Violate("C11", fmt.Sprintf("real-os round %d seed %d", round, h.seed), strings.TrimSpace(s), "realos-concurrent-lookup")
			}
		}
		c, err := cache.Open(dir)
		if err == nil {
			checked++
			for _, b := range checkLookups(c) {
				h.res.Violate("C12", fmt.Sprintf("real-os round %d seed %d", round, h.seed), "after SIGKILL of writers: "+b, "realos-after-kill")
			}
		}
		os.RemoveAll(dir)
	}
	h.res.Distribution["realos:rounds"] = rounds
	h.res.Distribution["realos:sigkills"] = kills
	h.res.OracleChecked["C12"] += checked
	h.res.OracleChecked["C11"] += checked
	h.res.Observations = append(h.res.Observations, fmt.Sprintf("real-OS supplement: %d rounds of 4 child processes on a real directory, %d SIGKILLs at random times, oracle after each round: supporting evidence only", rounds, kills))
}
