// cacheput group binary: `cacheput factgen ...` and `cacheput corr ...` (properties C12, C11);
// `cacheput hammer ...` is the child process of the real-OS supplement of the thorough tier.
package main

import (
	"fmt"
	"os"

	"verif/harness/internal/corr"
	"verif/harness/internal/fact"
)

func main() {
	if len(os.Args) < 2 {
		fmt.Fprintln(os.Stderr, "usage: cacheput factgen|corr [flags]")
		os.Exit(2)
	}
	switch os.Args[1] {
	case "factgen":
		fact.Main(os.Args[2:], "cacheput", "CachePut", genCachePut)
	case "corr":
		corr.Main(os.Args[2:], runCachePut)
	case "buildshim": // debugging aid: cacheput buildshim <out path>
		b, err := buildShim()
		if err != nil {
			fmt.Fprintln(os.Stderr, err)
			os.Exit(1)
		}
		data, _ := os.ReadFile(b.Bin)
		os.WriteFile(os.Args[2], data, 0o777)
		b.Cleanup()
	case "hammer":
		hammerChild(os.Args[2:])
	default:
		fmt.Fprintln(os.Stderr, "usage: cacheput factgen|corr [flags]")
		os.Exit(2)
	}
}
