package main

// Correspondence + oracle harness of group `cacheput` (C12, C11).
//
// The real cache package is run on a scratch copy instrumented by shimkit/vshim (every file
// operation is a logged scheduling point with fault injection); each trace is replayed step by
// step by the Lean model driver (`gim_cacheput replay …`): every step must be enabled in the
// model and show the same system call with the same result, the results reported by the
// operations must agree, and the final directory must equal the model's final file system.
// Independent oracles (the unmodified package from /repo on the same directory, in this process)
// check the property statements themselves.

import (
	"bufio"
	"bytes"
	"crypto/sha256"
	"encoding/hex"
	"fmt"
	"io"
	"os"
	"os/exec"
	"path/filepath"
	"sort"
	"strconv"
	"strings"

	"github.com/rogpeppe/go-internal/cache"

	"verif/harness/internal/corr"
	"verif/harness/internal/shimkit"
)

func verifRoot() string {
	if r := os.Getenv("VERIF_ROOT"); r != "" {
		return r
	}
	return "/verif"
}

func repoRoot() string {
	if r := os.Getenv("VERIF_REPO"); r != "" {
		return r
	}
	return "/repo"
}

func buildShim() (*shimkit.Built, error) {
	h := filepath.Join(verifRoot(), "harness")
	return shimkit.Build(shimkit.Spec{Repo: repoRoot(),
		Files: []string{"cache/cache.go", "lockedfile/lockedfile.go", "lockedfile/lockedfile_filelock.go", "lockedfile/mutex.go",
			"lockedfile/internal/filelock/filelock.go", "lockedfile/internal/filelock/filelock_unix.go"},
		DriverDir: filepath.Join(h, "shimcmd", "cacheput"), VshimDir: filepath.Join(h, "vshim")})
}

// ---------------------------------------------------------------- line processes

type lineProc struct {
	cmd *exec.Cmd
	in  *bufio.Writer
	wc  io.WriteCloser
	out *bufio.Reader
}

func startLineProc(bin string, args ...string) (*lineProc, error) {
	cmd := exec.Command(bin, args...)
	wc, err := cmd.StdinPipe()
	if err != nil {
		return nil, err
	}
	rc, err := cmd.StdoutPipe()
	if err != nil {
		return nil, err
	}
	cmd.Stderr = os.Stderr
	if err := cmd.Start(); err != nil {
		return nil, err
	}
	return &lineProc{cmd: cmd, in: bufio.NewWriterSize(wc, 1<<20), wc: wc, out: bufio.NewReaderSize(rc, 1<<20)}, nil
}

func (p *lineProc) close() {
	if p == nil {
		return
	}
	p.wc.Close()
	p.cmd.Wait()
}

func (p *lineProc) ask(line string) (string, error) {
	p.in.WriteString(line)
	p.in.WriteByte('\n')
	if err := p.in.Flush(); err != nil {
		return "", err
	}
	l, err := p.out.ReadString('\n')
	if err != nil {
		return "", fmt.Errorf("process died: %v", err)
	}
	return strings.TrimRight(l, "\r\n"), nil
}

// ---------------------------------------------------------------- tables shared with the instrumented driver

func content(i int) []byte {
	switch i {
	case 0:
		return nil
	case 1:
		return []byte("a")
	case 2:
		return []byte("bc")
	case 3:
		return []byte("hello")
	case 4:
		return bytes.Repeat([]byte("0123456789"), 4)
	case 6:
		return []byte("world")
	default:
		return bytes.Repeat([]byte{byte('A' + i)}, 70000)
	}
}

func actionID(i int) cache.ActionID {
	var id cache.ActionID
	h := sha256.Sum256([]byte(fmt.Sprintf("action-%d", i)))
	copy(id[:], h[:])
	return id
}

func hx(b []byte) string { return corr.Hx(b) }

// contentSpec is the compact encoding of a byte string for the model driver.
func contentSpec(b []byte) string {
	if len(b) > 64 {
		uniform := true
		for _, c := range b {
			if c != b[0] {
				uniform = false
				break
			}
		}
		if uniform {
			return fmt.Sprintf("R%02xx%d", b[0], len(b))
		}
	}
	return hx(b)
}

// modelOp translates an op of the instrumented driver's scenario language to the model's.
func modelOp(op string) string {
	args := strings.Split(op[1:], ",")
	id, _ := strconv.Atoi(args[0])
	aid := actionID(id)
	idh := hex.EncodeToString(aid[:])
	switch op[0] {
	case 'p', 'P':
		ci, _ := strconv.Atoi(args[1])
		ok1, seek2, d2 := "1", "1", "="
		if op[0] == 'P' {
			switch args[2][0] {
			case 'e', 's':
				d2 = "t" + args[2][1:]
			case 'c':
				d2 = "c" + args[2][1:]
			case 'E':
				ok1 = "0"
			case 'k':
				seek2 = "0"
			}
		}
		return "p," + idh + "," + ok1 + "," + contentSpec(content(ci)) + "," + seek2 + "," + d2
	case 'b':
		return "b," + idh
	case 'f':
		return "f," + idh
	case 'g':
		return "g," + idh
	}
	return "?"
}

// modelTasks translates `procs` (`|` between processes, `&` between goroutines, `;` between ops).
func modelTasks(procs string) string {
	var tasks []string
	for pi, ps := range strings.Split(procs, "|") {
		for _, ts := range strings.Split(ps, "&") {
			var ops []string
			for _, op := range strings.Split(ts, ";") {
				if op != "" {
					ops = append(ops, modelOp(op))
				}
			}
			tasks = append(tasks, fmt.Sprintf("%d:%s", pi, strings.Join(ops, "/")))
		}
	}
	if len(tasks) == 0 {
		return "-"
	}
	return strings.Join(tasks, ";")
}

// ---------------------------------------------------------------- directory state

type fileState struct {
	name string // model name: d<hex> / a<hex>
	rel  string // path relative to the cache directory
	data []byte
}

func scanDir(dir string) []fileState {
	var out []fileState
	subs, _ := os.ReadDir(dir)
	for _, sd := range subs {
		if !sd.IsDir() {
			continue
		}
		ents, _ := os.ReadDir(filepath.Join(dir, sd.Name()))
		for _, e := range ents {
			n := e.Name()
			if len(n) < 3 || (n[len(n)-2:] != "-a" && n[len(n)-2:] != "-d") {
				continue
			}
			data, err := os.ReadFile(filepath.Join(dir, sd.Name(), n))
			if err != nil {
				continue
			}
			out = append(out, fileState{name: n[len(n)-1:] + n[:len(n)-2], rel: sd.Name() + "/" + n, data: data})
		}
	}
	sort.Slice(out, func(i, j int) bool { return out[i].name < out[j].name })
	return out
}

func initSpec(fs []fileState) string {
	if len(fs) == 0 {
		return "-"
	}
	var items []string
	for _, f := range fs {
		items = append(items, f.name[:1]+":"+f.name[1:]+":"+contentSpec(f.data))
	}
	return strings.Join(items, ";")
}

func summaryOf(fs []fileState) string {
	if len(fs) == 0 {
		return "-"
	}
	var items []string
	for _, f := range fs {
		h := sha256.Sum256(f.data)
		items = append(items, fmt.Sprintf("%s=%d:%s", f.name, len(f.data), hex.EncodeToString(h[:])))
	}
	sort.Strings(items)
	return strings.Join(items, ";")
}

func clearDir(dir string) {
	for _, f := range scanDir(dir) {
		os.Remove(filepath.Join(dir, f.rel))
	}
	os.Remove(filepath.Join(dir, "trim.txt"))
}

func restoreDir(dir string, fs []fileState) {
	clearDir(dir)
	for _, f := range fs {
		os.WriteFile(filepath.Join(dir, f.rel), f.data, 0o666)
	}
}

// ---------------------------------------------------------------- traces

type event struct {
	proc, task int
	op         string
	args       []string
	res        string
}

type trace struct {
	evs     []event
	end     string
	choices []string // per branching step: "e.e.e:k"
	raw     string
}

func parseTrace(line string) (*trace, error) {
	if !strings.HasPrefix(line, "TRACE ") {
		return nil, fmt.Errorf("instrumented driver answered %q", trunc(line, 200))
	}
	body := line[len("TRACE "):]
	i := strings.LastIndex(body, " END ")
	if i < 0 {
		return nil, fmt.Errorf("no END in trace")
	}
	tail := strings.Fields(body[i+len(" END "):])
	t := &trace{raw: line}
	if len(tail) > 0 {
		t.end = tail[0]
	}
	if len(tail) >= 3 && tail[1] == "CHOICES" {
		t.choices = strings.Split(tail[2], ",")
	}
	for _, es := range strings.Split(body[:i], "|") {
		left, res := es, ""
		if j := strings.Index(es, " -> "); j >= 0 {
			left, res = es[:j], es[j+4:]
		}
		f := strings.Fields(left)
		if len(f) < 3 {
			return nil, fmt.Errorf("bad event %q", trunc(es, 100))
		}
		p, err1 := strconv.Atoi(strings.TrimPrefix(f[0], "p"))
		tk, err2 := strconv.Atoi(strings.TrimPrefix(f[1], "t"))
		if err1 != nil || err2 != nil {
			return nil, fmt.Errorf("bad event %q", trunc(es, 100))
		}
		t.evs = append(t.evs, event{proc: p, task: tk, op: f[2], args: f[3:], res: res})
	}
	return t, nil
}

func trunc(s string, n int) string {
	if len(s) > n {
		return s[:n] + "…"
	}
	return s
}

// modelPath turns `3a/3a…-d` into `d3a…`.
func modelPath(p string) string {
	if i := strings.LastIndex(p, "/"); i >= 0 {
		p = p[i+1:]
	}
	if len(p) > 2 && (strings.HasSuffix(p, "-a") || strings.HasSuffix(p, "-d")) {
		return p[len(p)-1:] + p[:len(p)-2]
	}
	return "?" + p
}

var osOps = map[string]bool{"stat": true, "open": true, "read": true, "write": true, "ftruncate": true, "close": true, "unlink": true, "chtimes": true}

// modelEvents renders a trace in the model driver's event language; rets are the results the
// operations reported (per task, in order), panics are returned separately.
func modelEvents(t *trace) (evs string, panics []string) {
	type mev struct {
		tid   int
		n     int
		after bool
		body  string
	}
	var out []*mev
	var lastOS *mev
	for i, e := range t.evs {
		switch {
		case e.op == "ret":
			out = append(out, &mev{tid: e.task, body: "ret," + strings.Join(e.args, ",")})
		case e.op == "crash":
			if lastOS != nil && !strings.HasSuffix(lastOS.body, ",crash-before") {
				lastOS.after = true
			}
		case e.op == "panic":
			panics = append(panics, strings.Join(e.args, " "))
		case osOps[e.op]:
			res := e.res
			if res == "" {
				res = "ok"
			}
			args := append([]string{}, e.args...)
			n := 0
			switch e.op {
			case "stat", "unlink":
				args[0] = modelPath(args[0])
			case "open":
				args[0] = modelPath(args[0])
			case "chtimes":
				args = []string{modelPath(args[0])}
			case "read":
				n, _ = strconv.Atoi(args[1])
			case "write":
				if args[1] != "-" {
					n = len(args[1]) / 2
				}
			}
			if e.op == "stat" {
				// the next step of the same task: a chtimes of the same file = `used` found the mtime stale
				for j := i + 1; j < len(t.evs); j++ {
					if t.evs[j].task != e.task || t.evs[j].op == "ret" || t.evs[j].op == "call" {
						continue
					}
					if t.evs[j].op == "chtimes" && len(t.evs[j].args) > 0 && modelPath(t.evs[j].args[0]) == args[0] {
						n = 1
					}
					break
				}
			}
			m := &mev{tid: e.task, n: n, body: e.op + "," + strings.Join(append(args, res), ",")}
			out = append(out, m)
			lastOS = m
		case e.op == "start" || e.op == "exit" || e.op == "call" || e.op == "go":
		default:
			out = append(out, &mev{tid: e.task, body: e.op + "," + strings.Join(append(append([]string{}, e.args...), e.res), ",")})
		}
	}
	if len(out) == 0 {
		return "-", panics
	}
	var sb strings.Builder
	for i, m := range out {
		if i > 0 {
			sb.WriteByte('|')
		}
		b := m.body
		if m.after {
			b = "!" + b
		}
		fmt.Fprintf(&sb, "%d,%d,%s", m.tid, m.n, b)
	}
	return sb.String(), panics
}

// rets returns the reported results of a trace: per event (task, fields).
type retEv struct {
	task int
	f    []string
	at   int // index in the trace
}

func retsOf(t *trace) []retEv {
	var out []retEv
	for i, e := range t.evs {
		if e.op == "ret" {
			out = append(out, retEv{e.task, e.args, i})
		}
	}
	return out
}

// ---------------------------------------------------------------- a worker: instrumented driver + model driver + directory

type worker struct {
	shim     *lineProc
	model    *lineProc
	dir      string
	shimBin  string
	modelBin string
	restarts int // how often a line process died and was started again
}

func newWorker(shimBin, modelBin, base string, k int) (*worker, error) {
	w := &worker{dir: filepath.Join(base, fmt.Sprintf("w%d", k)), shimBin: shimBin, modelBin: modelBin}
	if err := os.MkdirAll(w.dir, 0o777); err != nil {
		return nil, err
	}
	if _, err := cache.Open(w.dir); err != nil {
		return nil, err
	}
	var err error
	if w.shim, err = startLineProc(shimBin); err != nil {
		return nil, err
	}
	if w.model, err = startLineProc(modelBin); err != nil {
		w.shim.close()
		return nil, err
	}
	return w, nil
}

func (w *worker) close() {
	w.shim.close()
	w.model.close()
}

const (
	nowFresh = "1000000000000000000" // 2001: every mtime looks fresh to `used`
	nowStale = "4102444800000000000" // 2100: files not yet touched by the cache look stale
)

// runImpl runs one scenario on the instrumented implementation.
func (w *worker) runImpl(procs, sched, fault, now string) (*trace, error) {
	line := "run " + w.dir + " " + procs + " " + sched
	if fault != "" {
		line += " fault:" + fault
	}
	line += " now:" + now
	if w.shim == nil {
		var err error
		if w.shim, err = startLineProc(w.shimBin); err != nil {
			w.shim = nil
			return nil, err
		}
	}
	ans, err := w.shim.ask(line)
	if err != nil {
		// The instrumented driver died (a run-time panic outside any task, e.g. a finalizer of the code under
		// test firing for an object that a crashed task of an EARLIER scenario left behind): start a fresh one
		// and run this scenario again, so that one death does not take the rest of the run down.
		w.shim.close()
		w.restarts++
		if w.shim, err = startLineProc(w.shimBin); err != nil {
			w.shim = nil
			return nil, err
		}
		if ans, err = w.shim.ask(line); err != nil {
			w.shim.close()
			w.shim = nil
			return nil, fmt.Errorf("instrumented driver died twice on this scenario: %v", err)
		}
	}
	return parseTrace(ans)
}

// replay asks the model to replay a trace from the given initial files; it returns the model's
// answer (`ok <files>` / `reject …`).
func (w *worker) replay(now string, init []fileState, procs string, t *trace) (string, []string, error) {
	evs, panics := modelEvents(t)
	line := "replay " + now + " " + initSpec(init) + " " + modelTasks(procs) + " " + evs + " " + t.end
	ans, err := w.model.ask(line)
	if err != nil { // the model driver died: one fresh start, then give up on this case only
		w.model.close()
		w.restarts++
		if w.model, err = startLineProc(w.modelBin); err == nil {
			ans, err = w.model.ask(line)
		}
	}
	return ans, panics, err
}

// checkReplay runs the model on the trace and compares the final file system; it returns "" or a
// description of the disagreement.
func (w *worker) checkReplay(now string, init []fileState, procs string, t *trace, final []fileState) (string, string) {
	ans, panics, err := w.replay(now, init, procs, t)
	if err != nil {
		return "model driver: " + err.Error(), ""
	}
	if len(panics) > 0 {
		return "implementation panicked: " + strings.Join(panics, "; "), ans
	}
	want := "ok " + summaryOf(final)
	if ans != want {
		return "replay differs", ans
	}
	return "", ans
}

func describeTrace(t *trace) string {
	var sb strings.Builder
	for i, e := range t.evs {
		if i > 0 {
			sb.WriteString(" | ")
		}
		s := fmt.Sprintf("t%d %s", e.task, e.op)
		for _, a := range e.args {
			s += " " + trunc(a, 24)
		}
		if e.res != "" {
			s += " -> " + trunc(e.res, 24)
		}
		sb.WriteString(s)
	}
	return trunc(sb.String(), 3000) + " END " + t.end
}

// ---------------------------------------------------------------- entry point

func runCachePut(tier string, seed int64, model string, replay string) *corr.Result {
	res := corr.NewResult("cacheput", tier, seed)
	res.Rule = "a case is one instrumented execution of the real cache code (C12: one Put with one injected file-operation fault and/or source misbehaviour from a prepared directory, followed by lookups in a fresh process; C11: 2–4 processes × 1–2 goroutines doing Put/GetBytes/GetFile under one schedule — random schedules, all schedules with at most two preemptions of two-task configurations, and the three-task window schedules writer A / writer B / reader, some of them with one writer whose source fails); it is non-trivial when the execution performs at least one file operation of a Put after the injection point or interleaves at least two tasks; every case is replayed step by step in the Lean model (system call, arguments, result of every step; reported results; final directory); the real-goroutine lane of C11 (unmodified package, one *cache.Cache shared by goroutines, oracle only) is not counted as a case, its lookups are counted under oracle_checked"
	built, err := buildShim()
	if err != nil {
		res.Observations = append(res.Observations, "cannot build the instrumented driver: "+err.Error())
		res.Disagree("<build>", err.Error(), "")
		return res
	}
	defer built.Cleanup()
	base, err := os.MkdirTemp("", "giv-cacheput-")
	if err != nil {
		res.Disagree("<tmp>", err.Error(), "")
		return res
	}
	defer os.RemoveAll(base)
	h := &harness{res: res, tier: tier, seed: seed, shimBin: built.Bin, modelBin: model, base: base, search: os.Getenv("VERIF_SEARCH") == "1"}
	defer h.closeWorkers()
	if replay != "" {
		h.replayOne(replay)
		return res
	}
	h.runC12()
	h.runC11()
	h.runShared(sharedConfigs(tier))
	h.runLenSources(lenConfigs())
	if tier == "thorough" {
		h.runRealOS()
	}
	return res
}
