package main

import (
	"go/ast"
	"go/token"
	"strconv"
	"strings"

	"verif/harness/internal/fact"
)

// ---- tiny Go-condition → Lean translator: comparisons over named atoms, && || !

type cpx struct {
	g     *fact.Gen
	atoms map[string]string // white-space-free Go source of a sub-expression -> Lean term
	bad   string
}

func (t *cpx) expr(e ast.Expr) string {
	if a, ok := t.atoms[t.g.Src(e)]; ok {
		return a
	}
	switch v := e.(type) {
	case *ast.ParenExpr:
		return t.expr(v.X)
	case *ast.BasicLit:
		if v.Kind == token.INT {
			return v.Value
		}
	case *ast.UnaryExpr:
		if v.Op == token.NOT {
			return "(!(" + t.expr(v.X) + "))"
		}
	case *ast.BinaryExpr:
		a, b := t.expr(v.X), t.expr(v.Y)
		switch v.Op {
		case token.LAND:
			return "(" + a + " && " + b + ")"
		case token.LOR:
			return "(" + a + " || " + b + ")"
		case token.EQL:
			return "decide (" + a + " = " + b + ")"
		case token.NEQ:
			return "decide (" + a + " ≠ " + b + ")"
		case token.LSS:
			return "decide (" + a + " < " + b + ")"
		case token.GTR:
			return "decide (" + a + " > " + b + ")"
		case token.LEQ:
			return "decide (" + a + " ≤ " + b + ")"
		case token.GEQ:
			return "decide (" + a + " ≥ " + b + ")"
		case token.SUB:
			return "(" + a + " - " + b + ")"
		case token.ADD:
			return "(" + a + " + " + b + ")"
		}
	case *ast.CallExpr:
		// bytes.Equal(a, b) is equality of the two values
		if t.g.Src(v.Fun) == "bytes.Equal" && len(v.Args) == 2 {
			return "decide (" + t.expr(v.Args[0]) + " = " + t.expr(v.Args[1]) + ")"
		}
	}
	if t.bad == "" {
		t.bad = "untranslatable: " + t.g.Pretty(e)
	}
	return "false"
}

type cpGen struct {
	g *fact.Gen
}

// def emits `def name sig := body`; extract returns (body, why-lost).
func (c *cpGen) def(name, doc, sig, pinned string, extract func() (string, string)) {
	body, why := extract()
	if why != "" {
		body = pinned
		c.g.Lost(name, why)
	} else {
		c.g.Found(name, body)
	}
	c.g.Emit("/-- %s -/\ndef %s %s := %s\n", doc, name, sig, body)
}

func (c *cpGen) boolFact(name, doc string, pinned bool, decide func() (bool, string)) {
	c.g.EmitBool(name, doc, pinned, func() (bool, bool, string) {
		v, why := decide()
		return v, why == "", why
	})
}

func (c *cpGen) cond(e ast.Expr, atoms map[string]string) (string, string) {
	t := &cpx{g: c.g, atoms: atoms}
	s := t.expr(e)
	return s, t.bad
}

// stmts lists the statements of a block and of every nested block, in source order.
func allIfs(n ast.Node) []*ast.IfStmt {
	var out []*ast.IfStmt
	ast.Inspect(n, func(x ast.Node) bool {
		if is, ok := x.(*ast.IfStmt); ok {
			out = append(out, is)
		}
		return true
	})
	return out
}

func (c *cpGen) findIf(fn *ast.FuncDecl, pred func(is *ast.IfStmt) bool) *ast.IfStmt {
	if fn == nil {
		return nil
	}
	for _, is := range allIfs(fn.Body) {
		if pred(is) {
			return is
		}
	}
	return nil
}

func (c *cpGen) calls(n ast.Node, fun string) []*ast.CallExpr {
	var out []*ast.CallExpr
	if n == nil {
		return nil
	}
	ast.Inspect(n, func(x ast.Node) bool {
		if ce, ok := x.(*ast.CallExpr); ok && c.g.Src(ce.Fun) == fun {
			out = append(out, ce)
		}
		return true
	})
	return out
}

func (c *cpGen) firstStmtIs(is *ast.IfStmt, src string) bool {
	return is != nil && len(is.Body.List) > 0 && c.g.Src(is.Body.List[0]) == src
}

func (c *cpGen) evalConst(rel string, e ast.Expr, depth int) (int, bool) {
	if depth > 40 {
		return 0, false
	}
	switch v := e.(type) {
	case *ast.BasicLit:
		n, err := strconv.Atoi(v.Value)
		return n, err == nil
	case *ast.ParenExpr:
		return c.evalConst(rel, v.X, depth+1)
	case *ast.Ident:
		for _, f := range []string{rel, "cache/hash.go"} {
			if d := c.g.TopLevelValue(f, v.Name); d != nil {
				return c.evalConst(f, d, depth+1)
			}
		}
	case *ast.BinaryExpr:
		a, ok1 := c.evalConst(rel, v.X, depth+1)
		b, ok2 := c.evalConst(rel, v.Y, depth+1)
		if ok1 && ok2 {
			switch v.Op {
			case token.ADD:
				return a + b, true
			case token.SUB:
				return a - b, true
			case token.MUL:
				return a * b, true
			}
		}
	}
	return 0, false
}

func genCachePut(g *fact.Gen) {
	const rel = "cache/cache.go"
	c := &cpGen{g: g}
	put := g.Method(rel, "Cache", "put")
	cf := g.Method(rel, "Cache", "copyFile")
	pie := g.Method(rel, "Cache", "putIndexEntry")
	getFile := g.Method(rel, "Cache", "GetFile")
	getBytes := g.Method(rel, "Cache", "GetBytes")
	get := g.Method(rel, "Cache", "get")
	src := func(n ast.Node) string {
		if n == nil {
			return ""
		}
		return g.Src(n)
	}
	has := func(n ast.Node, sub string) bool { return n != nil && strings.Contains(g.Src(n), sub) }
	initHas := func(is *ast.IfStmt, sub string) bool { return is.Init != nil && strings.Contains(g.Src(is.Init), sub) }

	c.def("entrySize", "cache.go: `const entrySize` (with HashSize from hash.go)", ": Nat", "175", func() (string, string) {
		e := g.TopLevelValue(rel, "entrySize")
		if e == nil {
			return "", "const entrySize not found"
		}
		n, ok := c.evalConst(rel, e, 0)
		if !ok {
			return "", "entrySize is not a constant expression over literals, HashSize, hexSize"
		}
		return strconv.Itoa(n), ""
	})

	// ---------------------------------------------------------------- put
	var copyCall, indexCall token.Pos
	if put != nil {
		if cs := c.calls(put.Body, "c.copyFile"); len(cs) == 1 {
			copyCall = cs[0].Pos()
		}
		if cs := c.calls(put.Body, "c.putIndexEntry"); len(cs) == 1 {
			indexCall = cs[0].Pos()
		}
	}
	c.boolFact("indexAfterCopy", "put: hash pass, then `c.copyFile(file, out, size)`, then `c.putIndexEntry(id, out, size, allowVerify)` — the index entry is written AFTER copyFile", true, func() (bool, string) {
		if copyCall == 0 || indexCall == 0 {
			return false, "put does not call copyFile and putIndexEntry exactly once each"
		}
		return copyCall < indexCall, ""
	})
	c.boolFact("copyErrSkipsIndex", "put: `if err := c.copyFile(file, out, size); err != nil { return out, size, err }` — a failed copy never reaches putIndexEntry", true, func() (bool, string) {
		if put == nil || copyCall == 0 {
			return false, "call of copyFile in put not found"
		}
		is := c.findIf(put, func(is *ast.IfStmt) bool { return initHas(is, "c.copyFile(") })
		if is == nil {
			// the error of copyFile is not tested by an if statement of this shape
			if has(put.Body, "c.copyFile(") {
				return false, ""
			}
			return false, "call of copyFile in put not found"
		}
		ret := false
		for _, st := range is.Body.List {
			if _, ok := st.(*ast.ReturnStmt); ok {
				ret = true
			}
		}
		return src(is.Cond) == "err!=nil" && ret, ""
	})

	// ---------------------------------------------------------------- copyFile
	reuseIf := c.findIf(cf, func(is *ast.IfStmt) bool { return has(is.Body, "os.Open(name)") && has(is.Cond, "info.Size()") })
	c.def("reuseCheck", "copyFile: `info, err := os.Stat(name)`; ⇒ re-hash the existing file", "(statOk : Bool) (infoSize size : Nat) : Bool", "(statOk && decide (infoSize = size))", func() (string, string) {
		if reuseIf == nil {
			return "", "the `if … { if f, err := os.Open(name) …` statement of copyFile was not found"
		}
		return c.cond(reuseIf.Cond, map[string]string{"err==nil": "statOk", "info.Size()": "infoSize", "size": "size"})
	})
	var hitIf *ast.IfStmt
	if reuseIf != nil {
		for _, is := range allIfs(reuseIf.Body) {
			if has(is.Cond, "out2") {
				hitIf = is
			}
		}
	}
	c.def("reuseHit", "copyFile: out2 = hash of the existing file; ⇒ return nil without writing", "{α : Type} [DecidableEq α] (out out2 : α) : Bool", "decide (out = out2)", func() (string, string) {
		if hitIf == nil {
			return "", "the comparison with out2 in the reuse branch was not found"
		}
		retNil := false
		for _, st := range hitIf.Body.List {
			if src(st) == "returnnil" {
				retNil = true
			}
		}
		if !retNil {
			return "", "the reuse branch does not `return nil`"
		}
		return c.cond(hitIf.Cond, map[string]string{"out": "out", "out2": "out2"})
	})
	c.boolFact("copyReuseRefreshes", "copyFile: the reuse branch calls `c.used(name)` (stat, chtimes if the mtime is old) before `return nil`", true, func() (bool, string) {
		if hitIf == nil {
			return false, "the reuse branch was not found"
		}
		for _, st := range hitIf.Body.List {
			if src(st) == "c.used(name)" {
				return true, ""
			}
			if src(st) == "returnnil" {
				return false, ""
			}
		}
		return false, "the reuse branch has an unrecognised shape"
	})
	truncIf := c.findIf(cf, func(is *ast.IfStmt) bool { return has(is.Body, "os.O_TRUNC") })
	c.def("dataOpenTrunc", "copyFile: ⇒ `mode |= os.O_TRUNC` (mode = O_RDWR|O_CREATE)", "(statOk : Bool) (infoSize size : Nat) : Bool", "(statOk && decide (infoSize > size))", func() (string, string) {
		if cf == nil {
			return "", "copyFile not found"
		}
		if !has(cf.Body, "mode:=os.O_RDWR|os.O_CREATE") {
			return "", "`mode := os.O_RDWR | os.O_CREATE` not found"
		}
		if truncIf == nil {
			return "false", ""
		}
		if !c.firstStmtIs(truncIf, "mode|=os.O_TRUNC") {
			return "", "O_TRUNC statement has an unrecognised shape"
		}
		return c.cond(truncIf.Cond, map[string]string{"err==nil": "statOk", "info.Size()": "infoSize", "size": "size"})
	})
	emptyIf := c.findIf(cf, func(is *ast.IfStmt) bool {
		return is.Init == nil && has(is.Cond, "size") && !has(is.Cond, "info") && c.firstStmtIs(is, "returnnil")
	})
	c.def("emptyReturn", "copyFile: ⇒ return nil right after opening", "(size : Nat) : Bool", "decide (size = 0)", func() (string, string) {
		if cf == nil {
			return "", "copyFile not found"
		}
		if emptyIf == nil {
			return "false", ""
		}
		return c.cond(emptyIf.Cond, map[string]string{"size": "size"})
	})
	copyNIf := c.findIf(cf, func(is *ast.IfStmt) bool { return initHas(is, "io.CopyN(") })
	c.def("firstLen", "copyFile: `io.CopyN(w, file, …)`: number of bytes copied before the re-check", "(size : Nat) : Nat", "(size - 1)", func() (string, string) {
		cs := c.calls(cf, "io.CopyN")
		if cf == nil || len(cs) != 1 || len(cs[0].Args) != 3 || src(cs[0].Args[0]) != "w" || src(cs[0].Args[1]) != "file" {
			return "", "`io.CopyN(w, file, n)` not found exactly once"
		}
		if !has(cf.Body, "w:=io.MultiWriter(f,h)") {
			return "", "`w := io.MultiWriter(f, h)` not found"
		}
		return c.cond(cs[0].Args[2], map[string]string{"size": "size"})
	})
	mismatchIf := c.findIf(cf, func(is *ast.IfStmt) bool { return has(is.Cond, "bytes.Equal(sum") })
	c.def("underfoot", "copyFile: sum = hash of the bytes of the second pass; ⇒ \"file content changed underfoot\"", "{α : Type} [DecidableEq α] (sum out : α) : Bool", "(!(decide (sum = out)))", func() (string, string) {
		if mismatchIf == nil {
			return "", "the `bytes.Equal(sum, out[:])` test was not found"
		}
		ret := false
		for _, st := range mismatchIf.Body.List {
			if _, ok := st.(*ast.ReturnStmt); ok {
				ret = true
			}
		}
		if !ret || !has(cf.Body, "h.Write(buf)") || !has(cf.Body, "sum:=h.Sum(nil)") {
			return "", "the re-check has an unrecognised shape"
		}
		return c.cond(mismatchIf.Cond, map[string]string{"sum": "sum", "out[:]": "out"})
	})
	seekIf := c.findIf(cf, func(is *ast.IfStmt) bool { return initHas(is, "file.Seek(0,0)") })
	lastReadIf := c.findIf(cf, func(is *ast.IfStmt) bool { return initHas(is, "file.Read(buf)") })
	commitIf := c.findIf(cf, func(is *ast.IfStmt) bool { return initHas(is, "f.Write(buf)") })
	truncFact := func(name, doc string, is *ast.IfStmt, what string) {
		c.boolFact(name, doc, true, func() (bool, string) {
			if is == nil {
				return false, what + " not found in copyFile"
			}
			return c.firstStmtIs(is, "f.Truncate(0)"), ""
		})
	}
	truncFact("truncOnSeekErr", "copyFile: the second `file.Seek(0, 0)` failing ⇒ `f.Truncate(0)` before returning the error", seekIf, "`if _, err := file.Seek(0, 0); …`")
	truncFact("truncOnCopyErr", "copyFile: `io.CopyN` failing ⇒ `f.Truncate(0)` before returning the error", copyNIf, "`if _, err := io.CopyN(…); …`")
	truncFact("truncOnLastReadErr", "copyFile: `file.Read(buf)` of the last byte failing ⇒ `f.Truncate(0)` before returning the error", lastReadIf, "`if _, err := file.Read(buf); …`")
	truncFact("truncOnMismatch", "copyFile: hash mismatch on the second pass ⇒ `f.Truncate(0)` before returning the error", mismatchIf, "the hash re-check")
	truncFact("truncOnCommitErr", "copyFile: `f.Write(buf)` of the last byte failing ⇒ `f.Truncate(0)` before returning the error", commitIf, "`if _, err := f.Write(buf); …`")
	c.boolFact("copyNBeforeCheck", "copyFile: `io.CopyN(w, file, size-1)` comes before the hash re-check", true, func() (bool, string) {
		if copyNIf == nil || mismatchIf == nil {
			return false, "CopyN or re-check not found"
		}
		return copyNIf.Pos() < mismatchIf.Pos(), ""
	})
	c.boolFact("checkBeforeLastByte", "copyFile: the hash re-check (`!bytes.Equal(sum, out[:])`) comes before `f.Write(buf)` of the last byte", true, func() (bool, string) {
		if commitIf == nil || mismatchIf == nil {
			return false, "re-check or last-byte write not found"
		}
		if n := len(c.calls(cf, "f.Write")) + len(c.calls(cf, "f.WriteAt")) + len(c.calls(cf, "f.WriteString")); n != 1 {
			return false, "copyFile writes to f directly in " + strconv.Itoa(n) + " places"
		}
		return mismatchIf.Pos() < commitIf.Pos(), ""
	})
	closeIf := c.findIf(cf, func(is *ast.IfStmt) bool { return initHas(is, "f.Close()") })
	c.boolFact("removeOnCloseErr", "copyFile: `f.Close()` failing ⇒ `os.Remove(name)`", true, func() (bool, string) {
		if closeIf == nil {
			return false, "`if err := f.Close(); …` not found"
		}
		return has(closeIf.Body, "os.Remove(name)"), ""
	})
	c.boolFact("closeBeforeChtimes", "copyFile: `f.Close()` comes before `os.Chtimes(name, …)`", true, func() (bool, string) {
		cs := c.calls(cf, "os.Chtimes")
		if closeIf == nil || len(cs) != 1 {
			return false, "Close / Chtimes not found"
		}
		return closeIf.Pos() < cs[0].Pos() && (commitIf == nil || commitIf.Pos() < closeIf.Pos()), ""
	})

	// ---------------------------------------------------------------- putIndexEntry
	var modeRHS string
	if pie != nil {
		ast.Inspect(pie.Body, func(x ast.Node) bool {
			if as, ok := x.(*ast.AssignStmt); ok && len(as.Lhs) == 1 && src(as.Lhs[0]) == "mode" && len(as.Rhs) == 1 {
				modeRHS = src(as.Rhs[0])
			}
			return true
		})
	}
	usesMode := pie != nil && has(pie.Body, "os.OpenFile(file,mode,")
	c.boolFact("indexOpenTrunc", "putIndexEntry: the open mode contains os.O_TRUNC", false, func() (bool, string) {
		if modeRHS == "" || !usesMode {
			return false, "`mode := …; os.OpenFile(file, mode, …)` not found"
		}
		return strings.Contains(modeRHS, "os.O_TRUNC"), ""
	})
	c.boolFact("indexOpenCreate", "putIndexEntry: the open mode is O_WRONLY|O_CREATE", true, func() (bool, string) {
		if modeRHS == "" || !usesMode {
			return false, "`mode := …; os.OpenFile(file, mode, …)` not found"
		}
		return strings.Contains(modeRHS, "os.O_CREATE") && strings.Contains(modeRHS, "os.O_WRONLY") && !strings.Contains(modeRHS, "O_APPEND") && !strings.Contains(modeRHS, "O_EXCL"), ""
	})
	var writeCalls []*ast.CallExpr
	if pie != nil {
		writeCalls = append(c.calls(pie.Body, "f.WriteString"), c.calls(pie.Body, "f.Write")...)
	}
	c.boolFact("indexSingleWrite", "putIndexEntry: the entry is written by exactly one `f.WriteString(entry)` call", true, func() (bool, string) {
		if pie == nil {
			return false, "putIndexEntry not found"
		}
		return len(writeCalls) == 1 && len(writeCalls[0].Args) == 1 && src(writeCalls[0].Args[0]) == "entry", ""
	})
	truncAfter := c.findIf(pie, func(is *ast.IfStmt) bool { return has(is.Body, "f.Truncate(") })
	c.boolFact("indexTruncAfterWrite", "putIndexEntry: `f.Truncate(int64(len(entry)))` after (and only after) a successful write", true, func() (bool, string) {
		if pie == nil || len(writeCalls) == 0 {
			return false, "putIndexEntry / its write not found"
		}
		if truncAfter == nil {
			if has(pie.Body, "f.Truncate(") {
				return false, "Truncate in putIndexEntry has an unrecognised shape"
			}
			return false, ""
		}
		ok := src(truncAfter.Cond) == "err==nil" && c.firstStmtIs(truncAfter, "err=f.Truncate(int64(len(entry)))") && writeCalls[0].Pos() < truncAfter.Pos()
		if !ok {
			return false, "Truncate in putIndexEntry has an unrecognised shape"
		}
		return true, ""
	})
	removeIf := c.findIf(pie, func(is *ast.IfStmt) bool { return has(is.Body, "os.Remove(file)") })
	c.boolFact("indexRemoveOnErr", "putIndexEntry: write / truncate / close error ⇒ `os.Remove(file)`", true, func() (bool, string) {
		if pie == nil {
			return false, "putIndexEntry not found"
		}
		if removeIf == nil {
			return false, ""
		}
		return src(removeIf.Cond) == "err!=nil" && has(pie.Body, "ifcloseErr:=f.Close();err==nil{err=closeErr}"), ""
	})
	c.boolFact("indexCloseBeforeChtimes", "putIndexEntry: `f.Close()` comes before `os.Chtimes(file, …)`", true, func() (bool, string) {
		cl := c.calls(pie, "f.Close")
		ch := c.calls(pie, "os.Chtimes")
		if len(cl) != 1 || len(ch) != 1 {
			return false, "Close / Chtimes not found"
		}
		return cl[0].Pos() < ch[0].Pos(), ""
	})

	// ---------------------------------------------------------------- lookups
	c.def("getFileReject", "GetFile: `info, err := os.Stat(file)`; ⇒ not found (\"file incomplete\")", "(infoSize eSize : Nat) : Bool", "decide (infoSize ≠ eSize)", func() (string, string) {
		is := c.findIf(getFile, func(is *ast.IfStmt) bool { return has(is.Cond, "info.Size()") })
		if is == nil {
			return "false", ""
		}
		return c.cond(is.Cond, map[string]string{"info.Size()": "infoSize", "entry.Size": "eSize"})
	})
	c.def("getBytesReject", "GetBytes: ⇒ not found (\"bad checksum\"); sum = `sha256.Sum256(data)`, out = `entry.OutputID`", "{α : Type} [DecidableEq α] (sum out : α) : Bool", "decide (sum ≠ out)", func() (string, string) {
		is := c.findIf(getBytes, func(is *ast.IfStmt) bool { return has(is.Cond, "sha256.Sum256(data)") })
		if is == nil {
			return "false", ""
		}
		return c.cond(is.Cond, map[string]string{"sha256.Sum256(data)": "sum", "entry.OutputID": "out"})
	})
	c.def("getBufLen", "get: `entry := make([]byte, entrySize+1)`; ReadFull; more than entrySize bytes ⇒ \"too long\"", ": Nat", "(entrySize + 1)", func() (string, string) {
		if get == nil {
			return "", "get not found"
		}
		var e ast.Expr
		ast.Inspect(get.Body, func(x ast.Node) bool {
			if as, ok := x.(*ast.AssignStmt); ok && len(as.Lhs) == 1 && src(as.Lhs[0]) == "entry" && len(as.Rhs) == 1 {
				if ce, ok := as.Rhs[0].(*ast.CallExpr); ok && src(ce.Fun) == "make" && len(ce.Args) == 2 && e == nil {
					e = ce.Args[1]
				}
			}
			return true
		})
		if e == nil || !has(get.Body, "io.ReadFull(f,entry);n>entrySize") {
			return "", "`entry := make([]byte, …)` / `io.ReadFull(f, entry); n > entrySize` not found"
		}
		return c.cond(e, map[string]string{"entrySize": "entrySize"})
	})
}
