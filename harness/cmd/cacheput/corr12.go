package main

// C12: every file-operation boundary of one Put × source behaviours × start states × sizes.

import (
	"bytes"
	"crypto/sha256"
	"fmt"
	"os"
	"path/filepath"
	"runtime"
	"sort"
	"strconv"
	"strings"
	"sync"

	"github.com/rogpeppe/go-internal/cache"

	"verif/harness/internal/corr"
)

type harness struct {
	res      *corr.Result
	tier     string
	seed     int64
	shimBin  string
	modelBin string
	base     string
	search   bool
	mu       sync.Mutex
	workers  []*worker
	samples  int
}

func (h *harness) nworkers() int {
	n := runtime.NumCPU()
	if n > 12 {
		n = 12
	}
	if n < 1 {
		n = 1
	}
	return n
}

// parallel runs f(worker, i) for i in [0,n) on the worker pool.
func (h *harness) parallel(n int, f func(w *worker, i int)) error {
	if h.workers == nil {
		for k := 0; k < h.nworkers(); k++ {
			w, err := newWorker(h.shimBin, h.modelBin, h.base, k)
			if err != nil {
				return err
			}
			h.workers = append(h.workers, w)
		}
	}
	ch := make(chan int)
	var wg sync.WaitGroup
	for _, w := range h.workers {
		wg.Add(1)
		go func(w *worker) {
			defer wg.Done()
			for i := range ch {
				f(w, i)
			}
		}(w)
	}
	for i := 0; i < n; i++ {
		ch <- i
	}
	close(ch)
	wg.Wait()
	return nil
}

func (h *harness) closeWorkers() {
	for _, w := range h.workers {
		w.close()
	}
	h.workers = nil
}

// outcome of one case, merged into the Result in case order (determinism).
type outcome struct {
	caseStr   string
	disagree  [][3]string // case, impl, model
	violation [][4]string // prop, input, what, class
	dist      map[string]int
	oracle    map[string]int
	nontriv   bool
	sample    map[string]string
	obs       []string
}

func newOutcome(c string) *outcome {
	return &outcome{caseStr: c, dist: map[string]int{}, oracle: map[string]int{}}
}

func (h *harness) merge(outs []*outcome) {
	for _, o := range outs {
		if o == nil {
			continue
		}
		h.res.Evaluations++
		if o.nontriv {
			h.res.DistinctNontrivial++
		}
		for _, d := range o.disagree {
			// fault / crash scenarios concern C12, concurrent fault-free ones C11
			prop := "C12"
			if strings.HasPrefix(o.caseStr, "c11:") {
				prop = "C11"
			}
			h.res.DisagreeFor([]string{prop}, d[0], d[1], d[2])
		}
		for _, v := range o.violation {
			h.res.Violate(v[0], v[1], v[2], v[3])
		}
		for k, v := range o.dist {
			h.res.Distribution[k] += v
		}
		for k, v := range o.oracle {
			h.res.OracleChecked[k] += v
		}
		if o.sample != nil && h.samples < 6 {
			h.samples++
			h.res.Samples = append(h.res.Samples, o.sample)
		}
		for _, s := range o.obs {
			if len(h.res.Observations) < 20 {
				h.res.Observations = append(h.res.Observations, s)
			}
		}
	}
}

// ---------------------------------------------------------------- C12 cases

type c12combo struct {
	ci    int    // content index of the Put under test (id 1)
	start string // empty | other | present | shared | trimmed | shorter | samesize | longer
	src   string // "" | e<o> | s<o> | c<o> | E | k
	now   string
}

func (c c12combo) String() string {
	s := c.src
	if s == "" {
		s = "-"
	}
	return fmt.Sprintf("%d:%s:%s:%s", c.ci, c.start, s, c.now)
}

func c12caseStr(c c12combo, fault string) string {
	if fault == "" {
		fault = "-"
	}
	return "c12:" + c.String() + ":" + strings.ReplaceAll(fault, ":", "/")
}

func parseC12(s string) (c12combo, string, bool) {
	f := strings.Split(s, ":")
	if len(f) != 6 || f[0] != "c12" {
		return c12combo{}, "", false
	}
	ci, err := strconv.Atoi(f[1])
	if err != nil {
		return c12combo{}, "", false
	}
	c := c12combo{ci: ci, start: f[2], src: f[3], now: f[4]}
	if c.src == "-" {
		c.src = ""
	}
	fault := strings.ReplaceAll(f[5], "/", ":")
	if fault == "-" {
		fault = ""
	}
	return c, fault, true
}

func (c c12combo) putOp() string {
	if c.src == "" {
		return fmt.Sprintf("p1,%d", c.ci)
	}
	return fmt.Sprintf("P1,%d,%s", c.ci, c.src)
}

func (c c12combo) unrelated() int {
	if c.ci == 4 {
		return 3
	}
	return 4
}

func (c c12combo) damaged() bool {
	return c.start == "shorter" || c.start == "samesize" || c.start == "longer"
}

const lookupProcs = "b1;f1;g1;b2;f2"

// lookups lists the lookups run (in a fresh process) after the Put under test.
func (c c12combo) lookups() string {
	if c.start == "shared" {
		return lookupProcs + ";b3;f3"
	}
	return lookupProcs
}

// full = false (quick tier): the start "shared" is combined with the first six source behaviours only (none, E, k
// and the three kinds at offset 0) — its output is valid, so the second pass of the source is normally never read.
func c12combos(full bool) []c12combo {
	var out []c12combo
	for _, ci := range []int{0, 1, 2, 3, 4, 5} {
		size := len(content(ci))
		srcs := []string{"", "E", "k"}
		seen := map[int]bool{}
		for _, o := range []int{0, 1, size / 2, size - 1} {
			if o < 0 || o >= size && o != 0 || seen[o] {
				continue
			}
			seen[o] = true
			for _, k := range []string{"e", "s", "c"} {
				srcs = append(srcs, fmt.Sprintf("%s%d", k, o))
			}
		}
		for _, st := range []string{"empty", "other", "present", "shared", "trimmed", "shorter", "samesize", "longer"} {
			if size == 0 && (st == "shorter" || st == "samesize") {
				continue
			}
			for i, s := range srcs {
				if st == "shared" && !full && i >= 6 {
					continue
				}
				now := nowFresh
				if (i+ci+len(st))%3 == 0 {
					now = nowStale
				}
				out = append(out, c12combo{ci: ci, start: st, src: s, now: now})
			}
		}
	}
	return out
}

type osOp struct {
	index    int
	op       string
	writeLen int
}

func osOpsOf(t *trace) []osOp {
	var out []osOp
	for _, e := range t.evs {
		if !osOps[e.op] {
			continue
		}
		o := osOp{index: len(out), op: e.op}
		if e.op == "write" && len(e.args) > 1 && e.args[1] != "-" {
			o.writeLen = len(e.args[1]) / 2
		}
		out = append(out, o)
	}
	return out
}

func faultsFor(ops []osOp) []string {
	var out []string
	for _, o := range ops {
		for _, k := range []string{"crashbefore", "crashafter", "fail"} {
			out = append(out, fmt.Sprintf("%d:%s", o.index, k))
		}
		if o.op == "write" {
			seen := map[int]bool{}
			for _, k := range []int{0, 1, o.writeLen / 2, o.writeLen - 1} {
				if k < 0 || seen[k] {
					continue
				}
				seen[k] = true
				out = append(out, fmt.Sprintf("%d:short:%d", o.index, k))
			}
		}
	}
	return out
}

// prepare builds the start state of a combo in the worker's directory.
func (w *worker) prepare(c c12combo) error {
	clearDir(w.dir)
	setup := fmt.Sprintf("p2,%d", c.unrelated())
	switch c.start {
	case "empty":
	case "other":
		oc := 6
		if c.ci == 6 {
			oc = 3
		}
		setup += fmt.Sprintf(";p1,%d", oc)
	case "shared": // ANOTHER action id (id3) already holds the very content that is about to be stored under id1
		setup += fmt.Sprintf(";p3,%d", c.ci)
	default:
		setup += fmt.Sprintf(";p1,%d", c.ci)
	}
	t, err := w.runImpl(setup, "1", "", c.now)
	if err != nil {
		return err
	}
	if t.end != "done" {
		return fmt.Errorf("setup did not finish: %s", t.end)
	}
	if c.start == "trimmed" { // what Trim leaves when only the output was old: the index entry without its data file
		out := sha256.Sum256(content(c.ci))
		os.Remove(filepath.Join(w.dir, fmt.Sprintf("%02x", out[0]), fmt.Sprintf("%x-d", out)))
	}
	if c.damaged() {
		data := content(c.ci)
		out := sha256.Sum256(data)
		name := filepath.Join(w.dir, fmt.Sprintf("%02x", out[0]), fmt.Sprintf("%x-d", out))
		var nd []byte
		switch c.start {
		case "shorter":
			nd = append([]byte{}, data[:len(data)/2]...)
		case "samesize":
			nd = append([]byte{}, data...)
			nd[0] ^= 0x55
		case "longer":
			nd = append(append([]byte{}, data...), 'X', 'Y')
		}
		if err := os.WriteFile(name, nd, 0o666); err != nil {
			return err
		}
	}
	return nil
}

// oracleC12 checks the statement of C12 on the directory with the unmodified package.
//
// Start "shared": id3 was stored with the content the Put under test offers for id1, so the two share one
// (valid, complete) output file.  id3 is an entry of another action; a failed Put of id1 must leave it
// readable.  This is asserted whenever the Put suffers at most ONE misbehaviour — either its source
// misbehaves or one file operation is hit, not both: with both (for instance the stat of the existing
// output fails AND the source yields different bytes on its second pass) the code at HEAD rewrites the shared
// output in place from the bad source and then truncates it; that history is reported as an observation,
// not as a violation (DESIGN §6.4 reads "unrelated" as "another output").
func oracleC12(o *outcome, dir string, c c12combo, fault string) {
	o.oracle["C12"]++
	cc, err := cache.Open(dir)
	if err != nil {
		o.obs = append(o.obs, "oracle: cache.Open: "+err.Error())
		return
	}
	ids := []int{1, 2}
	if c.start == "shared" {
		ids = append(ids, 3)
	}
	for _, id := range ids {
		data, e, err := cc.GetBytes(actionID(id))
		if err == nil {
			if sha256.Sum256(data) != [32]byte(e.OutputID) {
				o.violation = append(o.violation, [4]string{"C12", o.caseStr, fmt.Sprintf("GetBytes(id%d) returned bytes whose SHA-256 is not the reported OutputID", id), "getbytes-hash"})
			}
		}
		file, fe, ferr := cc.GetFile(actionID(id))
		if ferr == nil && (!c.damaged() || id != 1) {
			fd, rerr := os.ReadFile(file)
			if rerr != nil || int64(len(fd)) != fe.Size || sha256.Sum256(fd) != [32]byte(fe.OutputID) {
				o.violation = append(o.violation, [4]string{"C12", o.caseStr, fmt.Sprintf("GetFile(id%d) names a file that does not hold the bytes of the reported OutputID/size (len %d, size %d)", id, len(fd), fe.Size), "getfile-content"})
			}
		}
		if id == 2 {
			want := content(c.unrelated())
			if err != nil || !bytes.Equal(data, want) || ferr != nil {
				o.violation = append(o.violation, [4]string{"C12", o.caseStr, "the unrelated entry id2 (other output) is no longer readable after the failed Put", "unrelated-unreadable"})
			}
		}
		if id == 3 {
			want := content(c.ci)
			if err != nil || !bytes.Equal(data, want) || ferr != nil {
				if c.src != "" && fault != "" {
					o.dist["c12:observation:shared-output-lost-under-source-and-file-fault"]++
				} else {
					o.violation = append(o.violation, [4]string{"C12", o.caseStr, "the entry id3 of another action (same content as the Put under test, stored and valid beforehand) is no longer readable after the Put of id1", "shared-output-unreadable"})
				}
			}
		}
	}
}

// evalC12 checks one executed case: replay of the Put, lookups in a fresh process (+ replay), oracle.
func (w *worker) evalC12(c c12combo, fault string, s0 []fileState, t *trace) *outcome {
	o := newOutcome(c12caseStr(c, fault))
	s1 := scanDir(w.dir)
	if d, ans := w.checkReplay(c.now, s0, c.putOp(), t, s1); d != "" {
		o.disagree = append(o.disagree, [3]string{o.caseStr, d + ": final " + trunc(summaryOf(s1), 600) + " ; trace " + describeTrace(t), trunc(ans, 1200)})
	}
	tl, err := w.runImpl(c.lookups(), "1", "", c.now)
	if err != nil {
		o.disagree = append(o.disagree, [3]string{o.caseStr, "lookup run: " + err.Error(), ""})
		return o
	}
	s2 := scanDir(w.dir)
	if d, ans := w.checkReplay(c.now, s1, c.lookups(), tl, s2); d != "" {
		o.disagree = append(o.disagree, [3]string{o.caseStr + " (lookups)", d + ": final " + trunc(summaryOf(s2), 600) + " ; trace " + describeTrace(tl), trunc(ans, 1200)})
	}
	oracleC12(o, w.dir, c, fault)
	nops := len(osOpsOf(t))
	o.nontriv = nops > 0 && (fault != "" || c.src != "")
	o.dist["c12:start="+c.start]++
	o.dist[fmt.Sprintf("c12:size=%d", len(content(c.ci)))]++
	if fault != "" {
		f := strings.Split(fault, ":")
		o.dist["c12:fault="+f[1]]++
	} else {
		o.dist["c12:fault=none"]++
	}
	if c.src != "" {
		o.dist["c12:src="+c.src[:1]]++
	} else {
		o.dist["c12:src=none"]++
	}
	putRes := "crashed"
	for _, r := range retsOf(t) {
		if len(r.f) > 1 && r.f[0] == "put" {
			putRes = r.f[1]
		}
	}
	o.dist["c12:put="+putRes]++
	for _, r := range retsOf(tl) {
		if len(r.f) > 1 {
			o.dist["c12:lookup-"+r.f[0]+"="+r.f[1]]++
		}
	}
	o.sample = map[string]string{"case": o.caseStr, "put": putRes, "final": trunc(summaryOf(s1), 300)}
	return o
}

// selectFaults thins the product in the quick tier (the full product runs in thorough).
func (h *harness) selectFaults(c c12combo, k int, faults []string) []string {
	if h.tier == "thorough" || h.search {
		return faults
	}
	if c.src == "" {
		return faults
	}
	// with a misbehaving source: every fault for the small sizes, every third one otherwise
	if c.ci == 2 || c.ci == 3 {
		return faults
	}
	var out []string
	for i, f := range faults {
		if (i+k)%3 == 0 {
			out = append(out, f)
		}
	}
	return out
}

func (h *harness) runC12() {
	combos := c12combos(h.tier == "thorough" || h.search)
	outs := make([][]*outcome, len(combos))
	err := h.parallel(len(combos), func(w *worker, i int) {
		c := combos[i]
		fail := func(what string) {
			o := newOutcome(c12caseStr(c, ""))
			o.disagree = append(o.disagree, [3]string{o.caseStr, what, ""})
			outs[i] = append(outs[i], o)
		}
		if err := w.prepare(c); err != nil {
			fail("cannot prepare the start state: " + err.Error())
			return
		}
		s0 := scanDir(w.dir)
		restoreDir(w.dir, s0) // every run of the combo starts from files with the same (fresh, real) mtimes
		t0, err := w.runImpl(c.putOp(), "1", "", c.now)
		if err != nil {
			fail("instrumented run: " + err.Error())
			return
		}
		outs[i] = append(outs[i], w.evalC12(c, "", s0, t0))
		for _, f := range h.selectFaults(c, i, faultsFor(osOpsOf(t0))) {
			restoreDir(w.dir, s0)
			t, err := w.runImpl(c.putOp(), "1", f, c.now)
			if err != nil {
				fail("instrumented run: " + err.Error())
				return
			}
			outs[i] = append(outs[i], w.evalC12(c, f, s0, t))
		}
	})
	if err != nil {
		h.res.Disagree("<workers>", err.Error(), "")
		return
	}
	for _, l := range outs {
		h.merge(l)
	}
	h.res.Distribution["c12:combos"] = len(combos)
}

// replayOne re-runs a single case given in the group's encoding.
func (h *harness) replayOne(s string) {
	defer h.closeWorkers()
	if c, fault, ok := parseC12(s); ok {
		h.parallel(1, func(w *worker, _ int) {
			if err := w.prepare(c); err != nil {
				h.res.Disagree(s, "cannot prepare: "+err.Error(), "")
				return
			}
			s0 := scanDir(w.dir)
			restoreDir(w.dir, s0)
			t, err := w.runImpl(c.putOp(), "1", fault, c.now)
			if err != nil {
				h.res.Disagree(s, err.Error(), "")
				return
			}
			o := w.evalC12(c, fault, s0, t)
			o.obs = append(o.obs, "trace: "+describeTrace(t))
			h.merge([]*outcome{o})
		})
		return
	}
	if strings.HasPrefix(s, "c11:") {
		h.replayC11(s)
		return
	}
	if cfg, ok := parseLenCfg(s); ok {
		h.runLenSources([]lenCfg{cfg})
		return
	}
	if cfg, ok := parseShared(s); ok {
		// only the interleaving of real goroutines varies: repeat until the violation shows again
		for k := 0; k < 5 && len(h.res.Violations) == 0; k++ {
			h.runShared([]sharedCfg{cfg})
		}
		return
	}
	h.res.Observations = append(h.res.Observations, "unrecognised replay case "+s)
}

func sortedKeys(m map[string]bool) []string {
	var out []string
	for k := range m {
		out = append(out, k)
	}
	sort.Strings(out)
	return out
}
