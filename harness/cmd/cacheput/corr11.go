package main

// C11: several processes × goroutines doing Put / GetBytes / GetFile concurrently under a controlled
// scheduler (random schedules; all schedules with at most two preemptions on two-task configurations).

import (
	"bytes"
	"crypto/sha256"
	"encoding/hex"
	"fmt"
	"math/rand"
	"os"
	"strconv"
	"strings"

	"github.com/rogpeppe/go-internal/cache"
)

type c11scn struct {
	setup string // ops run sequentially by one process beforehand ("" = empty cache)
	procs string
	sched string
	now   string
	label string
}

func (s c11scn) String() string {
	st := s.setup
	if st == "" {
		st = "-"
	}
	return "c11:" + st + ":" + s.procs + ":" + strings.ReplaceAll(s.sched, ":", "/") + ":" + s.now
}

func parseC11(x string) (c11scn, bool) {
	f := strings.Split(x, ":")
	if len(f) != 5 || f[0] != "c11" {
		return c11scn{}, false
	}
	s := c11scn{setup: f[1], procs: f[2], sched: strings.ReplaceAll(f[3], "/", ":"), now: f[4], label: "replay"}
	if s.setup == "-" {
		s.setup = ""
	}
	return s, true
}

// putsOf lists (id, content index) of every Put in an op list specification.
func putsOf(spec string) [][2]int {
	var out [][2]int
	for _, ps := range strings.Split(spec, "|") {
		for _, ts := range strings.Split(ps, "&") {
			for _, op := range strings.Split(ts, ";") {
				if op != "" && (op[0] == 'p' || op[0] == 'P') {
					a := strings.Split(op[1:], ",")
					id, _ := strconv.Atoi(a[0])
					ci, _ := strconv.Atoi(a[1])
					out = append(out, [2]int{id, ci})
				}
			}
		}
	}
	return out
}

func ntasks(procs string) int {
	n := 0
	for _, ps := range strings.Split(procs, "|") {
		n += len(strings.Split(ps, "&"))
	}
	return n
}

// oracleC11 checks the statement of C11 on the reported results and on the final directory.
func oracleC11(o *outcome, dir string, s c11scn, t *trace) {
	o.oracle["C11"]++
	stored := map[int]map[int]bool{} // id -> content indices offered by some Put
	add := func(l [][2]int) {
		for _, p := range l {
			if stored[p[0]] == nil {
				stored[p[0]] = map[int]bool{}
			}
			stored[p[0]][p[1]] = true
		}
	}
	setupPuts, runPuts := putsOf(s.setup), putsOf(s.procs)
	add(setupPuts)
	add(runPuts)
	// ids whose only concurrent writers re-store what the setup stored last
	stable := map[int]int{}
	for _, p := range setupPuts {
		stable[p[0]] = p[1]
	}
	for _, p := range runPuts {
		if c, ok := stable[p[0]]; ok && c != p[1] {
			delete(stable, p[0])
		}
	}
	matches := func(id int, out string, size int) bool {
		for ci := range stored[id] {
			h := sha256.Sum256(content(ci))
			if hex.EncodeToString(h[:]) == out && len(content(ci)) == size {
				return true
			}
		}
		return false
	}
	cur := map[int][]string{}
	for _, e := range t.evs {
		switch e.op {
		case "call":
			cur[e.task] = e.args
		case "ret":
			call := cur[e.task]
			if len(call) < 2 || len(e.args) < 2 || call[0] != e.args[0] {
				continue
			}
			kind := call[0]
			id, _ := strconv.Atoi(call[1])
			switch kind {
			case "getbytes", "getfile", "get":
				if e.args[1] == "ok" {
					out := e.args[2]
					size, _ := strconv.Atoi(e.args[3])
					if !matches(id, out, size) {
						o.violation = append(o.violation, [4]string{"C11", o.caseStr, fmt.Sprintf("%s(id%d) returned an entry (out %s, size %d) that no Put stored for this id", kind, id, trunc(out, 12), size), "foreign-entry"})
					}
					if kind != "get" && len(e.args) >= 6 {
						ln, _ := strconv.Atoi(e.args[5])
						if e.args[4] != out || ln != size {
							o.violation = append(o.violation, [4]string{"C11", o.caseStr, fmt.Sprintf("%s(id%d) returned bytes (len %d, sha %s) that do not match the reported OutputID/size", kind, id, ln, trunc(e.args[4], 12)), "corrupt-data"})
						}
					}
				} else if _, ok := stable[id]; ok {
					o.violation = append(o.violation, [4]string{"C11", o.caseStr, fmt.Sprintf("%s(id%d) missed although the id was stored and only identical content was being re-stored", kind, id), "restore-visible"})
				}
			case "put":
				if e.args[1] != "ok" {
					o.violation = append(o.violation, [4]string{"C11", o.caseStr, fmt.Sprintf("Put(id%d) failed without any injected fault", id), "put-failed"})
				}
			}
		}
	}
	if t.end != "done" {
		return
	}
	// quiescence: every stored id is readable, with bytes some Put stored for it
	cc, err := cache.Open(dir)
	if err != nil {
		o.obs = append(o.obs, "oracle: cache.Open: "+err.Error())
		return
	}
	for id, cs := range stored {
		data, e, err := cc.GetBytes(actionID(id))
		file, fe, ferr := cc.GetFile(actionID(id))
		ok := err == nil && ferr == nil
		if ok {
			ok = false
			for ci := range cs {
				if bytes.Equal(data, content(ci)) {
					ok = true
				}
			}
			fd, rerr := os.ReadFile(file)
			if rerr != nil || !bytes.Equal(fd, data) || int64(len(fd)) != fe.Size || fe.OutputID != e.OutputID || sha256.Sum256(data) != [32]byte(e.OutputID) {
				ok = false
			}
		}
		if !ok {
			o.violation = append(o.violation, [4]string{"C11", o.caseStr, fmt.Sprintf("after all writers finished id%d is not readable with bytes stored for it", id), "quiescent-unreadable"})
		}
	}
}

func (w *worker) evalC11(s c11scn) *outcome {
	o := newOutcome(s.String())
	clearDir(w.dir)
	if s.setup != "" {
		t, err := w.runImpl(s.setup, "1", "", s.now)
		if err != nil || t.end != "done" {
			o.disagree = append(o.disagree, [3]string{o.caseStr, "setup failed", ""})
			return o
		}
	}
	s0 := scanDir(w.dir)
	t, err := w.runImpl(s.procs, s.sched, "", s.now)
	if err != nil {
		o.disagree = append(o.disagree, [3]string{o.caseStr, "instrumented run: " + err.Error(), ""})
		return o
	}
	s1 := scanDir(w.dir)
	if t.end != "done" {
		o.disagree = append(o.disagree, [3]string{o.caseStr, "execution ended with " + t.end + ": " + describeTrace(t), ""})
	}
	if d, ans := w.checkReplay(s.now, s0, s.procs, t, s1); d != "" {
		o.disagree = append(o.disagree, [3]string{o.caseStr, d + ": final " + trunc(summaryOf(s1), 600) + " ; trace " + describeTrace(t), trunc(ans, 1200)})
	}
	oracleC11(o, w.dir, s, t)
	// interleaving measure: number of task switches
	sw, last := 0, -1
	for _, e := range t.evs {
		if osOps[e.op] {
			if last >= 0 && e.task != last {
				sw++
			}
			last = e.task
		}
	}
	o.nontriv = sw >= 1
	o.dist["c11:"+s.label]++
	o.dist[fmt.Sprintf("c11:tasks=%d", ntasks(s.procs))]++
	switch {
	case sw == 0:
		o.dist["c11:switches=0"]++
	case sw <= 2:
		o.dist["c11:switches=1-2"]++
	case sw <= 10:
		o.dist["c11:switches=3-10"]++
	default:
		o.dist["c11:switches>10"]++
	}
	for _, r := range retsOf(t) {
		if len(r.f) > 1 {
			o.dist["c11:"+r.f[0]+"="+r.f[1]]++
		}
	}
	o.sample = map[string]string{"case": o.caseStr, "switches": strconv.Itoa(sw), "final": trunc(summaryOf(s1), 200)}
	return o
}

var c11contents = []int{1, 3, 6}

func randC11(r *rand.Rand, k int) c11scn {
	s := c11scn{now: nowFresh, sched: strconv.FormatInt(r.Int63n(1<<40), 10)}
	if r.Intn(4) == 0 {
		s.now = nowStale
	}
	nproc := 2 + r.Intn(3)
	conts := c11contents
	big := r.Intn(25) == 0
	switch k % 4 {
	case 0: // anything
		s.label = "random-mix"
		if r.Intn(2) == 0 {
			s.setup = fmt.Sprintf("p%d,%d", 1+r.Intn(2), conts[r.Intn(3)])
		}
		var ps []string
		for p := 0; p < nproc; p++ {
			var ts []string
			for g := 0; g < 1+r.Intn(2); g++ {
				var ops []string
				for i := 0; i < 1+r.Intn(2); i++ {
					id := 1 + r.Intn(2)
					switch r.Intn(4) {
					case 0, 1:
						ci := conts[r.Intn(3)]
						if big {
							ci = 5 + 2*r.Intn(2)
						}
						ops = append(ops, fmt.Sprintf("p%d,%d", id, ci))
					case 2:
						ops = append(ops, fmt.Sprintf("b%d", id))
					default:
						ops = append(ops, fmt.Sprintf("f%d", id))
					}
				}
				ts = append(ts, strings.Join(ops, ";"))
			}
			ps = append(ps, strings.Join(ts, "&"))
		}
		s.procs = strings.Join(ps, "|")
	case 1: // re-store identical content while readers look
		s.label = "restore-with-readers"
		ci := conts[r.Intn(3)]
		if big {
			ci = 5
		}
		s.setup = fmt.Sprintf("p1,%d", ci)
		var ps []string
		for p := 0; p < nproc; p++ {
			var ts []string
			for g := 0; g < 1+r.Intn(2); g++ {
				switch r.Intn(3) {
				case 0:
					ts = append(ts, fmt.Sprintf("p1,%d", ci))
				case 1:
					ts = append(ts, "b1;f1")
				default:
					ts = append(ts, "f1;b1")
				}
			}
			ps = append(ps, strings.Join(ts, "&"))
		}
		if !strings.Contains(strings.Join(ps, "|"), "p1") {
			ps[0] = fmt.Sprintf("p1,%d", ci)
		}
		s.procs = strings.Join(ps, "|")
	case 2: // several writers of one output (same content under one or two ids), plus readers
		s.label = "same-output-writers"
		ci := conts[r.Intn(3)]
		if big {
			ci = 7
		}
		var ps []string
		for p := 0; p < nproc; p++ {
			if p < 2 || r.Intn(2) == 0 {
				ps = append(ps, fmt.Sprintf("p%d,%d", 1+r.Intn(2), ci))
			} else {
				ps = append(ps, fmt.Sprintf("b%d&f%d", 1+r.Intn(2), 1+r.Intn(2)))
			}
		}
		s.procs = strings.Join(ps, "|")
	default: // one id, differing contents
		s.label = "same-id-differing-contents"
		if r.Intn(2) == 0 {
			s.setup = fmt.Sprintf("p1,%d", conts[r.Intn(3)])
		}
		var ps []string
		for p := 0; p < nproc; p++ {
			if p < 2 || r.Intn(2) == 0 {
				ps = append(ps, fmt.Sprintf("p1,%d", conts[(p+r.Intn(2))%3]))
			} else {
				ps = append(ps, "b1;f1&f1;b1")
			}
		}
		s.procs = strings.Join(ps, "|")
	}
	return s
}

// dfsConfigs: two tasks, one operation each (at least one Put).
func dfsConfigs() []c11scn {
	mk := func(setup, procs, label string) c11scn {
		return c11scn{setup: setup, procs: procs, now: nowFresh, label: label}
	}
	return []c11scn{
		mk("", "p1,3|p1,3", "dfs:same-id-same-content"),
		mk("", "p1,3|p2,3", "dfs:two-ids-same-output"),
		mk("", "p1,3|p1,6", "dfs:same-id-other-content"),
		mk("p1,3", "p1,3|p1,3", "dfs:restore-twice"),
		mk("p1,3", "p1,3|b1", "dfs:restore-vs-getbytes"),
		mk("p1,3", "p1,3|f1", "dfs:restore-vs-getfile"),
		mk("p1,6", "p1,3|b1", "dfs:overwrite-vs-getbytes"),
		mk("", "p1,2|f1", "dfs:first-put-vs-getfile"),
	}
}

func (h *harness) runC11() {
	r := rand.New(rand.NewSource(h.seed*7919 + 11))
	var scns []c11scn
	// bounded-preemption enumeration: task a runs i steps, task b runs j steps, a runs to its end, then b
	probe := dfsConfigs()
	steps := make([][2]int, len(probe))
	h.parallel(len(probe), func(w *worker, i int) {
		clearDir(w.dir)
		s := probe[i]
		if s.setup != "" {
			w.runImpl(s.setup, "1", "", s.now)
		}
		s0 := scanDir(w.dir)
		for k := 0; k < 2; k++ { // task k alone first: how many scheduling steps does it take?
			restoreDir(w.dir, s0)
			t, err := w.runImpl(s.procs, fmt.Sprintf("g:%d*100000", k), "", s.now)
			if err != nil {
				continue
			}
			n := 0
			for _, e := range t.evs {
				if e.task == k && (osOps[e.op] || e.op == "start") {
					n++
				}
			}
			steps[i][k] = n
		}
	})
	stride := 1
	if h.tier != "thorough" && !h.search {
		stride = 2
	}
	for ci, s := range probe {
		for first := 0; first < 2; first++ {
			other := 1 - first
			for i := 0; i <= steps[ci][first]; i++ {
				for j := 0; j <= steps[ci][other]; j++ {
					if i == 0 && j > 0 {
						continue // same as starting with the other task
					}
					if stride > 1 && (i+j+first+ci)%stride != 0 {
						continue
					}
					c := s
					c.sched = fmt.Sprintf("g:%d*%d,%d*%d", first, i, other, j)
					if i == 0 {
						c.sched = fmt.Sprintf("g:%d*100000", first)
					} else if j == 0 {
						c.sched = fmt.Sprintf("g:%d*100000", first)
						if i < steps[ci][first] {
							continue
						}
					}
					scns = append(scns, c)
				}
			}
		}
	}
	ndfs := len(scns)
	nrand := 2000
	if h.tier == "thorough" {
		nrand = 60000
	}
	for k := 0; k < nrand; k++ {
		scns = append(scns, randC11(r, k))
	}
	outs := make([]*outcome, len(scns))
	if err := h.parallel(len(scns), func(w *worker, i int) { outs[i] = w.evalC11(scns[i]) }); err != nil {
		h.res.Disagree("<workers>", err.Error(), "")
		return
	}
	h.merge(outs)
	h.res.Distribution["c11:bounded-preemption-schedules"] = ndfs
	h.res.Distribution["c11:random-schedules"] = nrand
	h.res.Extra["c11_exhaustive"] = fmt.Sprintf("all schedules with at most 2 preemptions (stride %d in this tier) of %d two-task configurations", stride, len(probe))
}

func (h *harness) replayC11(x string) {
	s, ok := parseC11(x)
	if !ok {
		h.res.Observations = append(h.res.Observations, "unrecognised replay case "+x)
		return
	}
	h.parallel(1, func(w *worker, _ int) {
		o := w.evalC11(s)
		h.merge([]*outcome{o})
	})
}
