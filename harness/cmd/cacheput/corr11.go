package main

// C11: several processes × goroutines doing Put / GetBytes / GetFile concurrently under a controlled
// scheduler (random schedules; all schedules with at most two preemptions on two-task configurations;
// three-task "window" schedules: writer A stopped part-way, writer B runs some steps, A finishes, a reader
// looks before B goes on).  The real-goroutine lane on the unmodified package is in corr11shared.go.

import (
	"bytes"
	"crypto/sha256"
	"encoding/hex"
	"fmt"
	"math/rand"
	"os"
	"strconv"
	"strings"

	"github.com/rogpeppe/go-internal/cache"
)

type c11scn struct {
	setup string // ops run sequentially by one process beforehand ("" = empty cache)
	procs string
	sched string
	now   string
	label string
}

func (s c11scn) String() string {
	st := s.setup
	if st == "" {
		st = "-"
	}
	return "c11:" + st + ":" + s.procs + ":" + strings.ReplaceAll(s.sched, ":", "/") + ":" + s.now
}

func parseC11(x string) (c11scn, bool) {
	f := strings.Split(x, ":")
	if len(f) != 5 || f[0] != "c11" {
		return c11scn{}, false
	}
	s := c11scn{setup: f[1], procs: f[2], sched: strings.ReplaceAll(f[3], "/", ":"), now: f[4], label: "replay"}
	if s.setup == "-" {
		s.setup = ""
	}
	return s, true
}

// putsOf lists (id, content index) of every Put in an op list specification.
func putsOf(spec string) [][2]int {
	var out [][2]int
	for _, ps := range strings.Split(spec, "|") {
		for _, ts := range strings.Split(ps, "&") {
			for _, op := range strings.Split(ts, ";") {
				if op != "" && (op[0] == 'p' || op[0] == 'P') {
					a := strings.Split(op[1:], ",")
					id, _ := strconv.Atoi(a[0])
					ci, _ := strconv.Atoi(a[1])
					out = append(out, [2]int{id, ci})
				}
			}
		}
	}
	return out
}

func ntasks(procs string) int {
	n := 0
	for _, ps := range strings.Split(procs, "|") {
		n += len(strings.Split(ps, "&"))
	}
	return n
}

// hasFaultySrc: some Put of the scenario reads from a source that misbehaves (op `P`).
func hasFaultySrc(spec string) bool { return strings.Contains(spec, "P") }

// oracleC11 checks the statement of C11 on the reported results and on the final directory.
//
// Fault-free scenarios (the property's quantifier): every successful lookup reports an entry / bytes stored
// for that very id by some Put, bytes and file agree with the reported OutputID and size; an id that IS
// stored (by the setup, or by a Put of this run that had returned before the lookup was called) and for
// which every Put of the scenario offers the same content is never missed; every Put succeeds; after
// quiescence every stored id is readable.
//
// Scenarios in which one writer's SOURCE fails (a `P` op; C12's fault next to C11's schedules) are outside
// the quantifier of both properties for everything that relies on the size gate (DESIGN §6.4: the failing
// writer's Truncate(0) can leave a hole under another writer of the same output, GetFile then names a file
// of the right size with a hole, lookups may miss).  What C11 states without reservation — and what the
// checksum gate guarantees in every directory state (getBytes_gate_any_world) — is still demanded there:
// a SUCCESSFUL GetBytes returns bytes whose SHA-256 and length are the reported OutputID and size, and the
// reported entry is one stored for the id.  Nothing else is asserted in those scenarios.
func oracleC11(o *outcome, dir string, s c11scn, t *trace) {
	o.oracle["C11"]++
	faulty := hasFaultySrc(s.procs) || hasFaultySrc(s.setup)
	stored := map[int]map[int]bool{} // id -> content indices offered by some Put
	add := func(l [][2]int) {
		for _, p := range l {
			if stored[p[0]] == nil {
				stored[p[0]] = map[int]bool{}
			}
			stored[p[0]][p[1]] = true
		}
	}
	setupPuts, runPuts := putsOf(s.setup), putsOf(s.procs)
	add(setupPuts)
	add(runPuts)
	// ids for which every Put of the scenario offers one and the same content
	uniform := map[int]bool{}
	for id, cs := range stored {
		uniform[id] = len(cs) == 1
	}
	// storedAt[id]: trace position from which the id counts as stored (-1: by the setup)
	storedAt := map[int]int{}
	for _, p := range setupPuts {
		storedAt[p[0]] = -1
	}
	matches := func(id int, out string, size int) bool {
		for ci := range stored[id] {
			h := sha256.Sum256(content(ci))
			if hex.EncodeToString(h[:]) == out && len(content(ci)) == size {
				return true
			}
		}
		return false
	}
	type callEv struct {
		args []string
		at   int
	}
	cur := map[int]callEv{}
	for i, e := range t.evs {
		switch e.op {
		case "call":
			cur[e.task] = callEv{e.args, i}
		case "ret":
			call := cur[e.task]
			if len(call.args) < 2 || len(e.args) < 2 || call.args[0] != e.args[0] {
				continue
			}
			kind := call.args[0]
			id, _ := strconv.Atoi(call.args[1])
			switch kind {
			case "getbytes", "getfile", "get":
				if e.args[1] == "ok" {
					out := e.args[2]
					size, _ := strconv.Atoi(e.args[3])
					if !matches(id, out, size) {
						o.violation = append(o.violation, [4]string{"C11", o.caseStr, fmt.Sprintf("%s(id%d) returned an entry (out %s, size %d) that no Put stored for this id", kind, id, trunc(out, 12), size), "foreign-entry"})
					}
					if kind != "get" && len(e.args) >= 6 && (!faulty || kind == "getbytes") {
						ln, _ := strconv.Atoi(e.args[5])
						if e.args[4] != out || ln != size {
							class := "corrupt-data"
							if faulty {
								class = "corrupt-bytes-beside-failing-writer"
							}
							o.violation = append(o.violation, [4]string{"C11", o.caseStr, fmt.Sprintf("%s(id%d) returned bytes (len %d, sha %s) that do not match the reported OutputID/size (out %s, size %d)", kind, id, ln, trunc(e.args[4], 12), trunc(out, 12), size), class})
						}
					}
				} else if at, ok := storedAt[id]; ok && uniform[id] && at < call.at && !faulty {
					class, how := "restore-visible", "by the setup"
					if at >= 0 {
						class, how = "stored-then-missed", "by a Put of this run that had already returned"
					}
					o.violation = append(o.violation, [4]string{"C11", o.caseStr, fmt.Sprintf("%s(id%d) missed although the id was stored (%s) and only identical content was being re-stored", kind, id, how), class})
				}
			case "put":
				if e.args[1] == "ok" {
					if _, ok := storedAt[id]; !ok {
						storedAt[id] = i
					}
				} else if !faulty {
					o.violation = append(o.violation, [4]string{"C11", o.caseStr, fmt.Sprintf("Put(id%d) failed without any injected fault", id), "put-failed"})
				}
			}
		}
	}
	if t.end != "done" {
		return
	}
	cc, err := cache.Open(dir)
	if err != nil {
		o.obs = append(o.obs, "oracle: cache.Open: "+err.Error())
		return
	}
	if faulty {
		// only the checksum-verified lookup is asserted
		for id := range stored {
			if data, e, err := cc.GetBytes(actionID(id)); err == nil && (sha256.Sum256(data) != [32]byte(e.OutputID) || int64(len(data)) != e.Size) {
				o.violation = append(o.violation, [4]string{"C11", o.caseStr, fmt.Sprintf("after all tasks finished GetBytes(id%d) returns %d bytes that do not hash to the reported OutputID (size %d)", id, len(data), e.Size), "corrupt-bytes-beside-failing-writer"})
			}
		}
		return
	}
	// quiescence: every stored id is readable, with bytes some Put stored for it
	for id, cs := range stored {
		data, e, err := cc.GetBytes(actionID(id))
		file, fe, ferr := cc.GetFile(actionID(id))
		ok := err == nil && ferr == nil
		if ok {
			ok = false
			for ci := range cs {
				if bytes.Equal(data, content(ci)) {
					ok = true
				}
			}
			fd, rerr := os.ReadFile(file)
			if rerr != nil || !bytes.Equal(fd, data) || int64(len(fd)) != fe.Size || fe.OutputID != e.OutputID || sha256.Sum256(data) != [32]byte(e.OutputID) {
				ok = false
			}
		}
		if !ok {
			o.violation = append(o.violation, [4]string{"C11", o.caseStr, fmt.Sprintf("after all writers finished id%d is not readable with bytes stored for it", id), "quiescent-unreadable"})
		}
	}
}

func (w *worker) evalC11(s c11scn) *outcome {
	o := newOutcome(s.String())
	clearDir(w.dir)
	if s.setup != "" {
		t, err := w.runImpl(s.setup, "1", "", s.now)
		if err != nil || t.end != "done" {
			o.disagree = append(o.disagree, [3]string{o.caseStr, "setup failed", ""})
			return o
		}
	}
	s0 := scanDir(w.dir)
	t, err := w.runImpl(s.procs, s.sched, "", s.now)
	if err != nil {
		o.disagree = append(o.disagree, [3]string{o.caseStr, "instrumented run: " + err.Error(), ""})
		return o
	}
	s1 := scanDir(w.dir)
	if t.end != "done" {
		o.disagree = append(o.disagree, [3]string{o.caseStr, "execution ended with " + t.end + ": " + describeTrace(t), ""})
	}
	if d, ans := w.checkReplay(s.now, s0, s.procs, t, s1); d != "" {
		o.disagree = append(o.disagree, [3]string{o.caseStr, d + ": final " + trunc(summaryOf(s1), 600) + " ; trace " + describeTrace(t), trunc(ans, 1200)})
	}
	oracleC11(o, w.dir, s, t)
	// interleaving measure: number of task switches
	sw, last := 0, -1
	for _, e := range t.evs {
		if osOps[e.op] {
			if last >= 0 && e.task != last {
				sw++
			}
			last = e.task
		}
	}
	o.nontriv = sw >= 1
	o.dist["c11:"+s.label]++
	o.dist[fmt.Sprintf("c11:tasks=%d", ntasks(s.procs))]++
	switch {
	case sw == 0:
		o.dist["c11:switches=0"]++
	case sw <= 2:
		o.dist["c11:switches=1-2"]++
	case sw <= 10:
		o.dist["c11:switches=3-10"]++
	default:
		o.dist["c11:switches>10"]++
	}
	for _, r := range retsOf(t) {
		if len(r.f) > 1 {
			o.dist["c11:"+r.f[0]+"="+r.f[1]]++
		}
	}
	o.sample = map[string]string{"case": o.caseStr, "switches": strconv.Itoa(sw), "final": trunc(summaryOf(s1), 200)}
	return o
}

var c11contents = []int{1, 3, 6}

func randC11(r *rand.Rand, k int) c11scn {
	s := c11scn{now: nowFresh, sched: strconv.FormatInt(r.Int63n(1<<40), 10)}
	if r.Intn(4) == 0 {
		s.now = nowStale
	}
	nproc := 2 + r.Intn(3)
	conts := c11contents
	big := r.Intn(25) == 0
	switch k % 4 {
	case 0: // anything
		s.label = "random-mix"
		if r.Intn(2) == 0 {
			s.setup = fmt.Sprintf("p%d,%d", 1+r.Intn(2), conts[r.Intn(3)])
		}
		var ps []string
		for p := 0; p < nproc; p++ {
			var ts []string
			for g := 0; g < 1+r.Intn(2); g++ {
				var ops []string
				for i := 0; i < 1+r.Intn(2); i++ {
					id := 1 + r.Intn(2)
					switch r.Intn(4) {
					case 0, 1:
						ci := conts[r.Intn(3)]
						if big {
							ci = 5 + 2*r.Intn(2)
						}
						ops = append(ops, fmt.Sprintf("p%d,%d", id, ci))
					case 2:
						ops = append(ops, fmt.Sprintf("b%d", id))
					default:
						ops = append(ops, fmt.Sprintf("f%d", id))
					}
				}
				ts = append(ts, strings.Join(ops, ";"))
			}
			ps = append(ps, strings.Join(ts, "&"))
		}
		s.procs = strings.Join(ps, "|")
	case 1: // re-store identical content while readers look
		s.label = "restore-with-readers"
		ci := conts[r.Intn(3)]
		if big {
			ci = 5
		}
		s.setup = fmt.Sprintf("p1,%d", ci)
		var ps []string
		for p := 0; p < nproc; p++ {
			var ts []string
			for g := 0; g < 1+r.Intn(2); g++ {
				switch r.Intn(3) {
				case 0:
					ts = append(ts, fmt.Sprintf("p1,%d", ci))
				case 1:
					ts = append(ts, "b1;f1")
				default:
					ts = append(ts, "f1;b1")
				}
			}
			ps = append(ps, strings.Join(ts, "&"))
		}
		if !strings.Contains(strings.Join(ps, "|"), "p1") {
			ps[0] = fmt.Sprintf("p1,%d", ci)
		}
		s.procs = strings.Join(ps, "|")
	case 2: // several writers of one output (same content under one or two ids), plus readers
		s.label = "same-output-writers"
		ci := conts[r.Intn(3)]
		if big {
			ci = 7
		}
		var ps []string
		for p := 0; p < nproc; p++ {
			if p < 2 || r.Intn(2) == 0 {
				ps = append(ps, fmt.Sprintf("p%d,%d", 1+r.Intn(2), ci))
			} else {
				ps = append(ps, fmt.Sprintf("b%d&f%d", 1+r.Intn(2), 1+r.Intn(2)))
			}
		}
		s.procs = strings.Join(ps, "|")
	default: // one id, differing contents
		s.label = "same-id-differing-contents"
		if r.Intn(2) == 0 {
			s.setup = fmt.Sprintf("p1,%d", conts[r.Intn(3)])
		}
		var ps []string
		for p := 0; p < nproc; p++ {
			if p < 2 || r.Intn(2) == 0 {
				ps = append(ps, fmt.Sprintf("p1,%d", conts[(p+r.Intn(2))%3]))
			} else {
				ps = append(ps, "b1;f1&f1;b1")
			}
		}
		s.procs = strings.Join(ps, "|")
	}
	return s
}

// dfsConfigs: two tasks, one operation each (at least one Put).
func dfsConfigs() []c11scn {
	mk := func(setup, procs, label string) c11scn {
		return c11scn{setup: setup, procs: procs, now: nowFresh, label: label}
	}
	return []c11scn{
		mk("", "p1,3|p1,3", "dfs:same-id-same-content"),
		mk("", "p1,3|p2,3", "dfs:two-ids-same-output"),
		mk("", "p1,3|p1,6", "dfs:same-id-other-content"),
		mk("p1,3", "p1,3|p1,3", "dfs:restore-twice"),
		mk("p1,3", "p1,3|b1", "dfs:restore-vs-getbytes"),
		mk("p1,3", "p1,3|f1", "dfs:restore-vs-getfile"),
		mk("p1,6", "p1,3|b1", "dfs:overwrite-vs-getbytes"),
		mk("", "p1,2|f1", "dfs:first-put-vs-getfile"),
		// an action whose output is EMPTY: the output file has to exist all the same ("once all writers have
		// finished every stored ID is readable" - GetFile included; seeded C11-m11 never created it)
		mk("", "p1,0|f1;b1", "dfs:empty-output-vs-lookups"),
		mk("", "p1,0;f1;b1|p2,0;f2", "dfs:empty-output-two-ids"),
	}
}

// windowConfigs: three tasks — writer A, writer B, observer R (lookups).  Enumerated schedules
// (bounded preemption, see windowSchedules): A is stopped after i of its steps, B runs j steps, then either
// A runs to its end and R looks while B is still part-way ("after-first-writer"), or R looks at once while
// both writers are part-way ("both-in-progress"); everybody then finishes.  This is the three-party window in
// which something one writer did to the shared output (or index entry) under the other is visible to a
// reader although a Put of the id has already returned.
func windowConfigs() []c11scn {
	mk := func(setup, procs, label string) c11scn {
		return c11scn{setup: setup, procs: procs, now: nowFresh, label: label}
	}
	return []c11scn{
		mk("", "p1,3|p1,3|f1;b1", "window:same-id-same-content"),
		mk("", "p1,3|p2,3|f1;b1;f2", "window:two-ids-same-output"),
		mk("p1,3", "p1,3|p1,3|b1;f1", "window:restore-twice"),
		mk("p1,6", "p1,3|p1,3|f1;b1", "window:overwrite-twice"),
		mk("", "p1,7|p1,7|f1;b1", "window:multi-chunk-same-content"),
		mk("", "p1,0|p2,0|f1;b1;f2", "window:empty-output-two-ids"),
		// one writer's source fails on its second pass (restricted oracle, see oracleC11)
		mk("", "p1,3|P2,3,e0|b1;g1;b2", "window:failing-writer-second"),
		mk("", "P2,3,e1|p1,3|b1;g1;b2", "window:failing-writer-first"),
		mk("", "p1,3|P2,3,c2|b1;b2", "window:changing-source-writer"),
		mk("", "p1,7|P2,7,s40000|b1;b2", "window:multi-chunk-short-source-writer"),
	}
}

// windowSchedules lists the schedules of one window configuration given the step counts of A and B.
// thin > 1 keeps every thin-th (i, j) only (the multi-chunk configurations in the quick tier: their 70 000-byte
// contents make each replay expensive).
func windowSchedules(na, nb, stride, thin, salt int) []string {
	var out []string
	for i := 1; i <= na; i++ {
		for j := 1; j <= nb; j++ {
			if thin > 1 && (i*5+j*3+salt)%thin != 0 {
				continue
			}
			out = append(out, fmt.Sprintf("g:0*%d,1*%d,0*100000,2*100000", i, j))
			if stride <= 1 || (i+j+salt)%stride == 0 {
				out = append(out, fmt.Sprintf("g:0*%d,1*%d,2*100000", i, j))
			}
		}
	}
	return out
}

func (h *harness) runC11() {
	r := rand.New(rand.NewSource(h.seed*7919 + 11))
	var scns []c11scn
	// bounded-preemption enumeration: task a runs i steps, task b runs j steps, a runs to its end, then b
	ndfsCfg := len(dfsConfigs())
	probe := append(dfsConfigs(), windowConfigs()...)
	steps := make([][2]int, len(probe))
	h.parallel(len(probe), func(w *worker, i int) {
		clearDir(w.dir)
		s := probe[i]
		if s.setup != "" {
			w.runImpl(s.setup, "1", "", s.now)
		}
		s0 := scanDir(w.dir)
		for k := 0; k < 2; k++ { // task k alone first: how many scheduling steps does it take?
			restoreDir(w.dir, s0)
			t, err := w.runImpl(s.procs, fmt.Sprintf("g:%d*100000", k), "", s.now)
			if err != nil {
				continue
			}
			n := 0
			for _, e := range t.evs {
				if e.task == k && (osOps[e.op] || e.op == "start") {
					n++
				}
			}
			steps[i][k] = n
		}
	})
	stride := 1
	if h.tier != "thorough" && !h.search {
		stride = 2
	}
	for ci, s := range probe[:ndfsCfg] {
		for first := 0; first < 2; first++ {
			other := 1 - first
			for i := 0; i <= steps[ci][first]; i++ {
				for j := 0; j <= steps[ci][other]; j++ {
					if i == 0 && j > 0 {
						continue // same as starting with the other task
					}
					if stride > 1 && (i+j+first+ci)%stride != 0 {
						continue
					}
					c := s
					c.sched = fmt.Sprintf("g:%d*%d,%d*%d", first, i, other, j)
					if i == 0 {
						c.sched = fmt.Sprintf("g:%d*100000", first)
					} else if j == 0 {
						c.sched = fmt.Sprintf("g:%d*100000", first)
						if i < steps[ci][first] {
							continue
						}
					}
					scns = append(scns, c)
				}
			}
		}
	}
	ndfs := len(scns)
	for ci, s := range probe[ndfsCfg:] {
		thin := 1
		if stride > 1 && strings.Contains(s.label, "multi-chunk") {
			thin = 4
		}
		for _, sched := range windowSchedules(steps[ndfsCfg+ci][0], steps[ndfsCfg+ci][1], stride, thin, ci) {
			c := s
			c.sched = sched
			scns = append(scns, c)
		}
	}
	nwin := len(scns) - ndfs
	nrand := 2000
	if h.tier == "thorough" {
		nrand = 60000
	}
	for k := 0; k < nrand; k++ {
		scns = append(scns, randC11(r, k))
	}
	outs := make([]*outcome, len(scns))
	if err := h.parallel(len(scns), func(w *worker, i int) { outs[i] = w.evalC11(scns[i]) }); err != nil {
		h.res.Disagree("<workers>", err.Error(), "")
		return
	}
	h.merge(outs)
	h.res.Distribution["c11:bounded-preemption-schedules"] = ndfs
	h.res.Distribution["c11:random-schedules"] = nrand
	h.res.Distribution["c11:window-schedules"] = nwin
	h.res.Extra["c11_exhaustive"] = fmt.Sprintf("all schedules with at most 2 preemptions (stride %d in this tier) of %d two-task configurations; %d three-task window configurations (writer A stopped after i steps, writer B runs j steps, then A finishes and a reader looks before B goes on: all i, j; reader at once while both are part-way: stride %d)", stride, ndfsCfg, len(probe)-ndfsCfg, stride)
}

func (h *harness) replayC11(x string) {
	s, ok := parseC11(x)
	if !ok {
		h.res.Observations = append(h.res.Observations, "unrecognised replay case "+x)
		return
	}
	h.parallel(1, func(w *worker, _ int) {
		o := w.evalC11(s)
		h.merge([]*outcome{o})
	})
}
