package main

// C12, oracle-only lane on the UNMODIFIED package: sources whose length is not what a Seek to the end says.
//
// "If Put fails … the source reader errors, ends early or yields different data on the second pass … A failed Put
// never makes unrelated entries unreadable."  The instrumented lanes give Put readers that misbehave on the second
// pass.  This lane adds readers that are inconsistent with themselves in another way: Seek(0, io.SeekEnd) reports N
// bytes (a file that is still growing, a size taken from stale metadata) while reading from the start yields only
// the first k < N bytes — on every pass the same k bytes, so by Put's own two passes the source is stable.  The
// bytes it yields are stored beforehand under another action id, so the output file of this Put already exists and
// is valid and shared.  Whatever Put does (on the unchanged code it succeeds: size and hash both come from the
// first pass), afterwards
//
//   - the other action's entry must still be readable with exactly its bytes (GetBytes and GetFile), and
//   - if Put reported success, GetBytes / GetFile of its id return bytes whose SHA-256 is the reported OutputID
//     and whose length is the reported size.
//
// (seeded C12-m12: size from Seek(0, io.SeekEnd), hash from the first pass; the "already present" guard then misses
// and the valid shared output is opened for rewriting and truncated.)

import (
	"bytes"
	"crypto/sha256"
	"fmt"
	"io"
	"os"
	"path/filepath"
	"strconv"
	"strings"

	"github.com/rogpeppe/go-internal/cache"
)

// lyingSrc yields data on every pass; Seek(0, io.SeekEnd) claims `claimed` bytes.
type lyingSrc struct {
	data    []byte
	pos     int64
	claimed int64
}

func (s *lyingSrc) Read(p []byte) (int, error) {
	if s.pos >= int64(len(s.data)) {
		return 0, io.EOF
	}
	n := copy(p, s.data[s.pos:])
	s.pos += int64(n)
	return n, nil
}

func (s *lyingSrc) Seek(off int64, whence int) (int64, error) {
	switch whence {
	case io.SeekStart:
		s.pos = off
	case io.SeekCurrent:
		s.pos += off
	case io.SeekEnd:
		s.pos = s.claimed + off
	}
	if s.pos < 0 {
		s.pos = 0
		return 0, fmt.Errorf("negative position")
	}
	return s.pos, nil
}

type lenCfg struct{ k, claimed int }

func (c lenCfg) String() string { return fmt.Sprintf("c12len:yields=%d:seek-end-says=%d", c.k, c.claimed) }

func parseLenCfg(x string) (lenCfg, bool) {
	f := strings.Split(x, ":")
	if len(f) != 3 || f[0] != "c12len" {
		return lenCfg{}, false
	}
	k, err1 := strconv.Atoi(strings.TrimPrefix(f[1], "yields="))
	n, err2 := strconv.Atoi(strings.TrimPrefix(f[2], "seek-end-says="))
	return lenCfg{k, n}, err1 == nil && err2 == nil
}

func lenConfigs() []lenCfg {
	var out []lenCfg
	for _, k := range []int{0, 1, 5, 100, 4096, 5000} {
		for _, extra := range []int{1, 3, 4096} {
			out = append(out, lenCfg{k, k + extra})
		}
	}
	return out
}

func (h *harness) runLenSources(cfgs []lenCfg) {
	for i, cfg := range cfgs {
		dir := filepath.Join(h.base, fmt.Sprintf("len%d", i))
		if err := os.MkdirAll(dir, 0o777); err != nil {
			h.res.Observations = append(h.res.Observations, "inconsistent-length lane skipped: "+err.Error())
			return
		}
		c, err := cache.Open(dir)
		if err != nil {
			h.res.Observations = append(h.res.Observations, "inconsistent-length lane skipped: "+err.Error())
			return
		}
		data := make([]byte, cfg.k)
		for j := range data {
			data[j] = byte('a' + (j*7+cfg.k)%26)
		}
		other, own := actionID(900+i), actionID(950+i)
		if err := c.PutBytes(other, data); err != nil {
			h.res.Observations = append(h.res.Observations, "inconsistent-length lane: PutBytes failed: "+err.Error())
			continue
		}
		h.res.OracleChecked["C12"]++
		h.res.Distribution["c12:source-length-inconsistent-with-seek-end"]++
		out, size, perr := c.Put(own, &lyingSrc{data: data, claimed: int64(cfg.claimed)})
		viol := func(what, class string) { h.res.Violate("C12", cfg.String(), what, class) }
		// the unrelated action that shares the output
		if got, _, err := c.GetBytes(other); err != nil || !bytes.Equal(got, data) {
			viol(fmt.Sprintf("after Put (error: %v) of a source that yields the %d bytes already stored under another action, GetBytes of that other action: err=%v, %d bytes", perr, cfg.k, err, len(got)), "shared-output-unreadable")
			continue
		}
		if file, ent, err := c.GetFile(other); err != nil {
			viol(fmt.Sprintf("after Put (error: %v), GetFile of the other action that shares the output fails: %v", perr, err), "shared-output-unreadable")
			continue
		} else if fdata, rerr := os.ReadFile(file); rerr != nil || !bytes.Equal(fdata, data) || ent.Size != int64(len(data)) {
			viol(fmt.Sprintf("after Put (error: %v), the file GetFile names for the other action holds %d bytes (entry size %d), stored were %d", perr, len(fdata), ent.Size, len(data)), "shared-output-unreadable")
			continue
		}
		if perr == nil {
			got, ent, err := c.GetBytes(own)
			if err == nil && (sha256.Sum256(got) != [32]byte(ent.OutputID) || int64(len(got)) != ent.Size || ent.OutputID != out || ent.Size != size) {
				viol(fmt.Sprintf("Put succeeded (size %d) but GetBytes returns %d bytes / entry size %d that do not match the reported OutputID", size, len(got), ent.Size), "getbytes-content")
			}
		}
	}
}
