package main

// C11, oracle-only lane on the UNMODIFIED package with REAL goroutines (no model, no instrumentation).
//
// The controlled scheduler of vshim switches tasks only at shim operations, and every task of the
// instrumented driver opens its own *cache.Cache.  State that goroutines of one process share through
// one *Cache value (for instance a scratch buffer reused across lookups) is therefore invisible to the
// schedule exploration: the race lives between two ordinary memory accesses.  This lane covers it the
// direct way:
//
//	phase "shared":   ONE *cache.Cache used by N goroutines at once (GOMAXPROCS > 1);
//	phase "handles":  one *cache.Cache per goroutine on the same directory (what separate processes do),
//	                  real kernel, no scheduler in between.
//
// A handful of ids is stored beforehand, each with its own known content; afterwards every goroutine runs
// a FIXED number of iterations of Get / GetBytes / GetFile on ids chosen by a fixed arithmetic pattern
// (no clock, no shared random source); some goroutines also re-Put the IDENTICAL content of the id.
// Nobody ever stores other content for an id, so C11 demands (and on correct code the theorems
// restore_invisible / stored_stays_readable together with mix_parse_same guarantee):
//
//   - a successful lookup of id X returns exactly the entry (OutputID, size) / the bytes stored for X;
//   - no lookup of a stored id misses or fails.
//
// Only the interleaving of the goroutines is non-deterministic; the amount of work is fixed, the oracle
// never looks at the clock, and correct code cannot fail it.  The first mismatch is reported.

import (
	"bytes"
	"crypto/sha256"
	"fmt"
	"os"
	"runtime"
	"strconv"
	"strings"
	"sync"
	"sync/atomic"

	"github.com/rogpeppe/go-internal/cache"
)

type sharedCfg struct {
	phase string // shared | handles
	ids   int
	gor   int
	iters int
}

func (c sharedCfg) String() string {
	return fmt.Sprintf("c11shared:%s:ids=%d:goroutines=%d:iterations=%d", c.phase, c.ids, c.gor, c.iters)
}

func parseShared(x string) (sharedCfg, bool) {
	f := strings.Split(x, ":")
	if len(f) < 5 || f[0] != "c11shared" {
		return sharedCfg{}, false
	}
	c := sharedCfg{phase: f[1]}
	for _, kv := range f[2:5] {
		p := strings.SplitN(kv, "=", 2)
		if len(p) != 2 {
			return sharedCfg{}, false
		}
		n, err := strconv.Atoi(p[1])
		if err != nil || n <= 0 {
			return sharedCfg{}, false
		}
		switch p[0] {
		case "ids":
			c.ids = n
		case "goroutines":
			c.gor = n
		case "iterations":
			c.iters = n
		}
	}
	return c, c.ids > 0 && c.gor > 0 && c.iters > 0 && (c.phase == "shared" || c.phase == "handles")
}

func sharedContent(i int) []byte {
	n := []int{40, 0, 1, 700, 9000, 40}[i%6]
	return []byte(fmt.Sprintf("shared-cache payload of id %03d|", i) + strings.Repeat(string(rune('a'+i%26)), n))
}

type sharedViolation struct {
	class, what string
}

// runSharedOnce runs one phase; it returns the number of lookups checked, the number of re-Puts, and
// the first violation (nil on correct code).
func runSharedOnce(base string, cfg sharedCfg) (lookups, puts int64, v *sharedViolation, err error) {
	dir, err := os.MkdirTemp(base, "shared-")
	if err != nil {
		return 0, 0, nil, err
	}
	defer os.RemoveAll(dir)
	c0, err := cache.Open(dir)
	if err != nil {
		return 0, 0, nil, err
	}
	ids := make([]cache.ActionID, cfg.ids)
	want := make([][]byte, cfg.ids)
	outs := make([]cache.OutputID, cfg.ids)
	for i := range ids {
		ids[i] = actionID(200 + i)
		want[i] = sharedContent(i)
		outs[i] = cache.OutputID(sha256.Sum256(want[i]))
		if err := c0.PutBytes(ids[i], want[i]); err != nil {
			return 0, 0, nil, fmt.Errorf("storing id %d: %v", i, err)
		}
	}
	// single-goroutine sanity pass: the entries are there before any concurrency starts
	for i := range ids {
		if d, _, err := c0.GetBytes(ids[i]); err != nil || !bytes.Equal(d, want[i]) {
			return 0, 0, &sharedViolation{"quiescent-unreadable", fmt.Sprintf("sequential Put(id %d) then GetBytes(id %d) = %d bytes, err %v", i, i, len(d), err)}, nil
		}
	}
	if old := runtime.GOMAXPROCS(0); old < 4 {
		runtime.GOMAXPROCS(4)
		defer runtime.GOMAXPROCS(old)
	}
	var stop atomic.Bool
	var first atomic.Pointer[sharedViolation]
	var nl, np atomic.Int64
	report := func(class, format string, a ...any) {
		first.CompareAndSwap(nil, &sharedViolation{class, fmt.Sprintf(format, a...)})
		stop.Store(true)
	}
	foreign, miss := "shared-cache-foreign-entry", "shared-cache-miss"
	if cfg.phase == "handles" {
		foreign, miss = "handles-foreign-entry", "handles-restore-miss"
	}
	var wg sync.WaitGroup
	start := make(chan struct{})
	for g := 0; g < cfg.gor; g++ {
		c := c0
		if cfg.phase == "handles" {
			if c, err = cache.Open(dir); err != nil {
				return 0, 0, nil, err
			}
		}
		wg.Add(1)
		go func(g int, c *cache.Cache) {
			defer wg.Done()
			<-start
			writer := g%4 == 0 // every fourth goroutine also re-stores identical content
			var myL, myP int64
			defer func() { nl.Add(myL); np.Add(myP) }()
			for i := 0; i < cfg.iters && !stop.Load(); i++ {
				k := (g*5 + i*(2*g+1) + i/7) % cfg.ids
				where := fmt.Sprintf("goroutine %d iteration %d", g, i)
				if writer && i%3 == 0 {
					myP++
					if err := c.PutBytes(ids[k], want[k]); err != nil {
						report("put-failed", "%s: re-Put of the identical content of id %d failed: %v", where, k, err)
					}
					continue
				}
				myL++
				switch (i + g) % 3 {
				case 0:
					e, err := c.Get(ids[k])
					if err != nil {
						report(miss, "%s: Get(id %d) missed although the id is stored and only identical content is re-stored: %v", where, k, err)
					} else if e.OutputID != outs[k] || e.Size != int64(len(want[k])) {
						report(foreign, "%s: Get(id %d) returned the entry (out %x…, size %d), stored for it: (out %x…, size %d)", where, k, e.OutputID[:6], e.Size, outs[k][:6], len(want[k]))
					}
				case 1:
					d, e, err := c.GetBytes(ids[k])
					if err != nil {
						report(miss, "%s: GetBytes(id %d) missed although the id is stored and only identical content is re-stored: %v", where, k, err)
					} else if e.OutputID != outs[k] || e.Size != int64(len(want[k])) || !bytes.Equal(d, want[k]) {
						report(foreign, "%s: GetBytes(id %d) returned %q… (out %x…, size %d), stored for it: %q… (out %x…, size %d)", where, k, trunc(string(d), 34), e.OutputID[:6], e.Size, trunc(string(want[k]), 34), outs[k][:6], len(want[k]))
					}
				default:
					file, e, err := c.GetFile(ids[k])
					if err != nil {
						report(miss, "%s: GetFile(id %d) missed although the id is stored and only identical content is re-stored: %v", where, k, err)
						continue
					}
					d, rerr := os.ReadFile(file)
					if e.OutputID != outs[k] || e.Size != int64(len(want[k])) || rerr != nil || !bytes.Equal(d, want[k]) {
						report(foreign, "%s: GetFile(id %d) named a file holding %q… (out %x…, size %d, read error %v), stored for it: %q… (out %x…, size %d)", where, k, trunc(string(d), 34), e.OutputID[:6], e.Size, rerr, trunc(string(want[k]), 34), outs[k][:6], len(want[k]))
					}
				}
			}
		}(g, c)
	}
	close(start)
	wg.Wait()
	if v := first.Load(); v != nil {
		return nl.Load(), np.Load(), v, nil
	}
	// once everybody has finished every stored id is readable
	for i := range ids {
		if d, _, err := c0.GetBytes(ids[i]); err != nil || !bytes.Equal(d, want[i]) {
			return nl.Load(), np.Load(), &sharedViolation{"quiescent-unreadable", fmt.Sprintf("after all goroutines finished GetBytes(id %d) = %d bytes, err %v", i, len(d), err)}, nil
		}
	}
	return nl.Load(), np.Load(), nil, nil
}

func sharedConfigs(tier string) []sharedCfg {
	it := 4000
	if tier == "thorough" {
		it = 40000
	}
	return []sharedCfg{
		{phase: "shared", ids: 16, gor: 8, iters: it},
		{phase: "handles", ids: 4, gor: 8, iters: it},
	}
}

func (h *harness) runShared(cfgs []sharedCfg) {
	for _, cfg := range cfgs {
		lookups, puts, v, err := runSharedOnce(h.base, cfg)
		if err != nil {
			h.res.Observations = append(h.res.Observations, "real-goroutine lane "+cfg.String()+" skipped: "+err.Error())
			continue
		}
		h.res.Distribution["c11:real-goroutines:"+cfg.phase+":runs"]++
		h.res.Distribution["c11:real-goroutines:"+cfg.phase+":goroutines"] = cfg.gor
		h.res.Distribution["c11:real-goroutines:"+cfg.phase+":ids"] = cfg.ids
		if v != nil {
			h.res.Violate("C11", cfg.String(), v.what, v.class)
			h.res.OracleChecked["C11"] += int(lookups)
			continue
		}
		// complete runs do a fixed amount of work: these numbers are deterministic
		h.res.Distribution["c11:real-goroutines:"+cfg.phase+":lookups"] += int(lookups)
		h.res.Distribution["c11:real-goroutines:"+cfg.phase+":identical-re-puts"] += int(puts)
		h.res.OracleChecked["C11"] += int(lookups)
	}
	h.res.Extra["c11_real_goroutines"] = "oracle-only: the unmodified package, one *cache.Cache shared by real goroutines (phase shared) and one handle per goroutine on one directory (phase handles); ids stored once with distinct contents, concurrent Get/GetBytes/GetFile plus re-Puts of the identical content; every lookup must return exactly what was stored for its id and must not miss; fixed iteration counts, only the interleaving varies"
}
