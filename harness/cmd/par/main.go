// par group binary: `par factgen ...`, `par corr ...` (properties C09, C10) and the debugging aid
// `par trace` (scenario lines on stdin -> traces of the instrumented par on stdout).
package main

import (
	"bufio"
	"encoding/json"
	"fmt"
	"os"
	"os/exec"

	"verif/harness/internal/corr"
	"verif/harness/internal/fact"
)

func main() {
	if len(os.Args) < 2 {
		fmt.Fprintln(os.Stderr, "usage: par factgen|corr|trace [flags]")
		os.Exit(2)
	}
	switch os.Args[1] {
	case "factgen":
		// two generated modules, so that C09 (par.Work) and C10 (par.Cache) do not share facts
		factgenBoth(os.Args[2:])
	case "corr":
		corr.Main(os.Args[2:], runPar)
	case "trace":
		b, err := buildShim()
		if err != nil {
			fmt.Fprintln(os.Stderr, err)
			os.Exit(2)
		}
		defer b.Cleanup()
		cmd := exec.Command(b.Bin)
		cmd.Stdin, cmd.Stdout, cmd.Stderr = os.Stdin, os.Stdout, os.Stderr
		cmd.Run()
	case "modelline":
		// debugging aid: scenario+schedule lines on stdin -> request lines for the Lean driver
		b, err := buildShim()
		if err != nil {
			fmt.Fprintln(os.Stderr, err)
			os.Exit(2)
		}
		defer b.Cleanup()
		p, err := startShim(b.Bin)
		if err != nil {
			fmt.Fprintln(os.Stderr, err)
			os.Exit(2)
		}
		defer p.close()
		in := bufio.NewScanner(os.Stdin)
		for in.Scan() {
			sc, sched, ok := parseScenario(in.Text())
			if !ok {
				fmt.Println("bad-scenario")
				continue
			}
			tr, _, err := p.request(sc.text + " " + sched)
			if err != nil || len(tr) != 1 {
				fmt.Println("error", err)
				continue
			}
			a := analyse(sc, tr[0])
			fmt.Println(a.modelLine)
		}
	default:
		fmt.Fprintln(os.Stderr, "usage: par factgen|corr|trace [flags]")
		os.Exit(2)
	}
}

// factgenBoth runs fact.Main once per generated module and merges the two JSON reports.
func factgenBoth(args []string) {
	type report struct {
		Groups map[string]json.RawMessage `json:"groups"`
	}
	merged := report{Groups: map[string]json.RawMessage{}}
	run := func(group, module string, fn func(g *fact.Gen)) {
		tmp, err := os.CreateTemp("", "par-factgen-")
		if err != nil {
			fmt.Fprintln(os.Stderr, err)
			os.Exit(2)
		}
		defer os.Remove(tmp.Name())
		old := os.Stdout
		os.Stdout = tmp
		fact.Main(args, group, module, fn)
		os.Stdout = old
		tmp.Close()
		data, _ := os.ReadFile(tmp.Name())
		var r report
		if err := json.Unmarshal(data, &r); err != nil {
			fmt.Fprintln(os.Stderr, "factgen report unreadable:", err)
			os.Exit(2)
		}
		for k, v := range r.Groups {
			merged.Groups[k] = v
		}
	}
	run("parwork", "ParWork", genParWork)
	run("parcache", "ParCache", genParCache)
	data, _ := json.MarshalIndent(merged, "", " ")
	os.Stdout.Write(data)
	fmt.Println()
}
