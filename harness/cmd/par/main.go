// par group binary: `par factgen ...`, `par corr ...` (properties C09, C10) and the debugging aid
// `par trace` (scenario lines on stdin -> traces of the instrumented par on stdout).
package main

import (
	"fmt"
	"os"
	"os/exec"

	"verif/harness/internal/corr"
	"verif/harness/internal/fact"
)

func main() {
	if len(os.Args) < 2 {
		fmt.Fprintln(os.Stderr, "usage: par factgen|corr|trace [flags]")
		os.Exit(2)
	}
	switch os.Args[1] {
	case "factgen":
		fact.Main(os.Args[2:], "par", "Par", genPar)
	case "corr":
		corr.Main(os.Args[2:], runPar)
	case "trace":
		b, err := buildShim()
		if err != nil {
			fmt.Fprintln(os.Stderr, err)
			os.Exit(2)
		}
		defer b.Cleanup()
		cmd := exec.Command(b.Bin)
		cmd.Stdin, cmd.Stdout, cmd.Stderr = os.Stdin, os.Stdout, os.Stderr
		cmd.Run()
	default:
		fmt.Fprintln(os.Stderr, "usage: par factgen|corr|trace [flags]")
		os.Exit(2)
	}
}
