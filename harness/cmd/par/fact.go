package main

import (
	"fmt"
	"go/ast"
	"go/token"
	"strconv"
	"strings"

	"verif/harness/internal/fact"
)

// ---- tiny Go-expression -> Lean translator for the deciding expressions of par/work.go.
// Operands are looked up (by whitespace-free source text) in `vars`; integer literals, the
// comparison operators, `!`, `-` and `+` are understood.  Anything else is "unrecognised".

type xl struct {
	g    *fact.Gen
	vars map[string]string
	rel  string // file in which identifiers are looked up as package level constants
}

func (x xl) num(e ast.Expr) (string, bool) {
	switch v := e.(type) {
	case *ast.ParenExpr:
		return x.num(v.X)
	case *ast.BasicLit:
		if v.Kind == token.INT {
			if n, err := strconv.ParseInt(v.Value, 0, 64); err == nil && n >= 0 {
				return strconv.FormatInt(n, 10), true
			}
		}
		return "", false
	case *ast.BinaryExpr:
		if v.Op == token.SUB || v.Op == token.ADD {
			a, ok1 := x.num(v.X)
			b, ok2 := x.num(v.Y)
			if ok1 && ok2 {
				return "(" + a + " " + v.Op.String() + " " + b + ")", true
			}
		}
		return "", false
	case *ast.CallExpr:
		// min(a, b) / max(a, b)
		if id, ok := v.Fun.(*ast.Ident); ok && (id.Name == "min" || id.Name == "max") && len(v.Args) == 2 {
			a, ok1 := x.num(v.Args[0])
			b, ok2 := x.num(v.Args[1])
			if ok1 && ok2 {
				return "(" + id.Name + " " + a + " " + b + ")", true
			}
		}
	}
	if name, ok := x.vars[x.g.Src(e)]; ok {
		return name, true
	}
	// a package level integer constant
	if id, ok := e.(*ast.Ident); ok && x.rel != "" {
		if v := x.g.TopLevelValue(x.rel, id.Name); v != nil {
			if _, isID := v.(*ast.Ident); !isID {
				return x.num(v)
			}
		}
	}
	return "", false
}

func (x xl) boolean(e ast.Expr) (string, bool) {
	switch v := e.(type) {
	case *ast.ParenExpr:
		return x.boolean(v.X)
	case *ast.UnaryExpr:
		if v.Op == token.NOT {
			if b, ok := x.boolean(v.X); ok {
				return "(!" + b + ")", true
			}
		}
		return "", false
	case *ast.BinaryExpr:
		op := map[token.Token]string{token.EQL: "=", token.NEQ: "≠", token.LSS: "<", token.LEQ: "≤", token.GTR: ">", token.GEQ: "≥"}[v.Op]
		if op == "" {
			return "", false
		}
		a, ok1 := x.num(v.X)
		b, ok2 := x.num(v.Y)
		if ok1 && ok2 {
			return "decide (" + a + " " + op + " " + b + ")", true
		}
		return "", false
	}
	if name, ok := x.vars["bool:"+x.g.Src(e)]; ok {
		return name, true
	}
	return "", false
}

// onlyParams keeps the operands whose Lean name is one of the parameters of the definition being emitted
// (`(waiting running : Int)`): an expression over anything else is unrecognised, not an unbound identifier.
func onlyParams(vars map[string]string, params string) map[string]string {
	names := map[string]bool{}
	for _, group := range strings.Split(params, "(") {
		if i := strings.Index(group, ":"); i >= 0 {
			for _, n := range strings.Fields(group[:i]) {
				names[n] = true
			}
		}
	}
	out := map[string]string{}
	for k, v := range vars {
		if names[v] {
			out[k] = v
		}
	}
	return out
}

// emitExpr emits `def name (params) : Bool := <translated e>`; pinned is used when e is nil or unrecognised.
func emitExpr(g *fact.Gen, name, doc, params string, vars map[string]string, e ast.Expr, why string, pinned string) {
	body, ok := "", false
	vars = onlyParams(vars, params)
	if e != nil {
		body, ok = xl{g, vars, "par/work.go"}.boolean(e)
		if !ok {
			why = "unrecognised expression shape: " + g.Pretty(e)
		}
	}
	if !ok {
		body = pinned
		g.Lost(name, why)
	} else {
		g.Found(name, g.Pretty(e))
	}
	g.Emit("/-- %s -/\ndef %s %s : Bool := %s\n", doc, name, params, body)
}

func emitNumExpr(g *fact.Gen, name, doc, params string, vars map[string]string, e ast.Expr, why string, pinned string) {
	body, ok := "", false
	vars = onlyParams(vars, params)
	if e != nil {
		body, ok = xl{g, vars, "par/work.go"}.num(e)
		if !ok {
			why = "unrecognised expression shape: " + g.Pretty(e)
		}
	}
	if !ok {
		body = pinned
		g.Lost(name, why)
	} else {
		g.Found(name, g.Pretty(e))
	}
	g.Emit("/-- %s -/\ndef %s %s : Int := %s\n", doc, name, params, body)
}

func stmtSrcs(g *fact.Gen, list []ast.Stmt) []string {
	out := make([]string, len(list))
	for i, s := range list {
		out[i] = g.Src(s)
	}
	return out
}

func eqStrs(a []string, b ...string) bool {
	if len(a) != len(b) {
		return false
	}
	for i := range a {
		if a[i] != b[i] {
			return false
		}
	}
	return true
}

func boolFact(g *fact.Gen, name, doc string, pinned bool, ok bool, why string, v bool) {
	g.EmitBool(name, doc, pinned, func() (bool, bool, string) { return v, ok, why })
}

func genParWork(g *fact.Gen) {
	const rel = "par/work.go"
	workVars := map[string]string{"len(w.todo)": "todoLen", "w.waiting": "waiting", "w.running": "running", "n": "n", "bool:w.added[item]": "present"}

	// ------------------------------------------------------------------ Work.runner
	runner := g.Method(rel, "Work", "runner")
	var outer, inner *ast.ForStmt
	var innerIf *ast.IfStmt
	if runner != nil && len(runner.Body.List) == 1 {
		outer, _ = runner.Body.List[0].(*ast.ForStmt)
	}
	var outerSrc []string
	if outer != nil && outer.Cond == nil && outer.Init == nil && outer.Post == nil {
		outerSrc = stmtSrcs(g, outer.Body.List)
		if len(outer.Body.List) >= 2 {
			inner, _ = outer.Body.List[1].(*ast.ForStmt)
		}
	} else {
		outer = nil
	}
	var innerSrc []string
	if inner != nil {
		innerSrc = stmtSrcs(g, inner.Body.List)
		if len(inner.Body.List) >= 2 {
			innerIf, _ = inner.Body.List[1].(*ast.IfStmt)
		}
	}
	// loop test
	var e ast.Expr
	if inner != nil && inner.Init == nil && inner.Post == nil {
		e = inner.Cond
	}
	emitExpr(g, "loopTest", "runner: the wait loop runs while this holds (`for len(w.todo) == 0`), evaluated with the mutex held.", "(todoLen : Int)", workVars, e, "inner for loop of runner not found", "decide (todoLen = 0)")
	e = nil
	if innerIf != nil && innerIf.Init == nil && innerIf.Else == nil {
		e = innerIf.Cond
	}
	emitExpr(g, "allDone", "runner: the all-done test (`w.waiting == w.running`) made right after `w.waiting++`.", "(waiting running : Int)", workVars, e, "all-done if statement not found", "decide (waiting = running)")
	boolFact(g, "lockAtLoopTop", "runner: every iteration of the outer loop starts with `w.mu.Lock()` followed by the wait loop.", true,
		outer != nil && inner != nil, "runner is not `for { w.mu.Lock(); for … }`", len(outerSrc) > 0 && outerSrc[0] == "w.mu.Lock()")
	boolFact(g, "incrementBeforeTest", "runner: the wait loop body starts with `w.waiting++`, before the all-done test.", true,
		inner != nil, "wait loop not found", len(innerSrc) > 0 && innerSrc[0] == "w.waiting++" && innerIf != nil)
	boolFact(g, "broadcastOnAllDone", "runner: the all-done branch is exactly `w.wait.Broadcast(); w.mu.Unlock(); return`.", true,
		innerIf != nil, "all-done if statement not found", innerIf != nil && eqStrs(stmtSrcs(g, innerIf.Body.List), "w.wait.Broadcast()", "w.mu.Unlock()", "return"))
	boolFact(g, "unlockOnAllDone", "runner: the all-done branch ends with `w.mu.Unlock(); return`.", true,
		innerIf != nil, "all-done if statement not found", innerIf != nil && func() bool {
			s := stmtSrcs(g, innerIf.Body.List)
			return len(s) >= 2 && s[len(s)-2] == "w.mu.Unlock()" && s[len(s)-1] == "return"
		}())
	boolFact(g, "waitAfterTest", "runner: `w.wait.Wait()` follows the all-done test inside the wait loop.", true,
		inner != nil, "wait loop not found", len(innerSrc) >= 3 && innerSrc[2] == "w.wait.Wait()")
	boolFact(g, "decrementAfterWait", "runner: `w.waiting--` directly follows `w.wait.Wait()` and ends the wait loop body.", true,
		inner != nil, "wait loop not found", len(innerSrc) == 4 && innerSrc[2] == "w.wait.Wait()" && innerSrc[3] == "w.waiting--")
	boolFact(g, "pickIsSwapRemove", "runner: after the wait loop: `i := rand.Intn(len(w.todo)); item := w.todo[i]; w.todo[i] = w.todo[len(w.todo)-1]; w.todo = w.todo[:len(w.todo)-1]`.", true,
		outer != nil, "runner outer loop not found", len(outerSrc) >= 6 && eqStrs(outerSrc[2:6], "i:=rand.Intn(len(w.todo))", "item:=w.todo[i]", "w.todo[i]=w.todo[len(w.todo)-1]", "w.todo=w.todo[:len(w.todo)-1]"))
	boolFact(g, "unlockBeforeF", "runner: the iteration ends with `w.mu.Unlock(); w.f(item)` (f runs outside the mutex).", true,
		outer != nil, "runner outer loop not found", len(outerSrc) == 8 && outerSrc[6] == "w.mu.Unlock()" && outerSrc[7] == "w.f(item)")

	// ------------------------------------------------------------------ Work.Add
	add := g.Method(rel, "Work", "Add")
	var addSrc []string
	var addIf, sigIf *ast.IfStmt
	if add != nil {
		addSrc = stmtSrcs(g, add.Body.List)
		for _, st := range add.Body.List {
			if is, ok := st.(*ast.IfStmt); ok && addIf == nil {
				addIf = is
			}
		}
	}
	var addBody []string
	if addIf != nil {
		addBody = stmtSrcs(g, addIf.Body.List)
		for _, st := range addIf.Body.List {
			if is, ok := st.(*ast.IfStmt); ok && sigIf == nil {
				sigIf = is
			}
		}
	}
	e = nil
	if addIf != nil && addIf.Init == nil && addIf.Else == nil {
		e = addIf.Cond
	}
	emitExpr(g, "addGuard", "Add: the item is enqueued only if this holds (`!w.added[item]`); `present` = w.added[item].", "(present : Bool)", workVars, e, "guard of Add not found", "(!present)")
	boolFact(g, "addUnderLock", "Add: the body is `w.mu.Lock(); w.init(); if … {…}; w.mu.Unlock()`.", true,
		add != nil, "method Add not found", len(addSrc) == 4 && addSrc[0] == "w.mu.Lock()" && addSrc[1] == "w.init()" && addIf != nil && addSrc[3] == "w.mu.Unlock()")
	boolFact(g, "addMarksAndAppends", "Add: the guarded block starts with `w.added[item] = true; w.todo = append(w.todo, item)`.", true,
		addIf != nil, "guard of Add not found", len(addBody) >= 2 && addBody[0] == "w.added[item]=true" && addBody[1] == "w.todo=append(w.todo,item)")
	e = nil
	if sigIf != nil && sigIf.Init == nil && sigIf.Else == nil {
		e = sigIf.Cond
	}
	emitExpr(g, "signalTest", "Add: Signal is called when this holds (`w.waiting > 0`).", "(waiting : Int)", workVars, e, "signal test of Add not found", "decide (waiting > 0)")
	boolFact(g, "signalWhenWaiting", "Add: after appending, `if w.waiting > 0 { w.wait.Signal() }` is the last statement of the guarded block.", true,
		addIf != nil, "guard of Add not found", sigIf != nil && len(addBody) == 3 && eqStrs(stmtSrcs(g, sigIf.Body.List), "w.wait.Signal()"))

	// ------------------------------------------------------------------ Work.Do
	do := g.Method(rel, "Work", "Do")
	var doSrc []string
	if do != nil {
		doSrc = stmtSrcs(g, do.Body.List)
	}
	var panicIf *ast.IfStmt
	var spawnLoop *ast.RangeStmt
	if do != nil {
		for _, st := range do.Body.List {
			if is, ok := st.(*ast.IfStmt); ok && panicIf == nil {
				panicIf = is
			}
			if rs, ok := st.(*ast.RangeStmt); ok && spawnLoop == nil {
				spawnLoop = rs
			}
		}
	}
	e = nil
	if panicIf != nil && strings.HasPrefix(g.Src(panicIf.Body), "{panic(") {
		e = panicIf.Cond
	}
	emitExpr(g, "doPanics", "Do: panics when this holds (`n < 1`).", "(n : Int)", workVars, e, "n<1 panic of Do not found", "decide (n < 1)")
	var cnt ast.Expr
	if spawnLoop != nil && spawnLoop.Key == nil && spawnLoop.Value == nil && eqStrs(stmtSrcs(g, spawnLoop.Body.List), "gow.runner()") {
		cnt = spawnLoop.X
	}
	emitNumExpr(g, "spawnCount", "Do: number of `go w.runner()` statements executed (`for range n - 1`).", "(n : Int)", workVars, cnt, "spawn loop of Do not found", "(n - 1)")
	boolFact(g, "doSetsRunningThenSpawns", "Do: `w.running = n` precedes the spawn loop, and Do ends with `w.runner()` (the caller is the n-th runner).", true,
		do != nil, "method Do not found", func() bool {
			ir, is := -1, -1
			for i, s := range doSrc {
				if s == "w.running=n" {
					ir = i
				}
				if strings.HasPrefix(s, "forrange") {
					is = i
				}
			}
			return ir >= 0 && is > ir && len(doSrc) > 0 && doSrc[len(doSrc)-1] == "w.runner()" && is == len(doSrc)-2
		}())
}

func genParCache(g *fact.Gen) {
	const rel = "par/work.go"
	var e ast.Expr
	// ------------------------------------------------------------------ Cache.Do
	cdo := g.Method(rel, "Cache", "Do")
	var cdoSrc []string
	var missIf, outerIf, innerDone *ast.IfStmt
	if cdo != nil {
		cdoSrc = stmtSrcs(g, cdo.Body.List)
		for _, st := range cdo.Body.List {
			if is, ok := st.(*ast.IfStmt); ok {
				if g.Src(is.Cond) == "!ok" && missIf == nil {
					missIf = is
				} else if strings.Contains(g.Src(is.Cond), "atomic.LoadUint32(&e.done)") && outerIf == nil {
					outerIf = is
				}
			}
		}
	}
	var outerBody []string
	if outerIf != nil {
		outerBody = stmtSrcs(g, outerIf.Body.List)
		for _, st := range outerIf.Body.List {
			if is, ok := st.(*ast.IfStmt); ok && innerDone == nil && strings.Contains(g.Src(is.Cond), "atomic.LoadUint32(&e.done)") {
				innerDone = is
			}
		}
	}
	cacheVars := map[string]string{"atomic.LoadUint32(&e.done)": "v"}
	boolFact(g, "loadThenLoadOrStore", "Cache.Do starts with `entryIface, ok := c.m.Load(key)` and on a miss `entryIface, _ = c.m.LoadOrStore(key, new(cacheEntry))`.", true,
		cdo != nil, "method Cache.Do not found", len(cdoSrc) >= 2 && cdoSrc[0] == "entryIface,ok:=c.m.Load(key)" && missIf != nil &&
			eqStrs(stmtSrcs(g, missIf.Body.List), "entryIface,_=c.m.LoadOrStore(key,new(cacheEntry))") && missIf.Else == nil)
	e = nil
	if outerIf != nil && outerIf.Init == nil && outerIf.Else == nil {
		e = outerIf.Cond
	}
	emitExpr(g, "outerNotDone", "Cache.Do: the slow path is taken when this holds for v = atomic.LoadUint32(&e.done) (`== 0`).", "(v : Int)", cacheVars, e, "outer done check not found", "decide (v = 0)")
	boolFact(g, "outerDoneCheck", "Cache.Do: an unlocked `atomic.LoadUint32(&e.done) == 0` test guards the slow path and `return e.result` follows it.", true,
		cdo != nil, "method Cache.Do not found", outerIf != nil && len(cdoSrc) == 5 && cdoSrc[4] == "returne.result")
	boolFact(g, "lockAroundInner", "Cache.Do: the slow path is `e.mu.Lock(); if … {…}; e.mu.Unlock()`.", true,
		outerIf != nil, "outer done check not found", len(outerBody) == 3 && outerBody[0] == "e.mu.Lock()" && outerBody[2] == "e.mu.Unlock()")
	e = nil
	if innerDone != nil && innerDone.Init == nil && innerDone.Else == nil {
		e = innerDone.Cond
	}
	emitExpr(g, "innerNotDone", "Cache.Do: under the entry mutex f is called when this holds for v = atomic.LoadUint32(&e.done) (`== 0`).", "(v : Int)", cacheVars, e, "inner done check not found", "decide (v = 0)")
	boolFact(g, "innerDoneCheck", "Cache.Do: done is tested again (atomic load) after acquiring the entry mutex.", true,
		outerIf != nil, "outer done check not found", innerDone != nil && len(outerBody) == 3 && outerBody[1] == g.Src(innerDone))
	var innerBody []string
	if innerDone != nil {
		innerBody = stmtSrcs(g, innerDone.Body.List)
	}
	storeOK := outerIf != nil && (innerDone != nil || len(outerBody) > 0)
	if innerDone == nil {
		innerBody = outerBody
	}
	iRes, iStore := -1, -1
	storeVal := ""
	for i, s := range innerBody {
		if s == "e.result=f()" {
			iRes = i
		}
		if strings.HasPrefix(s, "atomic.StoreUint32(&e.done,") {
			iStore = i
			storeVal = strings.TrimSuffix(strings.TrimPrefix(s, "atomic.StoreUint32(&e.done,"), ")")
		}
	}
	boolFact(g, "storeAfterResult", "Cache.Do: `e.result = f()` precedes `atomic.StoreUint32(&e.done, 1)` (publication order).", true,
		storeOK && iRes >= 0 && iStore >= 0, "e.result = f() / atomic.StoreUint32(&e.done, …) not found", iRes < iStore)
	g.EmitBool("unlockAfterStore", "Cache.Do: `e.mu.Unlock()` comes after the block that writes result and done.", true, func() (bool, bool, string) {
		if outerIf == nil {
			return false, false, "outer done check not found"
		}
		return len(outerBody) > 0 && outerBody[len(outerBody)-1] == "e.mu.Unlock()", true, ""
	})
	if v, err := strconv.Atoi(storeVal); err == nil && v >= 0 {
		g.Found("doneStoreValue", storeVal)
		g.Emit("/-- Cache.Do: the value stored into e.done. -/\ndef doneStoreValue : Int := %d\n", v)
	} else {
		g.Lost("doneStoreValue", "atomic.StoreUint32(&e.done, <int literal>) not found")
		g.Emit("/-- Cache.Do: the value stored into e.done. -/\ndef doneStoreValue : Int := 1\n")
	}

	// ------------------------------------------------------------------ Cache.Get
	get := g.Method(rel, "Cache", "Get")
	var getSrc []string
	var getDoneIf *ast.IfStmt
	if get != nil {
		getSrc = stmtSrcs(g, get.Body.List)
		for _, st := range get.Body.List {
			if is, ok := st.(*ast.IfStmt); ok && strings.Contains(g.Src(is.Cond), "atomic.LoadUint32(&e.done)") && getDoneIf == nil {
				getDoneIf = is
			}
		}
	}
	boolFact(g, "getChecksMap", "Cache.Get starts with `entryIface, ok := c.m.Load(key); if !ok { return nil }`.", true,
		get != nil, "method Cache.Get not found", len(getSrc) >= 2 && getSrc[0] == "entryIface,ok:=c.m.Load(key)" && getSrc[1] == "if!ok{returnnil}")
	e = nil
	if getDoneIf != nil && getDoneIf.Init == nil && getDoneIf.Else == nil && eqStrs(stmtSrcs(g, getDoneIf.Body.List), "returnnil") {
		e = getDoneIf.Cond
	}
	emitExpr(g, "getNotDone", "Cache.Get returns nil when this holds for v = atomic.LoadUint32(&e.done) (`== 0`).", "(v : Int)", cacheVars, e, "done check of Get not found", "decide (v = 0)")
	boolFact(g, "getChecksDone", "Cache.Get: `if atomic.LoadUint32(&e.done) == 0 { return nil }` precedes `return e.result`, and Get takes no lock.", true,
		get != nil, "method Cache.Get not found", getDoneIf != nil && len(getSrc) == 5 && getSrc[3] == g.Src(getDoneIf) && getSrc[4] == "returne.result" &&
			!strings.Contains(g.Src(get.Body), "Lock()"))
	_ = fmt.Sprint
}
