package main

import "verif/harness/internal/fact"

func genPar(g *fact.Gen) {}
