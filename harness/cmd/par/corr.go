package main

import (
	"os"
	"path/filepath"

	"verif/harness/internal/corr"
	"verif/harness/internal/shimkit"
)

func verifRoot() string {
	if r := os.Getenv("VERIF_ROOT"); r != "" {
		return r
	}
	return "/verif"
}

func repoRoot() string {
	if r := os.Getenv("VERIF_REPO"); r != "" {
		return r
	}
	return "/repo"
}

func buildShim() (*shimkit.Built, error) {
	h := filepath.Join(verifRoot(), "harness")
	return shimkit.Build(shimkit.Spec{Repo: repoRoot(), Files: []string{"par/work.go"},
		DriverDir: filepath.Join(h, "shimcmd", "par"), VshimDir: filepath.Join(h, "vshim")})
}

func runPar(tier string, seed int64, model string, replay string) *corr.Result {
	return corr.NewResult("par", tier, seed)
}
