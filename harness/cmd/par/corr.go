package main

import (
	"bufio"
	"fmt"
	"hash/fnv"
	"io"
	"math/rand"
	"os"
	"os/exec"
	"path/filepath"
	"runtime"
	"sort"
	"strconv"
	"strings"
	"sync"
	"sync/atomic"
	"time"

	"github.com/rogpeppe/go-internal/par"

	"verif/harness/internal/corr"
	"verif/harness/internal/mdl"
	"verif/harness/internal/shimkit"
)

func verifRoot() string {
	if r := os.Getenv("VERIF_ROOT"); r != "" {
		return r
	}
	return "/verif"
}

func repoRoot() string {
	if r := os.Getenv("VERIF_REPO"); r != "" {
		return r
	}
	return "/repo"
}

func buildShim() (*shimkit.Built, error) {
	h := filepath.Join(verifRoot(), "harness")
	return shimkit.Build(shimkit.Spec{Repo: repoRoot(), Files: []string{"par/work.go"},
		DriverDir: filepath.Join(h, "shimcmd", "par"), VshimDir: filepath.Join(h, "vshim")})
}

// ---------------------------------------------------------------- shim process

type shimProc struct {
	cmd *exec.Cmd
	in  *bufio.Writer
	wc  io.WriteCloser
	out *bufio.Reader
}

func startShim(bin string) (*shimProc, error) {
	cmd := exec.Command(bin)
	wc, err := cmd.StdinPipe()
	if err != nil {
		return nil, err
	}
	rc, err := cmd.StdoutPipe()
	if err != nil {
		return nil, err
	}
	cmd.Stderr = os.Stderr
	if err := cmd.Start(); err != nil {
		return nil, err
	}
	return &shimProc{cmd: cmd, in: bufio.NewWriter(wc), wc: wc, out: bufio.NewReaderSize(rc, 1<<20)}, nil
}

func (p *shimProc) close() {
	p.wc.Close()
	p.cmd.Wait()
}

// request sends one request line and returns the TRACE lines it produced and, for dfs, the status.
func (p *shimProc) request(line string) (traces []string, status string, err error) {
	p.in.WriteString(line + "\n")
	if err := p.in.Flush(); err != nil {
		return nil, "", err
	}
	dfs := strings.HasPrefix(line, "dfs ")
	for {
		l, err := p.out.ReadString('\n')
		if err != nil {
			return traces, "", fmt.Errorf("instrumented driver died: %v", err)
		}
		l = strings.TrimRight(l, "\n")
		switch {
		case strings.HasPrefix(l, "DFSEND "):
			return traces, l, nil
		case strings.HasPrefix(l, "TRACE "):
			traces = append(traces, l)
			if !dfs {
				return traces, "", nil
			}
		default:
			if !dfs {
				return nil, "", fmt.Errorf("instrumented driver answered %q to %q", l, line)
			}
			traces = append(traces, l)
		}
	}
}

// ---------------------------------------------------------------- scenarios

// A scenario is the request without its schedule: `work n init graph` or `cache prog`.
type scenario struct {
	kind  string // work | cache
	text  string // as sent to the instrumented driver
	label string // generator family, for the distribution
	// work
	n        int
	init     []string
	children map[string][]string
	// cache
	prog    [][]string
	nilKeys map[string]bool // keys whose f returns nil (ops n<key>)
}

// the work item that stands for the Go value nil (see harness/shimcmd/par)
const nilItem = "999"

// expandItems turns "3,7..9" into [3 7 8 9].
func expandItems(list string) []string {
	if list == "-" || list == "" {
		return nil
	}
	var out []string
	for _, el := range strings.Split(list, ",") {
		if ab := strings.SplitN(el, "..", 2); len(ab) == 2 {
			a, err1 := strconv.Atoi(ab[0])
			b, err2 := strconv.Atoi(ab[1])
			if err1 == nil && err2 == nil {
				for x := a; x <= b; x++ {
					out = append(out, strconv.Itoa(x))
				}
				continue
			}
		}
		out = append(out, el)
	}
	return out
}

func workScenario(label string, n int, init string, graph string) scenario {
	sc := scenario{kind: "work", label: label, n: n, children: map[string][]string{}}
	if init != "-" && init != "" {
		sc.init = expandItems(init)
	} else {
		init = "-"
	}
	if graph != "-" && graph != "" {
		for _, part := range strings.Split(graph, ";") {
			kv := strings.SplitN(part, ">", 2)
			if len(kv) == 2 && kv[1] != "" {
				cs := expandItems(kv[1])
				for _, x := range expandItems(kv[0]) {
					sc.children[x] = cs
				}
			}
		}
	} else {
		graph = "-"
	}
	sc.text = fmt.Sprintf("work %d %s %s", n, init, graph)
	return sc
}

func (sc scenario) hasNilItem() bool {
	if _, ok := sc.children[nilItem]; ok {
		return true
	}
	for _, x := range sc.init {
		if x == nilItem {
			return true
		}
	}
	for _, cs := range sc.children {
		for _, c := range cs {
			if c == nilItem {
				return true
			}
		}
	}
	return false
}

func cacheScenario(label, prog string) scenario {
	sc := scenario{kind: "cache", label: label, text: "cache " + prog, nilKeys: map[string]bool{}}
	for _, g := range strings.Split(prog, "|") {
		var ops []string
		for _, op := range strings.Split(g, ";") {
			if op != "" && op != "-" {
				ops = append(ops, op)
				if op[0] == 'n' {
					sc.nilKeys[op[1:]] = true
				}
			}
		}
		sc.prog = append(sc.prog, ops)
	}
	return sc
}

// consistent: every op is d/n/g<number>, and a key is computed either always by the nil-returning f
// (`n`) or always by the value-returning one (`d`) — the model knows one f per key.
func (sc scenario) consistent() bool {
	for _, g := range sc.prog {
		for _, op := range g {
			if len(op) < 2 || !strings.ContainsRune("dng", rune(op[0])) {
				return false
			}
			if _, err := strconv.Atoi(op[1:]); err != nil {
				return false
			}
			if op[0] == 'd' && sc.nilKeys[op[1:]] {
				return false
			}
		}
	}
	return true
}

func parseScenario(text string) (scenario, string, bool) {
	f := strings.Fields(text)
	switch {
	case len(f) >= 4 && f[0] == "work":
		n, err := strconv.Atoi(f[1])
		if err != nil {
			return scenario{}, "", false
		}
		sched := ""
		if len(f) >= 5 {
			sched = f[4]
		}
		return workScenario("replay", n, f[2], f[3]), sched, true
	case len(f) >= 2 && f[0] == "cache":
		sched := ""
		if len(f) >= 3 {
			sched = f[2]
		}
		sc := cacheScenario("replay", f[1])
		return sc, sched, sc.consistent()
	}
	return scenario{}, "", false
}

// item graphs of at most 4 items for the exhaustive part
var smallGraphs = [][3]string{
	{"empty", "-", "-"},
	{"single", "0", "-"},
	{"two", "0,1", "-"},
	{"chain", "0", "0>1;1>2;2>3"},
	{"fanout", "0", "0>1,2,3"},
	{"diamond", "0", "0>1,2;1>3;2>3"},
	{"selfloop", "0", "0>0"},
	{"cycle", "0", "0>1;1>0"},
	{"dupadds", "0,0,1", "0>1,1;1>0"},
	{"join", "0,1", "0>2;1>2;2>3"},
	{"chain2", "0", "0>1;1>2"},
	{"fan2", "0", "0>1,2"},
	{"two-fan", "0,1", "0>2,3"},
	// the item nil (written 999): alone, among others, added from inside f, with children, added twice
	{"nil-single", "999", "-"},
	{"nil-among", "0,999,1", "-"},
	{"nil-child", "0", "0>999,1;999>2"},
	{"nil-dup", "999,999", "999>999,0"},
}

var smallCaches = [][2]string{
	{"do-do", "d0|d0"},
	{"do-get", "d0|g0"},
	{"do-do-do", "d0|d0|d0"},
	{"do-do-get", "d0|d0|g0"},
	{"doget-doget", "d0;g0|g0;d0"},
	{"do2-get2", "d0;d0|g0;g0"},
	{"twokeys", "d0;d1|d1;d0"},
	{"twokeys-get", "d0;g1|d1;g0"},
	{"get-get", "g0|g0"},
	{"three-two", "d0|d1;d0|g0;g1"},
	{"four", "d0|d0|g0|d0"},
	{"four-two", "d0|d1|g0;d1|g1;d0"},
	// nil keys (`n`: the f passed to Do returns the untyped nil)
	{"nil-do-do", "n0|n0"},
	{"nil-seq-get", "n0;n0;g0|g0"},
	{"nil-doget-doget", "n0;g0|g0;n0"},
	{"nil-do-do-do", "n0|n0;n0|n0"},
	{"nil-and-value", "n0;d1;g0|d1;n0;g1"},
}

func randWork(r *rand.Rand, maxN, maxItems int) scenario {
	n := 1 + r.Intn(maxN)
	items := 1 + r.Intn(maxItems)
	var init []string
	for i, k := 0, 1+r.Intn(3); i < k; i++ {
		init = append(init, strconv.Itoa(r.Intn(items)))
	}
	if r.Intn(12) == 0 {
		init = nil
	}
	var parts []string
	for x := 0; x < items; x++ {
		k := r.Intn(4)
		if r.Intn(3) == 0 {
			k = 0
		}
		var cs []string
		for i := 0; i < k; i++ {
			switch r.Intn(4) {
			case 0:
				cs = append(cs, strconv.Itoa(r.Intn(items))) // anywhere (cycles, duplicates)
			default:
				cs = append(cs, strconv.Itoa(min(items-1, x+1+r.Intn(3)))) // forward
			}
		}
		if len(cs) > 0 {
			parts = append(parts, fmt.Sprintf("%d>%s", x, strings.Join(cs, ",")))
		}
	}
	in, gr := "-", "-"
	if len(init) > 0 {
		in = strings.Join(init, ",")
	}
	if len(parts) > 0 {
		gr = strings.Join(parts, ";")
	}
	label := "random"
	if r.Intn(4) == 0 {
		// one of the items is the Go value nil
		x := strconv.Itoa(r.Intn(items))
		ren := func(list string, sep string) string {
			f := strings.Split(list, sep)
			for i := range f {
				if f[i] == x {
					f[i] = nilItem
				}
			}
			return strings.Join(f, sep)
		}
		if in != "-" {
			in = ren(in, ",")
		}
		if gr != "-" {
			ps := strings.Split(gr, ";")
			for i, p := range ps {
				kv := strings.SplitN(p, ">", 2)
				ps[i] = ren(kv[0], ",") + ">" + ren(kv[1], ",")
			}
			gr = strings.Join(ps, ";")
		}
	}
	sc := workScenario(label, n, in, gr)
	if sc.hasNilItem() {
		sc.label = "random+nil"
	}
	return sc
}

func randCache(r *rand.Rand) scenario {
	g := 2 + r.Intn(3)
	keys := 1 + r.Intn(2)
	// each key's f returns nil with probability 1/3
	doOp := make([]string, keys)
	label := "random"
	for k := range doOp {
		doOp[k] = "d"
		if r.Intn(3) == 0 {
			doOp[k] = "n"
			label = "random+nil"
		}
	}
	var gs []string
	for i := 0; i < g; i++ {
		var ops []string
		for j, k := 0, 1+r.Intn(3); j < k; j++ {
			key := r.Intn(keys)
			op := doOp[key]
			if r.Intn(3) == 0 {
				op = "g"
			}
			ops = append(ops, op+strconv.Itoa(key))
		}
		gs = append(gs, strings.Join(ops, ";"))
	}
	return cacheScenario(label, strings.Join(gs, "|"))
}

// ---------------------------------------------------------------- trace parsing

type event struct {
	task int
	op   string
	args []string
	res  string
}

func parseTrace(line string) (evs []event, end string, choices string, err error) {
	if !strings.HasPrefix(line, "TRACE ") {
		return nil, "", "", fmt.Errorf("not a trace: %.80q", line)
	}
	body := strings.TrimPrefix(line, "TRACE ")
	i := strings.LastIndex(body, " END ")
	if i < 0 {
		return nil, "", "", fmt.Errorf("trace without END")
	}
	tail := strings.Fields(body[i+5:])
	body = body[:i]
	if len(tail) >= 1 {
		end = tail[0]
	}
	if len(tail) >= 3 && tail[1] == "CH" {
		choices = tail[2]
	}
	if body == "" {
		return nil, end, choices, nil
	}
	for _, es := range strings.Split(body, "|") {
		f := strings.Fields(es)
		if len(f) < 3 || !strings.HasPrefix(f[1], "t") {
			return nil, "", "", fmt.Errorf("bad event %q", es)
		}
		t, err := strconv.Atoi(f[1][1:])
		if err != nil {
			return nil, "", "", fmt.Errorf("bad event %q", es)
		}
		e := event{task: t, op: f[2]}
		rest := f[3:]
		for j, a := range rest {
			if a == "->" {
				e.res = strings.Join(rest[j+1:], " ")
				rest = rest[:j]
				break
			}
		}
		e.args = rest
		evs = append(evs, e)
	}
	return evs, end, choices, nil
}

func arg(e event, i int) string {
	if i < len(e.args) {
		return e.args[i]
	}
	return ""
}

// ---------------------------------------------------------------- analysis of one trace

type analysis struct {
	modelLine  string      // request for the Lean driver
	expect     [][2]string // fields the model's final summary must show
	violations [][2]string // (class, what) found by the independent oracle
	badTrace   string      // the trace could not be translated (counts as a disagreement)
	tasks      int         // tasks that took a step
	switches   int
	events     int
	end        string
}

func (a *analysis) violate(class, what string) {
	a.violations = append(a.violations, [2]string{class, what})
}

func taskID(s string) (int, bool) {
	if !strings.HasPrefix(s, "t") {
		return 0, false
	}
	v, err := strconv.Atoi(s[1:])
	return v, err == nil
}

// closure of the initial items under children
func closure(sc scenario) map[string]bool {
	seen := map[string]bool{}
	todo := append([]string{}, sc.init...)
	for len(todo) > 0 {
		x := todo[len(todo)-1]
		todo = todo[:len(todo)-1]
		if seen[x] {
			continue
		}
		seen[x] = true
		todo = append(todo, sc.children[x]...)
	}
	return seen
}

// sortedKeys returns the keys of a string set in a fixed order (numbers numerically).
func sortedKeys(m map[string]bool) []string {
	out := make([]string, 0, len(m))
	for k := range m {
		out = append(out, k)
	}
	sort.Slice(out, func(i, j int) bool {
		a, e1 := strconv.Atoi(out[i])
		b, e2 := strconv.Atoi(out[j])
		if e1 == nil && e2 == nil && a != b {
			return a < b
		}
		return out[i] < out[j]
	})
	return out
}

// oracleWork is the property oracle for one Work execution.  It looks only at what the property
// talks about — the calls of f (`f-enter`, `f-exit`), the calls of Add (`add-call`, `add-return`), the
// call and the return of Do, which goroutines exist and which of them sleep on a condition variable
// (`wait`, `signal -> t`, `broadcast`, `wake`: the scheduler's view, not the shape of the code), and how
// the execution ended — so it gives the same verdict for any implementation of Work.
func oracleWork(sc scenario, evs []event, end string, a *analysis) {
	inF := map[int]string{}     // task -> item it is running f on
	entered := map[string]int{} // item -> number of f-enter
	exited := map[string]int{}
	doReturned := false
	all := closure(sc)
	// lost wake-up bookkeeping
	alive := map[int]bool{}       // started, not exited
	parked := map[int]bool{}      // in a condition variable's wait set, not signalled
	woken := map[int]bool{}       // signalled, has not resumed yet
	inAdd := map[int]bool{}       // between add-call and add-return
	addedRet := map[string]bool{} // some Add(item) has returned
	pending := 0                  // items whose Add has returned and on which f has not been called yet
	lostReported := false
	idx := 0
	for _, e := range evs {
		if e.op != "B" {
			idx++
		}
		switch e.op {
		case "B":
			continue
		case "start":
			alive[e.task] = true
		case "go":
			// a goroutine that has been created and has not run yet is a worker on its way
			if w, ok := taskID(arg(e, 0)); ok {
				alive[w] = true
			}
		case "exit":
			delete(alive, e.task)
		case "panic":
			delete(alive, e.task)
			a.violate("panic", "a task panicked: "+strings.Join(e.args, " "))
		case "add-call":
			inAdd[e.task] = true
		case "add-return":
			delete(inAdd, e.task)
			if x := arg(e, 0); !addedRet[x] {
				addedRet[x] = true
				if entered[x] == 0 {
					pending++
				}
			}
		case "wait":
			parked[e.task] = true
		case "signal":
			if w, ok := taskID(e.res); ok && parked[w] {
				delete(parked, w)
				woken[w] = true
			}
		case "broadcast":
			for w := range parked {
				woken[w] = true
			}
			parked = map[int]bool{}
		case "wake":
			delete(woken, e.task)
			delete(parked, e.task)
		case "f-enter":
			x := arg(e, 0)
			entered[x]++
			if entered[x] == 1 && addedRet[x] {
				pending--
			}
			if entered[x] > 1 {
				a.violate("f-twice", "f called twice for item "+x)
			}
			if !all[x] {
				a.violate("f-not-added", "f called for item "+x+" which was never added")
			}
			if _, ok := inF[e.task]; ok {
				a.violate("f-nested", "f entered while the same task is inside f")
			}
			inF[e.task] = x
			if len(inF) > sc.n {
				a.violate("too-many-concurrent", fmt.Sprintf("%d calls of f in progress with n=%d", len(inF), sc.n))
			}
			if doReturned {
				a.violate("f-after-return", "f called for "+x+" after Do returned")
			}
		case "f-exit":
			x := arg(e, 0)
			if inF[e.task] != x {
				a.violate("f-exit-mismatch", "f-exit "+x+" without matching f-enter")
			}
			delete(inF, e.task)
			exited[x]++
			if doReturned {
				a.violate("f-after-return", "f("+x+") still running when Do returned")
			}
		case "do-return":
			doReturned = true
			if len(inF) > 0 {
				a.violate("early-return", fmt.Sprintf("Do returned while %d calls of f are in flight", len(inF)))
			}
			for _, x := range sortedKeys(all) {
				if exited[x] == 0 {
					a.violate("early-return", "Do returned but item "+x+" (added) has not been processed")
					break
				}
			}
		}
		// No lost wake-up: while no call of Add is in progress, a worker may sleep on the condition variable
		// without a wake-up on its way only if every item that waits for its call of f is covered by a worker
		// that has been woken and not resumed yet, or by a live worker that is neither asleep nor inside f
		// (it is on its way to look at the queue or to call f).
		if !lostReported && len(parked) > 0 && len(inAdd) == 0 && pending > 0 {
			active := 0
			for t := range alive {
				if _, busy := inF[t]; !busy && !parked[t] && !woken[t] {
					active++
				}
			}
			if pending > len(woken)+active {
				lostReported = true
				a.violate("lost-wakeup", fmt.Sprintf("%d item(s) added and not yet started, %d worker(s) asleep on the condition variable with no wake-up under way, only %d woken and %d other idle worker(s) to take them (after event %d: t%d %s)",
					pending, len(parked), len(woken), active, idx, e.task, e.op))
			}
		}
	}
	switch end {
	case "deadlock":
		a.violate("deadlock", "the scheduler found no enabled task (deadlock / lost wake-up)")
	case "aborted":
		a.violate("no-termination", "step limit reached")
	case "done":
		if sc.n >= 1 {
			if !doReturned {
				a.violate("no-return", "all tasks finished but Do did not return")
			}
			for _, x := range sortedKeys(all) {
				if entered[x] != 1 || exited[x] != 1 {
					a.violate("not-exactly-once", fmt.Sprintf("item %s: f entered %d times, completed %d times", x, entered[x], exited[x]))
					break
				}
			}
		}
	}
}

// analyseWork runs the oracle and translates the trace into the request for the Lean driver.  An event the
// model has no counterpart for makes the trace untranslatable (a model/implementation difference); the
// oracle's verdict does not depend on that.
func analyseWork(sc scenario, evs []event, end string) *analysis {
	a := &analysis{end: end}
	seenTask := map[int]bool{}
	last := -1
	for _, e := range evs {
		if e.op == "B" {
			continue
		}
		a.events++
		seenTask[e.task] = true
		if last >= 0 && last != e.task {
			a.switches++
		}
		last = e.task
	}
	a.tasks = len(seenTask)
	// ---- property oracle
	oracleWork(sc, evs, end, a)
	// ---- translation
	var out []string
	var callOrder []string
	all := closure(sc)
	for _, e := range evs {
		if a.badTrace != "" {
			break
		}
		if e.op == "B" {
			out = append(out, "0:B:"+arg(e, 0))
			continue
		}
		t := strconv.Itoa(e.task)
		bad := func() {
			a.badTrace = fmt.Sprintf("untranslatable event: t%d %s %v -> %s", e.task, e.op, e.args, e.res)
		}
		switch e.op {
		case "start", "exit":
			out = append(out, t+":"+e.op)
		case "panic":
			out = append(out, t+":panic")
		case "add-call", "add-return":
			// driver notes for the oracle; Add is modelled by its lock / signal / unlock events
		case "lock", "unlock":
			if arg(e, 0) != "m0" {
				bad()
				break
			}
			out = append(out, t+":"+e.op)
		case "wait", "wake":
			if arg(e, 0) != "c0" || arg(e, 1) != "m0" {
				bad()
				break
			}
			out = append(out, t+":"+e.op)
		case "signal":
			if arg(e, 0) != "c0" {
				bad()
				break
			}
			if e.res == "none" {
				out = append(out, t+":sig:-")
			} else if w, ok := taskID(e.res); ok {
				out = append(out, fmt.Sprintf("%s:sig:%d", t, w))
			} else {
				bad()
			}
		case "broadcast":
			if arg(e, 0) != "c0" {
				bad()
				break
			}
			out = append(out, t+":bc:"+e.res)
		case "rand":
			out = append(out, t+":rand:"+arg(e, 0)+":"+e.res)
		case "f-enter":
			out = append(out, t+":fe:"+arg(e, 0))
			callOrder = append(callOrder, arg(e, 0))
		case "f-exit":
			out = append(out, t+":fx:"+arg(e, 0))
		case "do-call":
			out = append(out, t+":dc:"+arg(e, 0))
		case "do-return":
			out = append(out, t+":dr")
		case "go":
			if w, ok := taskID(arg(e, 0)); ok {
				out = append(out, fmt.Sprintf("%s:go:%d", t, w))
			} else {
				bad()
			}
		default:
			bad()
		}
	}
	f := strings.Fields(sc.text)
	in, gr := f[2], f[3]
	ev := "-"
	if len(out) > 0 {
		ev = strings.Join(out, "|")
	}
	a.modelLine = fmt.Sprintf("work %d %s %s %s", sc.n, in, gr, ev)
	// ---- what the model's final state must say
	if end == "done" {
		a.expect = append(a.expect, [2]string{"final", "true"}, [2]string{"enabled", "-"}, [2]string{"todo", "-"}, [2]string{"insideF", "-"}, [2]string{"owner", "-"})
		if sc.n >= 1 {
			a.expect = append(a.expect, [2]string{"waiting", strconv.Itoa(sc.n)}, [2]string{"running", strconv.Itoa(sc.n)})
		}
	} else if end == "deadlock" {
		a.expect = append(a.expect, [2]string{"final", "false"}, [2]string{"enabled", "-"})
	}
	co := "-"
	if len(callOrder) > 0 {
		co = strings.Join(callOrder, ",")
	}
	a.expect = append(a.expect, [2]string{"calls", co})
	if end == "done" && sc.n >= 1 {
		a.expect = append(a.expect, [2]string{"added-set", sortedNums(sortedKeys(all))})
	}
	return a
}

func sortedNums(names []string) string {
	var v []int
	for _, s := range names {
		n, _ := strconv.Atoi(s)
		v = append(v, n)
	}
	sort.Ints(v)
	if len(v) == 0 {
		return "-"
	}
	parts := make([]string, len(v))
	for i, n := range v {
		parts[i] = strconv.Itoa(n)
	}
	return strings.Join(parts, ",")
}

func encVal(v string) (string, bool) {
	if v == "<nil>" {
		return "nil", true
	}
	kv := strings.SplitN(v, "#", 2)
	if len(kv) != 2 {
		return "", false
	}
	if _, err := strconv.Atoi(kv[0]); err != nil {
		return "", false
	}
	if _, err := strconv.Atoi(kv[1]); err != nil {
		return "", false
	}
	return kv[0] + "." + kv[1], true
}

// oracleCache is the property oracle for one Cache execution.  It looks only at the calls and returns of
// Do and Get, at the calls of f and the values it returned, at the scheduler's blocked sets and at how the
// execution ended — not at which synchronisation operations the implementation performs.
func oracleCache(sc scenario, evs []event, end string, a *analysis) {
	curKey := map[int]string{}   // task -> key of the call in progress
	inGet := map[int]bool{}      // task is inside Get
	getAfterDo := map[int]bool{} // the Get in progress was called after some Do for its key had returned
	fEntered := map[string]int{}
	fDone := map[string]bool{}    // a call of f for the key has returned
	fValue := map[string]string{} // what the first completed call of f returned
	doReturned := map[string]bool{}
	blockedReported := false
	for _, e := range evs {
		switch e.op {
		case "B":
			if arg(e, 0) != "-" && !blockedReported {
				for _, id := range strings.Split(arg(e, 0), ".") {
					n, _ := strconv.Atoi(id)
					if inGet[n] {
						blockedReported = true
						a.violate("get-blocked", fmt.Sprintf("Get(%s) is blocked (task %d cannot take a step)", curKey[n], n))
					}
				}
			}
		case "panic":
			a.violate("panic", "a task panicked: "+strings.Join(e.args, " "))
		case "do-call", "get-call":
			key := arg(e, 0)
			curKey[e.task] = key
			inGet[e.task] = e.op == "get-call"
			getAfterDo[e.task] = e.op == "get-call" && doReturned[key]
		case "f-enter":
			key := arg(e, 0)
			fEntered[key]++
			if fEntered[key] > 1 {
				a.violate("f-twice", "f invoked twice for key "+key)
			}
		case "f-exit":
			key := arg(e, 0)
			if !fDone[key] {
				fDone[key] = true
				fValue[key] = strings.Join(e.args[1:], " ")
			}
		case "do-return":
			key := arg(e, 0)
			raw := ""
			if len(e.args) > 1 {
				raw = strings.Join(e.args[1:], " ")
			}
			switch {
			case !fDone[key]:
				a.violate("do-early", "Do("+key+") returned before the call of f completed")
			case raw != fValue[key]:
				a.violate("do-wrong-value", "Do("+key+") returned "+raw+", f returned "+fValue[key])
			}
			doReturned[key] = true
			delete(curKey, e.task)
		case "get-return":
			key := arg(e, 0)
			raw := ""
			if len(e.args) > 1 {
				raw = strings.Join(e.args[1:], " ")
			}
			if raw != "<nil>" {
				if !fDone[key] || raw != fValue[key] {
					a.violate("get-wrong-value", "Get("+key+") returned "+raw+" which is neither nil nor the value of f ("+fValue[key]+")")
				}
			} else if getAfterDo[e.task] && fDone[key] && fValue[key] != "<nil>" {
				a.violate("get-nil-after-do", "Get("+key+") was called after a Do("+key+") had returned "+fValue[key]+" and returned nil")
			}
			delete(curKey, e.task)
			inGet[e.task] = false
		}
	}
	switch end {
	case "deadlock":
		a.violate("deadlock", "the scheduler found no enabled task")
	case "aborted":
		a.violate("no-termination", "step limit reached")
	case "done":
		doKeys := map[string]bool{}
		for _, g := range sc.prog {
			for _, op := range g {
				if op[0] != 'g' {
					doKeys[op[1:]] = true
				}
			}
		}
		for _, k := range sortedKeys(doKeys) {
			if fEntered[k] != 1 {
				a.violate("not-exactly-once", fmt.Sprintf("key %s: f invoked %d times although Do(%s) was called", k, fEntered[k], k))
			}
		}
	}
}

func analyseCache(sc scenario, evs []event, end string) *analysis {
	a := &analysis{end: end}
	// ---- property oracle
	oracleCache(sc, evs, end, a)
	// ---- translation into the request for the Lean driver
	var out []string
	curKey := map[int]string{}    // task -> key of the call in progress
	objKey := map[string]string{} // a0 / m0 -> key
	keyObj := map[string]string{} // "a:"+key -> a0
	fEntered := map[string]int{}
	fValue := map[string]string{} // key -> value returned by the completed f
	seenTask := map[int]bool{}
	last := -1
	bad := func(why string) {
		if a.badTrace == "" {
			a.badTrace = why
		}
	}
	bind := func(kind, obj, key string) bool {
		if k, ok := objKey[obj]; ok && k != key {
			bad(fmt.Sprintf("%s is used for keys %s and %s", obj, k, key))
			return false
		}
		if o, ok := keyObj[kind+key]; ok && o != obj {
			bad(fmt.Sprintf("key %s uses two entries (%s and %s)", key, o, obj))
			return false
		}
		objKey[obj] = key
		keyObj[kind+key] = obj
		return true
	}
	for _, e := range evs {
		if e.op == "B" {
			out = append(out, "0:B:"+arg(e, 0))
			continue
		}
		a.events++
		seenTask[e.task] = true
		if last >= 0 && last != e.task {
			a.switches++
		}
		last = e.task
		if a.badTrace != "" {
			continue
		}
		t := strconv.Itoa(e.task)
		untranslatable := func() {
			bad(fmt.Sprintf("untranslatable event: t%d %s %v -> %s", e.task, e.op, e.args, e.res))
		}
		key := curKey[e.task]
		switch e.op {
		case "start", "exit":
			out = append(out, t+":"+e.op)
		case "do-call", "get-call":
			curKey[e.task] = arg(e, 0)
			out = append(out, t+":"+map[string]string{"do-call": "dc", "get-call": "gc"}[e.op]+":"+arg(e, 0))
		case "do-return", "get-return":
			if len(e.args) < 2 {
				untranslatable()
				break
			}
			v, ok := encVal(strings.Join(e.args[1:], " "))
			if !ok || arg(e, 0) != key {
				untranslatable()
				break
			}
			out = append(out, t+":"+map[string]string{"do-return": "dr", "get-return": "gr"}[e.op]+":"+key+":"+v)
			delete(curKey, e.task)
		case "map.load", "map.loadOrStore":
			if arg(e, 0) != "M0" || arg(e, 1) != key {
				untranslatable()
				break
			}
			op := map[string]string{"map.load": "ml", "map.loadOrStore": "mls"}[e.op]
			out = append(out, t+":"+op+":"+key+":"+e.res)
		case "atomic.load":
			if bind("a:", arg(e, 0), key) {
				out = append(out, t+":al:"+key+":"+e.res)
			}
		case "atomic.store":
			if bind("a:", arg(e, 0), key) {
				out = append(out, t+":as:"+key+":"+arg(e, 1))
			}
		case "lock", "unlock":
			if bind("m:", arg(e, 0), key) {
				out = append(out, t+":"+e.op+":"+key)
			}
		case "f-enter":
			if arg(e, 0) != key {
				untranslatable()
				break
			}
			fEntered[key]++
			out = append(out, t+":fe:"+key)
		case "f-exit":
			v, ok := encVal(strings.Join(e.args[1:], " "))
			if !ok || arg(e, 0) != key {
				untranslatable()
				break
			}
			fValue[key] = strings.Join(e.args[1:], " ")
			out = append(out, t+":fx:"+key+":"+v)
		default:
			untranslatable()
		}
	}
	a.tasks = len(seenTask)
	ev := "-"
	if len(out) > 0 {
		ev = strings.Join(out, "|")
	}
	a.modelLine = "cache " + strings.TrimPrefix(sc.text, "cache ") + " " + ev
	if end == "done" {
		a.expect = append(a.expect, [2]string{"final", "true"}, [2]string{"enabled", "-"})
		// per key summary
		keys := map[string]bool{}
		doKeys := map[string]bool{}
		for _, g := range sc.prog {
			for _, op := range g {
				keys[op[1:]] = true
				if op[0] != 'g' {
					doKeys[op[1:]] = true
				}
			}
		}
		var parts []string
		for _, k := range sortedKeys(keys) {
			if doKeys[k] {
				v, _ := encVal(fValue[k])
				parts = append(parts, fmt.Sprintf("%s:alloc=true,done=1,owner=-,result=%s,fcalls=%d,fret=%s", k, v, fEntered[k], v))
			} else {
				parts = append(parts, fmt.Sprintf("%s:alloc=false,done=0,owner=-,result=nil,fcalls=0,fret=-", k))
			}
		}
		a.expect = append(a.expect, [2]string{"keys", strings.Join(parts, ";")})
	}
	return a
}

func analyse(sc scenario, line string) *analysis {
	evs, end, _, err := parseTrace(line)
	if err != nil {
		return &analysis{badTrace: err.Error()}
	}
	if sc.kind == "work" {
		return analyseWork(sc, evs, end)
	}
	return analyseCache(sc, evs, end)
}

// checkModel compares the model's answer with what the trace implies.
func checkModel(a *analysis, answer string) string {
	if !strings.HasPrefix(answer, "ok ") {
		return answer
	}
	fields := map[string]string{}
	for _, f := range strings.Fields(answer[3:]) {
		kv := strings.SplitN(f, "=", 2)
		if len(kv) == 2 {
			fields[kv[0]] = kv[1]
		}
	}
	if ad, ok := fields["added"]; ok {
		if ad == "-" {
			fields["added-set"] = "-"
		} else {
			fields["added-set"] = sortedNums(strings.Split(ad, ","))
		}
	}
	for _, kv := range a.expect {
		if fields[kv[0]] != kv[1] {
			return fmt.Sprintf("model final state has %s=%s, the trace implies %s (model: %s)", kv[0], fields[kv[0]], kv[1], answer)
		}
	}
	return ""
}

// ---------------------------------------------------------------- the run

type job struct {
	sc         scenario
	request    string // full request line for the instrumented driver
	dfs        bool
	exhaustive bool
}

type jobResult struct {
	traces []string
	status string
	err    error
}

func propOf(sc scenario) string {
	if sc.kind == "work" {
		return "C09"
	}
	return "C10"
}

func hash64(s string) uint64 {
	h := fnv.New64a()
	h.Write([]byte(s))
	return h.Sum64()
}

func runPar(tier string, seed int64, model string, replay string) *corr.Result {
	res := corr.NewResult("par", tier, seed)
	tStart := time.Now()
	r := rand.New(rand.NewSource(seed))
	search := os.Getenv("VERIF_SEARCH") != ""

	b, err := buildShim()
	if err != nil {
		res.Observations = append(res.Observations, "cannot build the instrumented driver: "+err.Error())
		res.Disagree("<shim-build>", err.Error(), "")
		return res
	}
	defer b.Cleanup()

	var jobs []job
	if replay != "" {
		sc, sched, ok := parseScenario(replay)
		if !ok || sched == "" {
			res.Disagree(replay, "unparsable replay case", "")
			return res
		}
		jobs = append(jobs, job{sc: sc, request: sc.text + " " + sched})
	} else {
		thorough := tier == "thorough"
		// ---- exhaustive part: DFS over scheduler and rand.Intn choices, preemption bounded
		type plan struct {
			n, bound, max int
			exhaustive    bool // meant to be complete (a truncation is reported)
		}
		plans := []plan{{1, 2, 100000, true}, {2, 2, 100000, true}, {3, 1, 100000, true}, {3, 2, 2500, false}, {4, 1, 2500, false}}
		if thorough {
			plans = []plan{{1, 3, 200000, true}, {2, 3, 200000, true}, {3, 2, 200000, true}, {4, 1, 200000, true}, {4, 2, 20000, false}}
		}
		for _, g := range smallGraphs {
			for _, pl := range plans {
				sc := workScenario(g[0], pl.n, g[1], g[2])
				jobs = append(jobs, job{sc: sc, request: fmt.Sprintf("dfs %d %d %s", pl.bound, pl.max, sc.text), dfs: true, exhaustive: pl.exhaustive})
			}
		}
		for _, g := range smallCaches {
			sc := cacheScenario(g[0], g[1])
			bound := 2
			if len(sc.prog) >= 4 {
				bound = 1
			}
			if thorough {
				bound++
			}
			jobs = append(jobs, job{sc: sc, request: fmt.Sprintf("dfs %d %d %s", bound, 400000, sc.text), dfs: true, exhaustive: true})
		}
		// ---- seeded random schedules on the small scenarios (unbounded preemptions)
		nSmall, nRandW, nRandC := 40, 2500, 2500
		if thorough {
			nSmall, nRandW, nRandC = 400, 40000, 30000
		}
		if search {
			nRandW *= 2
			nRandC *= 2
		}
		for _, g := range smallGraphs {
			for n := 1; n <= 4; n++ {
				sc := workScenario(g[0]+"-rnd", n, g[1], g[2])
				for i := 0; i < nSmall; i++ {
					jobs = append(jobs, job{sc: sc, request: fmt.Sprintf("%s %s", sc.text, randSched(r))})
				}
			}
		}
		for _, g := range smallCaches {
			sc := cacheScenario(g[0]+"-rnd", g[1])
			for i := 0; i < nSmall; i++ {
				jobs = append(jobs, job{sc: sc, request: fmt.Sprintf("%s %s", sc.text, randSched(r))})
			}
		}
		// ---- large worker counts (the property quantifies over all n): small item graphs, a few seeded schedules each
		nLarge := 2
		if thorough {
			nLarge = 12
		}
		for _, n := range []int{64, 100, 256, 257, 300, 1000} {
			for _, g := range [][3]string{{"empty", "-", "-"}, {"single", "0", "-"}, {"chain2", "0", "0>1;1>2"}, {"fan2", "0", "0>1,2"},
				{"diamond", "0", "0>1,2;1>3;2>3"}, {"five", "0,1", "0>2;1>2;2>3,4;4>0"}} {
				sc := workScenario("large-n", n, g[1], g[2])
				for i := 0; i < nLarge; i++ {
					jobs = append(jobs, job{sc: sc, request: fmt.Sprintf("%s %s", sc.text, randSched(r))})
				}
			}
		}
		// ---- bursts: more than a thousand items pending at once (growth steps of the queue's backing array), the queue
		// then drains to exactly empty, and whoever is processed last re-adds an item that has been processed already
		nBurst := 1
		if thorough {
			nBurst = 4
		}
		for _, bs := range [][2]int{{1, 1100}, {2, 1100}, {4, 1300}, {1, 2100}} {
			sc := workScenario("burst", bs[0], fmt.Sprintf("0..%d", bs[1]-1), fmt.Sprintf("0..%d>0", bs[1]-1))
			for i := 0; i < nBurst; i++ {
				jobs = append(jobs, job{sc: sc, request: fmt.Sprintf("%s %s", sc.text, randSched(r))})
			}
		}
		// ---- random scenarios: n ≤ 8, ≤ 30 items (one of them nil in a quarter of the scenarios); 2–4 goroutines, 1–2 keys
		// (each key's f returns nil with probability 1/3)
		for i := 0; i < nRandW; i++ {
			sc := randWork(r, 8, 30)
			jobs = append(jobs, job{sc: sc, request: fmt.Sprintf("%s %s", sc.text, randSched(r))})
		}
		for i := 0; i < nRandC; i++ {
			sc := randCache(r)
			jobs = append(jobs, job{sc: sc, request: fmt.Sprintf("%s %s", sc.text, randSched(r))})
		}
	}

	// ---- run the instrumented driver (several processes; results kept in job order)
	results := make([]jobResult, len(jobs))
	workers := runtime.NumCPU()
	if workers > 8 {
		workers = 8
	}
	if workers > len(jobs) {
		workers = len(jobs)
	}
	var wg sync.WaitGroup
	var mu sync.Mutex
	nextJob := 0
	for w := 0; w < workers; w++ {
		wg.Add(1)
		go func() {
			defer wg.Done()
			p, err := startShim(b.Bin)
			if err != nil {
				mu.Lock()
				res.Observations = append(res.Observations, "cannot start the instrumented driver: "+err.Error())
				mu.Unlock()
				return
			}
			defer p.close()
			for {
				mu.Lock()
				i := nextJob
				nextJob++
				mu.Unlock()
				if i >= len(jobs) {
					return
				}
				tr, st, err := p.request(jobs[i].request)
				results[i] = jobResult{tr, st, err}
				if err != nil {
					return
				}
			}
		}()
	}
	wg.Wait()
	if os.Getenv("VERIF_PAR_TIMING") != "" {
		fmt.Fprintf(os.Stderr, "par: %d jobs, instrumented runs done after %v\n", len(jobs), time.Since(tStart))
	}

	// ---- analyse, replay in the model, compare
	seen := map[uint64]bool{}
	nontrivial := 0
	dfsStats := map[string][2]int{} // label -> (scenarios, schedules)
	truncated, sampled := 0, 0
	const chunk = 40000
	var pend []*analysis
	var pendCase []string
	var pendProp []string
	flush := func() {
		if len(pend) == 0 {
			return
		}
		lines := make([]string, len(pend))
		for i, a := range pend {
			lines[i] = a.modelLine
		}
		tM := time.Now()
		// mdl.Run gives each driver process a contiguous block; deal the lines round-robin so that the heavy
		// traces (large n, bursts), which are generated next to each other, are spread over the processes
		W := runtime.NumCPU()
		order := make([]int, 0, len(lines))
		for w := 0; w < W; w++ {
			for i := w; i < len(lines); i += W {
				order = append(order, i)
			}
		}
		dealt := make([]string, len(lines))
		for j, i := range order {
			dealt[j] = lines[i]
		}
		outs2, err := mdl.Run(model, nil, dealt, W)
		outs := make([]string, len(lines))
		if err == nil {
			for j, i := range order {
				outs[i] = outs2[j]
			}
		}
		if os.Getenv("VERIF_PAR_TIMING") != "" {
			fmt.Fprintf(os.Stderr, "par: model replay of %d traces took %v\n", len(lines), time.Since(tM))
		}
		if err != nil {
			res.Observations = append(res.Observations, "model driver error: "+err.Error())
			res.Disagree("<driver>", "", err.Error())
		} else {
			for i, a := range pend {
				if why := checkModel(a, outs[i]); why != "" {
					res.DisagreeFor([]string{pendProp[i]}, pendCase[i], "trace of the instrumented run ("+a.end+")", why)
				}
				if len(res.Samples) < 6 && (i == 0 || i == len(pend)/2 || i == len(pend)-1) {
					res.Samples = append(res.Samples, map[string]string{"case": pendCase[i], "model": outs[i]})
				}
			}
		}
		pend, pendCase, pendProp = nil, nil, nil
	}
	// the traces of a job are analysed by a pool of goroutines; the results are consumed in job order
	type analysed struct {
		caseText string
		a        *analysis
	}
	perJob := make([][]analysed, len(jobs))
	ready := make([]chan struct{}, len(jobs))
	for i := range ready {
		ready[i] = make(chan struct{})
	}
	{
		var nextA int64 = -1
		for w := 0; w < runtime.NumCPU(); w++ {
			go func() {
				for {
					i := int(atomic.AddInt64(&nextA, 1))
					if i >= len(jobs) {
						return
					}
					if results[i].err == nil {
						out := make([]analysed, len(results[i].traces))
						for k, line := range results[i].traces {
							_, _, choices, _ := parseTrace(line)
							caseText := jobs[i].sc.text + " " + choices
							if !jobs[i].dfs && len(choices) > 1500 {
								// a long recorded choice list (bursts, large n): the seeded schedule it was
								// produced from replays the same execution and keeps the replay file small
								caseText = jobs[i].request
							}
							out[k] = analysed{caseText, analyse(jobs[i].sc, line)}
						}
						perJob[i] = out
					}
					close(ready[i])
				}
			}()
		}
	}
	for i, jb := range jobs {
		jr := results[i]
		<-ready[i]
		if i > 0 {
			perJob[i-1] = nil
			results[i-1].traces = nil
		}
		if jr.err != nil {
			res.DisagreeFor([]string{propOf(jb.sc)}, jb.request, jr.err.Error(), "")
			continue
		}
		if jb.dfs {
			st := dfsStats[jb.sc.kind]
			st[0]++
			st[1] += len(jr.traces)
			dfsStats[jb.sc.kind] = st
			if strings.HasSuffix(jr.status, "truncated") {
				if jb.exhaustive {
					truncated++
					res.Observations = append(res.Observations, "DFS truncated: "+jb.request)
				} else {
					sampled++
				}
			}
		}
		prop := propOf(jb.sc)
		for _, an := range perJob[i] {
			caseText, a := an.caseText, an.a
			res.Evaluations++
			res.OracleChecked[prop]++
			// the oracle's verdict stands whether or not the model has a counterpart for every event
			for _, v := range a.violations {
				res.Violate(prop, caseText, v[1], v[0])
			}
			if a.badTrace != "" {
				res.DisagreeFor([]string{prop}, caseText, a.badTrace, "")
				continue
			}
			h := hash64(a.modelLine)
			if !seen[h] {
				seen[h] = true
				if a.tasks >= 2 && a.switches >= 2 {
					nontrivial++
				}
				res.Distribution[jb.sc.kind+":"+strings.TrimSuffix(jb.sc.label, "-rnd")]++
				if jb.sc.kind == "work" && jb.sc.hasNilItem() {
					res.Distribution["work:class=nil-item"]++
				}
				if jb.sc.kind == "cache" && len(jb.sc.nilKeys) > 0 {
					res.Distribution["cache:class=nil-key(f returns nil)"]++
				}
				if jb.sc.kind == "work" && len(jb.sc.init) > 1024 {
					res.Distribution["work:class=burst(>1024 items pending)"]++
				}
				res.Distribution[fmt.Sprintf("%s:tasks=%s", jb.sc.kind, taskBucket(a.tasks))]++
				res.Distribution[fmt.Sprintf("%s:events<%d", jb.sc.kind, (a.events/50+1)*50)]++
				res.Distribution[jb.sc.kind+":end="+a.end]++
			}
			pend = append(pend, a)
			pendCase = append(pendCase, caseText)
			pendProp = append(pendProp, prop)
			if len(pend) >= chunk {
				flush()
			}
		}
	}
	flush()
	res.DistinctNontrivial = nontrivial
	res.Rule = "distinct (scenario, event sequence) pairs of the instrumented par package in which at least two tasks take steps and the running task changes at least twice; every trace is replayed in the Lean transition system (each event must be the next operation of that task's program, enabled, with the logged result; the blocked set at every scheduling point and the final state must agree) and checked by the independent property oracle, which reads only the calls of f / Add / Do / Get, their values, the scheduler's blocked and sleeping sets and the way the execution ended (Work: every added item exactly once, at most n at a time, Do returns last, no deadlock, no lost wake-up; Cache: f once per key — nil results included —, Do returns f's value and not before it, Get neither blocks nor invents a value)"
	for k, st := range dfsStats {
		res.Extra["dfs_"+k] = map[string]int{"scenarios": st[0], "schedules": st[1]}
	}
	res.Extra["dfs_truncated_scenarios"] = truncated
	res.Extra["dfs_capped_sample_scenarios"] = sampled
	res.Exhaustive = replay == "" && truncated == 0
	if tier == "thorough" {
		res.Extra["exhaustive_spaces"] = []string{
			fmt.Sprintf("Work: all schedules (scheduler and rand.Intn choices) with at most 3 preemptions for n ≤ 2, 2 for n = 3, 1 for n = 4, over %d item graphs of ≤ 4 items (empty, single, two, chain, fan-out, diamond, self loop, cycle, duplicate adds, join, and four with the item nil); plus a capped DFS prefix with 2 preemptions for n = 4", len(smallGraphs)),
			fmt.Sprintf("Cache: all schedules with at most 3 preemptions (2 for 4 goroutines) of %d programs of 2–4 goroutines over 1–2 keys (five of them with keys whose f returns nil)", len(smallCaches)),
		}
	} else {
		res.Extra["exhaustive_spaces"] = []string{
			fmt.Sprintf("Work: all schedules (scheduler and rand.Intn choices) with at most 2 preemptions for n ≤ 2 and 1 for n = 3, over %d item graphs of ≤ 4 items (empty, single, two, chain, fan-out, diamond, self loop, cycle, duplicate adds, join, and four with the item nil); plus capped DFS prefixes with 2 preemptions for n = 3 and 1 for n = 4", len(smallGraphs)),
			fmt.Sprintf("Cache: all schedules with at most 2 preemptions (1 for 4 goroutines) of %d programs of 2–4 goroutines over 1–2 keys (five of them with keys whose f returns nil)", len(smallCaches)),
		}
	}
	if os.Getenv("VERIF_PAR_TIMING") != "" {
		fmt.Fprintf(os.Stderr, "par: analysis and model replay done after %v\n", time.Since(tStart))
	}
	if replay == "" {
		smoke(res, r, tier)
	}
	if os.Getenv("VERIF_PAR_TIMING") != "" {
		fmt.Fprintf(os.Stderr, "par: smoke done after %v\n", time.Since(tStart))
	}
	return res
}

func randSched(r *rand.Rand) string {
	seed := r.Int63n(1 << 40)
	switch r.Intn(3) {
	case 0:
		return strconv.FormatInt(seed, 10)
	case 1:
		return fmt.Sprintf("s:%d:%d", seed, 50+r.Intn(45))
	default:
		return fmt.Sprintf("s:%d:%d", seed, 90+r.Intn(9))
	}
}

// ---------------------------------------------------------------- supporting smoke check: the UNMODIFIED package

// smoke runs the real par.Work / par.Cache (real sync, real goroutines) with GOMAXPROCS varied and
// checks the same observables.  Supporting evidence only (the schedules are whatever the runtime
// produces); a watchdog with a very generous bound turns a hang into a finding.
func smoke(res *corr.Result, r *rand.Rand, tier string) {
	rounds := 60
	if tier == "thorough" {
		rounds = 600
	}
	old := runtime.GOMAXPROCS(0)
	defer runtime.GOMAXPROCS(old)
	seeds := make([]int64, rounds)
	for i := range seeds {
		seeds[i] = r.Int63()
	}
	// Every round runs under its own watchdog (a round takes milliseconds; the bound is a minute and a half), so that a
	// hang is reported with the input of the round that hung and for the property whose lane it is: the Work
	// rounds and the Cache rounds are separate lanes, a deadlock of Work says nothing about Cache.
	const roundLimit = 90
	lane := func(prop string, prepare func(i int) (string, func() string)) {
		for i := 0; i < rounds; i++ {
			runtime.GOMAXPROCS([]int{1, 2, 4, 8}[i%4])
			in, run := prepare(i)
			ch := make(chan string, 1)
			go func() { ch <- run() }()
			select {
			case v := <-ch:
				if v != "" {
					res.Violate(prop, in, v, "smoke-unmodified")
				}
				res.OracleChecked[prop]++
			case <-timeAfter(roundLimit):
				res.Violate(prop, in, fmt.Sprintf("the unmodified par package did not finish this round within %d s (hang)", roundLimit), "smoke-hang")
				return
			}
		}
	}
	lane("C09", func(i int) (string, func() string) {
		rr := rand.New(rand.NewSource(seeds[i]))
		items := 1 + rr.Intn(200)
		n := 1 + rr.Intn(16)
		children := make([][]int, items)
		for x := range children {
			for j, k := 0, rr.Intn(4); j < k; j++ {
				children[x] = append(children[x], rr.Intn(items))
			}
		}
		nilIdx := -1
		if rr.Intn(2) == 0 {
			nilIdx = rr.Intn(items)
		}
		ninit := 1 + rr.Intn(3)
		in := fmt.Sprintf("smoke-work seed=%d items=%d n=%d initial=%d nil-item=%d", seeds[i], items, n, ninit, nilIdx)
		return in, func() string { return smokeWork(n, items, children, ninit, nilIdx) }
	})
	lane("C10", func(i int) (string, func() string) {
		rr := rand.New(rand.NewSource(seeds[i] ^ 0x5bd1e995))
		g := 2 + rr.Intn(30)
		keys := 1 + rr.Intn(5)
		in := fmt.Sprintf("smoke-cache seed=%d goroutines=%d keys=%d (f of keys 2 mod 3 returns nil)", seeds[i], g, keys)
		return in, func() string { return smokeCache(g, keys) }
	})
	res.Distribution["smoke:rounds"] = rounds
	res.Distribution["smoke:class=nil-item / nil-returning keys included"] = rounds
}

func timeAfter(sec int) <-chan time.Time { return time.After(time.Duration(sec) * time.Second) }

// smokeWork: items are the ints 0 … items-1, except that item nilIdx (if ≥ 0) is the Go value nil.
func smokeWork(n, items int, children [][]int, ninit int, nilIdx int) string {
	var w par.Work
	toItem := func(i int) any {
		if i == nilIdx {
			return nil
		}
		return i
	}
	for i := 0; i < ninit; i++ {
		w.Add(toItem(i % items))
	}
	calls := make([]int32, items)
	var inFlight, maxInFlight, finished int32
	w.Do(n, func(item any) {
		x := nilIdx
		if item != nil {
			x = item.(int)
		}
		c := atomic.AddInt32(&inFlight, 1)
		for {
			m := atomic.LoadInt32(&maxInFlight)
			if c <= m || atomic.CompareAndSwapInt32(&maxInFlight, m, c) {
				break
			}
		}
		atomic.AddInt32(&calls[x], 1)
		for _, ch := range children[x] {
			w.Add(toItem(ch))
		}
		runtime.Gosched()
		atomic.AddInt32(&inFlight, -1)
		atomic.AddInt32(&finished, 1)
	})
	if atomic.LoadInt32(&inFlight) != 0 {
		return "Do returned while calls of f are in flight"
	}
	if int(maxInFlight) > n {
		return fmt.Sprintf("%d concurrent calls of f with n=%d", maxInFlight, n)
	}
	// expected: closure of the initial items
	seen := make([]bool, items)
	var todo []int
	for i := 0; i < ninit; i++ {
		todo = append(todo, i%items)
	}
	for len(todo) > 0 {
		x := todo[len(todo)-1]
		todo = todo[:len(todo)-1]
		if seen[x] {
			continue
		}
		seen[x] = true
		todo = append(todo, children[x]...)
	}
	for x := range seen {
		want := int32(0)
		if seen[x] {
			want = 1
		}
		if atomic.LoadInt32(&calls[x]) != want {
			name := strconv.Itoa(x)
			if x == nilIdx {
				name = "nil"
			}
			return fmt.Sprintf("item %s processed %d times, expected %d", name, calls[x], want)
		}
	}
	return ""
}

// smokeCache: the f of every third key (key % 3 == 2) returns nil.
func smokeCache(g, keys int) string {
	var c par.Cache
	calls := make([]int32, keys)
	var wg sync.WaitGroup
	errs := make(chan string, g*keys*3)
	want := func(key int) any {
		if key%3 == 2 {
			return nil
		}
		return fmt.Sprintf("%d#1", key)
	}
	for i := 0; i < g; i++ {
		wg.Add(1)
		go func(i int) {
			defer wg.Done()
			for k := 0; k < keys; k++ {
				key := (k + i) % keys
				if v := c.Get(key); v != nil && v != want(key) {
					errs <- fmt.Sprintf("Get(%d) = %v", key, v)
				}
				v := c.Do(key, func() any {
					n := atomic.AddInt32(&calls[key], 1)
					runtime.Gosched()
					if key%3 == 2 {
						return nil
					}
					return fmt.Sprintf("%d#%d", key, n)
				})
				if v != want(key) {
					errs <- fmt.Sprintf("Do(%d) = %v, want %v", key, v, want(key))
				}
				if v := c.Get(key); v != want(key) {
					errs <- fmt.Sprintf("Get(%d) after Do = %v, want %v", key, v, want(key))
				}
			}
		}(i)
	}
	wg.Wait()
	close(errs)
	for e := range errs {
		return e
	}
	for k := range calls {
		if calls[k] != 1 {
			return fmt.Sprintf("f invoked %d times for key %d", calls[k], k)
		}
	}
	return ""
}

func taskBucket(n int) string {
	switch {
	case n <= 8:
		return strconv.Itoa(n)
	case n < 64:
		return "9..63"
	case n <= 256:
		return "64..256"
	default:
		return ">256"
	}
}
