// diff group binary: `diff factgen ...` and `diff corr ...` (property C08).
package main

import (
	"fmt"
	"os"

	"verif/harness/internal/corr"
	"verif/harness/internal/fact"
)

func main() {
	if len(os.Args) < 2 {
		fmt.Fprintln(os.Stderr, "usage: diff factgen|corr [flags]")
		os.Exit(2)
	}
	switch os.Args[1] {
	case "factgen":
		fact.Main(os.Args[2:], "diff", "Diff", genDiff)
	case "corr":
		corr.Main(os.Args[2:], runDiff)
	default:
		fmt.Fprintln(os.Stderr, "usage: diff factgen|corr [flags]")
		os.Exit(2)
	}
}
