package main

import (
	"fmt"
	"go/ast"
	"go/token"
	"os"
	"path/filepath"
	"strconv"
	"strings"

	"verif/harness/internal/fact"
)

// leanExpr translates a Go integer/boolean expression into Lean source.  Sub-expressions whose
// whitespace-free source is a key of vars (e.g. "end.x", "len(x)", "T[k]") become that Lean
// variable; comparisons become `decide (..)`, so the result type of a condition is Bool.
func leanExpr(g *fact.Gen, e ast.Expr, vars map[string]string) (string, error) {
	if v, ok := vars[g.Src(e)]; ok {
		return v, nil
	}
	switch v := e.(type) {
	case *ast.ParenExpr:
		s, err := leanExpr(g, v.X, vars)
		return "(" + s + ")", err
	case *ast.BasicLit:
		if v.Kind == token.INT {
			return v.Value, nil
		}
	case *ast.Ident:
		if v.Name == "C" {
			return "C", nil
		}
	case *ast.UnaryExpr:
		if v.Op == token.SUB {
			s, err := leanExpr(g, v.X, vars)
			return "(-" + s + ")", err
		}
		if v.Op == token.NOT {
			s, err := leanExpr(g, v.X, vars)
			return "(!" + s + ")", err
		}
	case *ast.CallExpr:
		if id, ok := v.Fun.(*ast.Ident); ok && (id.Name == "min" || id.Name == "max") && len(v.Args) == 2 {
			a, err := leanExpr(g, v.Args[0], vars)
			if err != nil {
				return "", err
			}
			b, err := leanExpr(g, v.Args[1], vars)
			return "(" + id.Name + " (" + a + ") (" + b + "))", err
		}
	case *ast.BinaryExpr:
		a, err := leanExpr(g, v.X, vars)
		if err != nil {
			return "", err
		}
		b, err := leanExpr(g, v.Y, vars)
		if err != nil {
			return "", err
		}
		switch v.Op {
		case token.ADD, token.SUB, token.MUL:
			return "(" + a + " " + v.Op.String() + " " + b + ")", nil
		case token.LSS, token.LEQ, token.GTR, token.GEQ:
			op := map[token.Token]string{token.LSS: "<", token.LEQ: "≤", token.GTR: ">", token.GEQ: "≥"}[v.Op]
			return "(decide (" + a + " " + op + " " + b + "))", nil
		case token.EQL:
			return "(decide (" + a + " = " + b + "))", nil
		case token.NEQ:
			return "(decide (" + a + " ≠ " + b + "))", nil
		case token.LAND:
			return "(" + a + " && " + b + ")", nil
		case token.LOR:
			return "(" + a + " || " + b + ")", nil
		}
	}
	return "", fmt.Errorf("untranslatable expression %s", g.Pretty(e))
}

// emitExpr writes `def name (params : Int) : typ := <expr>`; a nil/untranslatable expression
// emits the pinned text and reports the anchor lost.
func emitExpr(g *fact.Gen, name, params, typ string, e ast.Expr, vars map[string]string, pinned, why string) {
	body, src := pinned, "(anchor lost; pinned)"
	if e == nil {
		g.Lost(name, why)
	} else if s, err := leanExpr(g, e, vars); err != nil {
		g.Lost(name, err.Error())
	} else {
		body, src = s, g.Pretty(e)
		g.Found(name, src)
	}
	sig := ""
	if params != "" {
		sig = " (" + params + " : Int)"
	}
	g.Emit("/-- `%s` -/\ndef %s%s : %s := %s\n", strings.ReplaceAll(src, "-/", "- /"), name, sig, typ, body)
}

func findAll[T ast.Node](root ast.Node, pred func(T) bool) []T {
	var out []T
	if root == nil {
		return out
	}
	ast.Inspect(root, func(n ast.Node) bool {
		if t, ok := n.(T); ok && pred(t) {
			out = append(out, t)
		}
		return true
	})
	return out
}

func endsWith(b *ast.BlockStmt, tok token.Token) bool {
	if b == nil || len(b.List) == 0 {
		return false
	}
	br, ok := b.List[len(b.List)-1].(*ast.BranchStmt)
	return ok && br.Tok == tok
}

// fprintf returns (format, args-as-source) of a `fmt.Fprintf(&out, "...", args...)` statement.
func fprintf(g *fact.Gen, st ast.Stmt) (string, []string, bool) {
	es, ok := st.(*ast.ExprStmt)
	if !ok {
		return "", nil, false
	}
	call, ok := es.X.(*ast.CallExpr)
	if !ok || g.Src(call.Fun) != "fmt.Fprintf" || len(call.Args) < 2 || g.Src(call.Args[0]) != "&out" {
		return "", nil, false
	}
	f, ok := fact.StringLit(call.Args[1])
	if !ok {
		return "", nil, false
	}
	var args []string
	for _, a := range call.Args[2:] {
		args = append(args, g.Src(a))
	}
	return f, args, true
}

// argCodes: the Fprintf arguments the model knows, as small numbers (99 = anything else).
var argCodes = map[string]int{"oldName": 0, "newName": 1, "chunk.x": 0, "count.x": 1, "chunk.y": 2, "count.y": 3}

// leanFmt renders (format bytes, argument codes).
func leanFmt(f string, args []string) string {
	codes := make([]string, len(args))
	for i, a := range args {
		c, ok := argCodes[a]
		if !ok {
			c = 99
		}
		codes[i] = strconv.Itoa(c)
	}
	return "(" + fact.LeanBytes(f) + ", [" + strings.Join(codes, ", ") + "])"
}

func pinnedDir() string {
	root := os.Getenv("VERIF_ROOT")
	if root == "" {
		root = "/verif"
	}
	return filepath.Join(root, "harness", "pinned")
}

func genDiff(g *fact.Gen) {
	// `lines` itself, translated statement by statement (harness/internal/go2lean)
	// and `tgs` (the map of counts, the index slices, sort.Search, the backward scan)
	g.TranslateModule("DiffGo", "diff/diff.go", []string{"lines", "tgs"}, "diff",
		[]string{"GIV.GoLib", "GIV.GoLibMap", "GIV.GoLibSort", "GIV.Model.Diff"}, "GIV.Go.Diff", filepath.Join(pinnedDir(), "DiffGo.lean"))
	// `Diff` itself: the hunk-assembling loop, the bytes.Buffer it prints into (a module of its own, so that a change
	// of Diff that leaves the translatable subset does not take the tie of lines / tgs with it)
	g.TranslateModule("DiffMainGo", "diff/diff.go", []string{"Diff"}, "diffmain",
		[]string{"GIV.GoLib", "GIV.GoLibFmt", "GIV.Gen.DiffGo"}, "GIV.Go.Diff", filepath.Join(pinnedDir(), "DiffMainGo.lean"))
	const rel = "diff/diff.go"
	g.Emit("set_option linter.unusedVariables false\n/-! facts read from %s: func Diff, func lines, func tgs -/\n", rel)
	diff := g.FuncDecl(rel, "Diff")
	var body *ast.BlockStmt
	if diff != nil {
		body = diff.Body
	}

	// ---- const C
	cval, cok := "3", false
	for _, gd := range findAll(ast.Node(body), func(d *ast.GenDecl) bool { return d.Tok == token.CONST }) {
		for _, sp := range gd.Specs {
			vs := sp.(*ast.ValueSpec)
			for i, n := range vs.Names {
				if n.Name == "C" && i < len(vs.Values) {
					if bl, ok := vs.Values[i].(*ast.BasicLit); ok && bl.Kind == token.INT {
						cval, cok = bl.Value, true
					}
				}
			}
		}
	}
	if cok {
		g.Found("C", cval)
	} else {
		g.Lost("C", "const C not found in Diff")
	}
	g.Emit("/-- number of context lines: `const C` in Diff -/\ndef C : Nat := %s\n", cval)

	// ---- the loop over matches
	var loop *ast.RangeStmt
	for _, r := range findAll(ast.Node(body), func(r *ast.RangeStmt) bool { return g.Src(r.X) == "tgs(x,y)" }) {
		loop = r
	}
	var lb *ast.BlockStmt
	if loop != nil {
		lb = loop.Body
	}
	vars := map[string]string{
		"m.x": "mx", "m.y": "my", "done.x": "donex", "done.y": "doney", "start.x": "startx", "start.y": "starty",
		"end.x": "endx", "end.y": "endy", "len(x)": "lenx", "len(y)": "leny", "len(ctext)": "lenctext",
		"count.x": "countx", "count.y": "county", "chunk.x": "chunkx", "chunk.y": "chunky", "n": "n",
	}
	var skipIf, contIf, closeIf, eofIf *ast.IfStmt
	var newChunk *ast.CompositeLit
	if lb != nil {
		for _, st := range lb.List {
			switch v := st.(type) {
			case *ast.IfStmt:
				src := g.Src(v.Body)
				switch {
				case endsWith(v.Body, token.CONTINUE) && !strings.Contains(src, "done=end") && skipIf == nil && contIf == nil:
					skipIf = v
				case endsWith(v.Body, token.CONTINUE) && strings.Contains(src, "done=end"):
					contIf = v
				case endsWith(v.Body, token.BREAK):
					eofIf = v
				case strings.Contains(src, "fmt.Fprintf(&out"):
					closeIf = v
				}
			case *ast.AssignStmt:
				if len(v.Lhs) == 1 && g.Src(v.Lhs[0]) == "chunk" && len(v.Rhs) == 1 {
					if cl, ok := v.Rhs[0].(*ast.CompositeLit); ok && g.Src(cl.Type) == "pair" && len(cl.Elts) == 2 {
						newChunk = cl
					}
				}
			}
		}
	}
	cond := func(i *ast.IfStmt) ast.Expr {
		if i == nil {
			return nil
		}
		return i.Cond
	}
	emitExpr(g, "skipCond", "mx my donex doney", "Bool", cond(skipIf), vars, "(decide (mx < donex))", "skip test not found")
	emitExpr(g, "contCond", "endx endy startx starty lenx leny lenctext", "Bool", cond(contIf), vars,
		"((decide (endx < lenx) || decide (endy < leny)) && (decide (endx - startx < C) || (decide (lenctext > 0) && decide (endx - startx < 2 * C))))", "chunk-continuation test not found")
	emitExpr(g, "closeCond", "lenctext", "Bool", cond(closeIf), vars, "(decide (lenctext > 0))", "chunk-closing test not found")
	var nExpr ast.Expr
	var incX, incY ast.Expr
	hunkFmt, hunkArgs, hunkOK := "@@ -%d,%d +%d,%d @@\n", []string{"chunk.x", "count.x", "chunk.y", "count.y"}, false
	if closeIf != nil {
		for _, st := range closeIf.Body.List {
			switch v := st.(type) {
			case *ast.AssignStmt:
				if len(v.Lhs) == 1 && len(v.Rhs) == 1 && g.Src(v.Lhs[0]) == "n" && v.Tok == token.DEFINE {
					nExpr = v.Rhs[0]
				}
			case *ast.IfStmt:
				if s := g.Src(v.Body); s == "{chunk.x++}" {
					incX = v.Cond
				} else if s == "{chunk.y++}" {
					incY = v.Cond
				}
			case *ast.ExprStmt:
				if f, a, ok := fprintf(g, v); ok {
					hunkFmt, hunkArgs, hunkOK = f, a, true
				}
			}
		}
	}
	emitExpr(g, "closeN", "endx endy startx starty", "Int", nExpr, vars, "(min (endx - startx) (C))", "n := min(..) not found")
	elt := func(cl *ast.CompositeLit, i int) ast.Expr {
		if cl == nil {
			return nil
		}
		return cl.Elts[i]
	}
	emitExpr(g, "hdrIncX", "countx county", "Bool", incX, vars, "(decide (countx > 0))", "chunk.x++ guard not found")
	emitExpr(g, "hdrIncY", "countx county", "Bool", incY, vars, "(decide (county > 0))", "chunk.y++ guard not found")
	emitExpr(g, "eofCond", "endx endy lenx leny", "Bool", cond(eofIf), vars, "(decide (endx ≥ lenx) && decide (endy ≥ leny))", "EOF test not found")
	emitExpr(g, "newChunkX", "endx endy", "Int", elt(newChunk, 0), vars, "(endx - C)", "chunk = pair{..} not found")
	emitExpr(g, "newChunkY", "endx endy", "Int", elt(newChunk, 1), vars, "(endy - C)", "chunk = pair{..} not found")

	// ---- formats
	if hunkOK {
		g.Found("fmtHunk", strconv.Quote(hunkFmt))
	} else {
		g.Lost("fmtHunk", "hunk header Fprintf not found")
	}
	g.Emit("/-- hunk header: format %s and arguments %s of the Fprintf in the chunk-closing branch\n(arguments coded chunk.x=0 count.x=1 chunk.y=2 count.y=3, other=99) -/\ndef fmtHunk : GIV.Bytes × List Nat := %s\n", strconv.Quote(hunkFmt), strings.Join(hunkArgs, ","), leanFmt(hunkFmt, hunkArgs))
	var hdr, hdrDoc []string
	if body != nil {
		for _, st := range body.List {
			if f, a, ok := fprintf(g, st); ok {
				hdr = append(hdr, leanFmt(f, a))
				hdrDoc = append(hdrDoc, strconv.Quote(f)+" "+strings.Join(a, ","))
			}
		}
	}
	if len(hdr) > 0 {
		g.Found("fmtHeader", strings.Join(hdrDoc, " ; "))
	} else {
		g.Lost("fmtHeader", "header Fprintf calls not found")
		hdr = []string{leanFmt("diff %s %s\n", []string{"oldName", "newName"}), leanFmt("--- %s\n", []string{"oldName"}), leanFmt("+++ %s\n", []string{"newName"})}
	}
	g.Emit("/-- the header lines: Fprintf calls at the top level of Diff, in order: %s\n(arguments coded oldName=0 newName=1, other=99) -/\ndef fmtHeader : List (GIV.Bytes × List Nat) := [%s]\n", strings.ReplaceAll(strings.Join(hdrDoc, " ; "), "-/", "- /"), strings.Join(hdr, ", "))

	// ---- line tags: `for _, s := range <slice> { ctext = append(ctext, "<tag>"+s) ...`
	tag := func(name, slice, pinned string) {
		val, ok := pinned, false
		for _, r := range findAll(ast.Node(lb), func(r *ast.RangeStmt) bool { return g.Src(r.X) == slice }) {
			for _, be := range findAll(ast.Node(r.Body), func(b *ast.BinaryExpr) bool { return b.Op == token.ADD && g.Src(b.Y) == "s" }) {
				if s, sok := fact.StringLit(be.X); sok && len(s) == 1 {
					val, ok = s, true
				}
			}
		}
		if ok {
			g.Found(name, strconv.Quote(val))
		} else {
			g.Lost(name, "append(ctext, tag+s) over "+slice+" not found")
		}
		g.Emit("/-- tag of the lines appended from `%s` -/\ndef %s : UInt8 := %d\n", slice, name, val[0])
	}
	tag("tagDel", "x[done.x:start.x]", "-")
	tag("tagIns", "y[done.y:start.y]", "+")
	tag("tagCtx", "x[start.x:end.x]", " ")
	tag("tagCtxClose", "x[start.x:start.x+n]", " ")
	tag("tagCtxOpen", "x[chunk.x:end.x]", " ")

	// ---- lines: the missing-newline suffix
	suffix, sok := "\n\\ No newline at end of file\n", false
	if fd := g.FuncDecl(rel, "lines"); fd != nil {
		for _, as := range findAll(ast.Node(fd.Body), func(a *ast.AssignStmt) bool { return a.Tok == token.ADD_ASSIGN }) {
			if s, ok := fact.StringLit(as.Rhs[0]); ok && g.Src(as.Lhs[0]) == "l[len(l)-1]" {
				suffix, sok = s, true
			}
		}
	}
	if sok {
		g.Found("noNewline", strconv.Quote(suffix))
	} else {
		g.Lost("noNewline", "l[len(l)-1] += \"...\" not found in lines")
	}
	g.Emit("/-- suffix that `lines` attaches to a last line lacking its newline -/\ndef noNewline : GIV.Bytes := %s\n", fact.LeanBytes(suffix))

	// ---- tgs: counting codes, unfilled marker, search predicate
	tgs := g.FuncDecl(rel, "tgs")
	var tb ast.Node
	if tgs != nil {
		tb = tgs.Body
	}
	tvars := map[string]string{"c": "c", "n": "n", "T[k]": "tk", "J[i]": "ji", "m[s]": "ms"}
	cnt := func(side, condName, updName, pinC, pinU string) {
		var ce, ue ast.Expr
		for _, r := range findAll(tb, func(r *ast.RangeStmt) bool { return g.Src(r.X) == side && g.Src(r.Key) == "_" }) {
			for _, is := range findAll(ast.Node(r.Body), func(i *ast.IfStmt) bool { return g.Src(i.Init) == "c:=m[s]" }) {
				ce = is.Cond
				for _, as := range findAll(ast.Node(is.Body), func(a *ast.AssignStmt) bool { return g.Src(a.Lhs[0]) == "m[s]" }) {
					ue = as.Rhs[0]
				}
			}
		}
		emitExpr(g, condName, "c", "Bool", ce, tvars, pinC, "counting loop over "+side+" not found")
		emitExpr(g, updName, "c", "Int", ue, tvars, pinU, "counting loop over "+side+" not found")
	}
	cnt("x", "cntXCond", "cntXUpd", "(decide (c > (-2)))", "(c - 1)")
	cnt("y", "cntYCond", "cntYUpd", "(decide (c > (-8)))", "(c - 4)")
	var uniq ast.Expr
	for _, is := range findAll(tb, func(i *ast.IfStmt) bool { return strings.HasPrefix(g.Src(i.Cond), "m[s]==") }) {
		uniq = is.Cond
	}
	emitExpr(g, "isUniqueCode", "ms", "Bool", uniq, tvars, "(decide (ms = ((-1) + (-4))))", "m[s] == ... test not found")
	var unf ast.Expr
	for _, as := range findAll(tb, func(a *ast.AssignStmt) bool { return len(a.Lhs) == 1 && g.Src(a.Lhs[0]) == "T[i]" }) {
		unf = as.Rhs[0]
	}
	emitExpr(g, "unfilled", "n", "Int", unf, tvars, "(n + 1)", "T[i] = ... not found")
	var sp ast.Expr
	for _, fl := range findAll(tb, func(f *ast.FuncLit) bool { return true }) {
		for _, rs := range findAll(ast.Node(fl.Body), func(r *ast.ReturnStmt) bool { return len(r.Results) == 1 }) {
			sp = rs.Results[0]
		}
	}
	emitExpr(g, "searchPred", "tk ji", "Bool", sp, tvars, "(decide (tk ≥ ji))", "sort.Search predicate not found")
	var pick ast.Expr
	for _, is := range findAll(tb, func(i *ast.IfStmt) bool { return strings.Contains(g.Src(i.Body), "seq[k]=") }) {
		pick = is.Cond
	}
	emitExpr(g, "pickCond", "li k ji lastj", "Bool", pick, map[string]string{"L[i]": "li", "k": "k", "J[i]": "ji", "lastj": "lastj"},
		"(decide (li = k) && decide (ji < lastj))", "back-scan test not found")
	// ---- the consumer: testscript/cmd.go doCmdCmp must diff the two texts it compared
	g.Emit("/-! facts read from testscript/cmd.go: method (*TestScript).doCmdCmp -/\n")
	g.EmitBool("cmpDiffsComparedTexts", "doCmdCmp compares `eq := A == B` and logs `diff.Diff(name1, []byte(A), name2, []byte(B))` with the same A, B (and `name1, name2 := args[0], args[1]`); B is the text after `ts.expand` when env is set.", true, func() (bool, bool, string) {
		const crel = "testscript/cmd.go"
		fd := g.Method(crel, "TestScript", "doCmdCmp")
		if fd == nil {
			return false, false, "method doCmdCmp not found"
		}
		var a, b string
		for _, as := range findAll(ast.Node(fd.Body), func(x *ast.AssignStmt) bool { return len(x.Lhs) == 1 && g.Src(x.Lhs[0]) == "eq" && len(x.Rhs) == 1 }) {
			if be, ok := as.Rhs[0].(*ast.BinaryExpr); ok && be.Op == token.EQL {
				a, b = g.Src(be.X), g.Src(be.Y)
			}
		}
		if a == "" || b == "" {
			return false, false, "`eq := A == B` not found in doCmdCmp"
		}
		calls := findAll(ast.Node(fd.Body), func(c *ast.CallExpr) bool { return g.Src(c.Fun) == "diff.Diff" })
		if len(calls) != 1 || len(calls[0].Args) != 4 {
			return false, false, "exactly one diff.Diff call with four arguments expected in doCmdCmp"
		}
		names := false
		for _, as := range findAll(ast.Node(fd.Body), func(x *ast.AssignStmt) bool { return g.Src(x) == "name1,name2:=args[0],args[1]" }) {
			_ = as
			names = true
		}
		expands := false
		for _, is := range findAll(ast.Node(fd.Body), func(x *ast.IfStmt) bool { return g.Src(x.Cond) == "env" }) {
			if g.Src(is.Body) == "{"+b+"=ts.expand("+b+")}" {
				expands = true
			}
		}
		c := calls[0]
		ok := names && expands && g.Src(c.Args[0]) == "name1" && g.Src(c.Args[2]) == "name2" &&
			g.Src(c.Args[1]) == "[]byte("+a+")" && g.Src(c.Args[3]) == "[]byte("+b+")"
		return ok, true, ""
	})
}
