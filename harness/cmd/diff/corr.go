package main

import "verif/harness/internal/corr"

func runDiff(tier string, seed int64, model string, replay string) *corr.Result {
	return corr.NewResult("diff", tier, seed)
}
