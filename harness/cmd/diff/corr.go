package main

import (
	"bytes"
	"crypto/sha256"
	"errors"
	"fmt"
	"math/rand"
	"os"
	"path/filepath"
	"regexp"
	"strconv"
	"strings"
	"sync"

	"github.com/rogpeppe/go-internal/diff"
	"github.com/rogpeppe/go-internal/testscript"

	"verif/harness/internal/corr"
	"verif/harness/internal/mdl"
)

// ---------------------------------------------------------------- cases

type diffCase struct {
	oldName, newName string
	old, new         []byte
	origin           string
}

func (c *diffCase) enc() string {
	return "diff " + corr.Hx([]byte(c.oldName)) + " " + corr.Hx([]byte(c.newName)) + " " + corr.Hx(c.old) + " " + corr.Hx(c.new)
}

func decCase(s string) (*diffCase, error) {
	f := strings.Fields(s)
	if len(f) != 5 || f[0] != "diff" {
		return nil, fmt.Errorf("bad case %q", s)
	}
	return &diffCase{string(corr.Unhx(f[1])), string(corr.Unhx(f[2])), corr.Unhx(f[3]), corr.Unhx(f[4]), "replay"}, nil
}

func safeDiff(c *diffCase) (out []byte, panicked bool) {
	defer func() {
		if r := recover(); r != nil {
			out, panicked = nil, true
		}
	}()
	return diff.Diff(c.oldName, append([]byte{}, c.old...), c.newName, append([]byte{}, c.new...)), false
}

// textsOver returns every text made of at most maxLines lines over alpha, each with and
// without the final newline.
func textsOver(alpha []string, maxLines int) [][]byte {
	var out [][]byte
	seen := map[string]bool{}
	var rec func(cur []string)
	rec = func(cur []string) {
		for _, final := range []string{"\n", ""} {
			t := strings.Join(cur, "\n")
			if len(cur) > 0 {
				t += final
			}
			if !seen[t] {
				seen[t] = true
				out = append(out, []byte(t))
			}
		}
		if len(cur) == maxLines {
			return
		}
		for _, a := range alpha {
			rec(append(cur[:len(cur):len(cur)], a))
		}
	}
	rec(nil)
	return out
}

var syntaxLines = []string{"", "-", "+x", "@@ -1 +1 @@", "\\ No newline at end of file", " ", "}", "--- old", "+++ new", "diff old new", "@@ -1,2 +3,4 @@", "-- ", "+", "\\", "a", "b"}
var caseNames = []string{"old", "new", "a/b.txt", "x y", "", "%d", "-", "\\ No newline at end of file"}

func randLines(r *rand.Rand, n int, mode int) []string {
	ls := make([]string, n)
	for i := range ls {
		switch mode {
		case 0: // mostly unique lines, some duplicates
			if r.Intn(4) == 0 {
				ls[i] = syntaxLines[r.Intn(len(syntaxLines))]
			} else {
				ls[i] = "line " + strconv.Itoa(r.Intn(3*n+1))
			}
		case 1: // few distinct lines: almost everything is a duplicate
			ls[i] = syntaxLines[r.Intn(len(syntaxLines))]
		case 2: // small numeric vocabulary: many lines unique on one side only
			ls[i] = strconv.Itoa(r.Intn(n/2 + 2))
		default: // runs of identical lines with unique separators
			if r.Intn(5) == 0 {
				ls[i] = "u" + strconv.Itoa(i)
			} else {
				ls[i] = []string{"", "}", "x"}[r.Intn(3)]
			}
		}
	}
	return ls
}

func editLines(r *rand.Rand, ls []string, mode int) []string {
	out := append([]string{}, ls...)
	k := 1 + r.Intn(6)
	for e := 0; e < k; e++ {
		n := len(out)
		pos := 0
		if n > 0 {
			pos = r.Intn(n + 1)
		}
		ln := 1 + r.Intn(4)
		if r.Intn(8) == 0 {
			ln = 1 + r.Intn(40)
		}
		switch r.Intn(6) {
		case 0: // insert
			ins := randLines(r, ln, mode)
			out = append(out[:pos:pos], append(ins, out[pos:]...)...)
		case 1: // delete
			end := min(n, pos+ln)
			out = append(out[:pos:pos], out[end:]...)
		case 2: // duplicate a block
			end := min(n, pos+ln)
			blk := append([]string{}, out[pos:end]...)
			at := 0
			if n > 0 {
				at = r.Intn(n + 1)
			}
			out = append(out[:at:at], append(blk, out[at:]...)...)
		case 3: // swap two adjacent blocks
			mid := min(n, pos+ln)
			end := min(n, mid+1+r.Intn(4))
			sw := append(append([]string{}, out[mid:end]...), out[pos:mid]...)
			copy(out[pos:end], sw)
		case 4: // replace lines
			end := min(n, pos+ln)
			for i := pos; i < end; i++ {
				out[i] = randLines(r, 1, mode)[0]
			}
		case 5: // move a block far away
			end := min(n, pos+ln)
			blk := append([]string{}, out[pos:end]...)
			rest := append(out[:pos:pos], out[end:]...)
			at := 0
			if len(rest) > 0 {
				at = r.Intn(len(rest) + 1)
			}
			out = append(rest[:at:at], append(blk, rest[at:]...)...)
		}
	}
	return out
}

func joinText(r *rand.Rand, ls []string) []byte {
	t := strings.Join(ls, "\n")
	if len(ls) > 0 && r.Intn(4) != 0 {
		t += "\n"
	}
	return []byte(t)
}

func randCase(r *rand.Rand, maxLines int) *diffCase {
	mode := r.Intn(4)
	n := r.Intn(maxLines + 1)
	switch r.Intn(4) { // skew towards short texts, keep some long ones
	case 0:
		n = r.Intn(12)
	case 1:
		n = r.Intn(60)
	}
	base := randLines(r, n, mode)
	var other []string
	if r.Intn(12) == 0 {
		other = randLines(r, r.Intn(n+3), mode) // unrelated text
	} else {
		other = editLines(r, base, mode)
	}
	c := &diffCase{caseNames[r.Intn(len(caseNames))], caseNames[r.Intn(len(caseNames))], joinText(r, base), joinText(r, other), fmt.Sprintf("random-mode%d", mode)}
	if r.Intn(2) == 0 {
		c.old, c.new = c.new, c.old
	}
	return c
}

// ---------------------------------------------------------------- independent oracle

// splitKeep cuts a text into lines, each keeping its "\n" (the last one may lack it).
func splitKeep(b []byte) [][]byte {
	var out [][]byte
	for len(b) > 0 {
		i := bytes.IndexByte(b, '\n')
		if i < 0 {
			out = append(out, b)
			break
		}
		out = append(out, b[:i+1])
		b = b[i+1:]
	}
	return out
}

type oLine struct {
	tag  byte
	text []byte // content, with "\n" unless the no-newline marker followed
}

type oHunk struct {
	a, b, c, d int
	body       []oLine
}

var hunkRe = regexp.MustCompile(`^@@ -(0|[1-9][0-9]*),(0|[1-9][0-9]*) \+(0|[1-9][0-9]*),(0|[1-9][0-9]*) @@\n$`)

const noNL = "\\ No newline at end of file\n"

// parseUnified reads the hunks of a unified diff (after its header), driven by the counts.
func parseUnified(rest []byte) ([]oHunk, string, string) {
	ls := splitKeep(rest)
	var hs []oHunk
	i := 0
	for i < len(ls) {
		m := hunkRe.FindSubmatch(ls[i])
		if m == nil {
			return nil, "hunk-header-syntax", fmt.Sprintf("line %d is not a hunk header: %q", i, ls[i])
		}
		var h oHunk
		h.a, _ = strconv.Atoi(string(m[1]))
		h.b, _ = strconv.Atoi(string(m[2]))
		h.c, _ = strconv.Atoi(string(m[3]))
		h.d, _ = strconv.Atoi(string(m[4]))
		i++
		ro, rn := h.b, h.d
		for ro > 0 || rn > 0 {
			if i >= len(ls) {
				return nil, "count-mismatch", "hunk body shorter than its counts"
			}
			l := ls[i]
			if len(l) == 0 || l[len(l)-1] != '\n' {
				return nil, "body-line", "body line without newline"
			}
			switch l[0] {
			case ' ':
				if ro == 0 || rn == 0 {
					return nil, "count-mismatch", "context line beyond a count"
				}
				ro--
				rn--
			case '-':
				if ro == 0 {
					return nil, "count-mismatch", "'-' line beyond the old count"
				}
				ro--
			case '+':
				if rn == 0 {
					return nil, "count-mismatch", "'+' line beyond the new count"
				}
				rn--
			default:
				return nil, "body-tag", fmt.Sprintf("unexpected body line %q", l)
			}
			ol := oLine{l[0], l[1:]}
			i++
			if i < len(ls) && string(ls[i]) == noNL {
				ol.text = ol.text[:len(ol.text)-1]
				i++
			}
			h.body = append(h.body, ol)
		}
		hs = append(hs, h)
	}
	return hs, "", ""
}

// applyHunks applies (rev=false) or reverse-applies (rev=true) the hunks to src.
func applyHunks(src []byte, hs []oHunk, rev bool) ([]byte, string, string) {
	ls := splitKeep(src)
	var out []byte
	cur := 0
	for hi, h := range hs {
		start, cnt := h.a, h.b
		del, ins := byte('-'), byte('+')
		if rev {
			start, cnt = h.c, h.d
			del, ins = '+', '-'
		}
		pos := start
		if cnt > 0 {
			if start < 1 {
				return nil, "start-line-convention", fmt.Sprintf("hunk %d: start line %d with count %d", hi, start, cnt)
			}
			pos = start - 1
		}
		if pos < cur {
			return nil, "order-overlap", fmt.Sprintf("hunk %d starts at line index %d before the end %d of the previous one", hi, pos, cur)
		}
		if pos+cnt > len(ls) {
			return nil, "out-of-range", fmt.Sprintf("hunk %d extends beyond the text", hi)
		}
		for ; cur < pos; cur++ {
			out = append(out, ls[cur]...)
		}
		for _, l := range h.body {
			switch l.tag {
			case ' ', del:
				if cur >= len(ls) || !bytes.Equal(ls[cur], l.text) {
					return nil, "apply-mismatch", fmt.Sprintf("hunk %d: line %q not found at index %d", hi, l.text, cur)
				}
				if l.tag == ' ' {
					out = append(out, l.text...)
				}
				cur++
			case ins:
				out = append(out, l.text...)
			}
		}
		if cur != pos+cnt {
			return nil, "count-mismatch", fmt.Sprintf("hunk %d consumed %d lines, header says %d", hi, cur-pos, cnt)
		}
	}
	for ; cur < len(ls); cur++ {
		out = append(out, ls[cur]...)
	}
	return out, "", ""
}

// oracle checks C08 on the implementation's output for one case; returns the number of hunks (-1 if unknown).
func oracle(res *corr.Result, c *diffCase, out []byte, panicked bool) int {
	in := c.enc()
	res.OracleChecked["C08"]++
	if panicked {
		res.Violate("C08", in, "diff.Diff panics", "panic")
		return -1
	}
	if bytes.Equal(c.old, c.new) {
		if len(out) != 0 {
			res.Violate("C08", in, "non-empty output for byte-identical texts", "equal-nonempty")
		}
		return 0
	}
	if len(out) == 0 {
		res.Violate("C08", in, "empty output for different texts", "different-empty")
		return -1
	}
	hdr := "diff " + c.oldName + " " + c.newName + "\n--- " + c.oldName + "\n+++ " + c.newName + "\n"
	if !bytes.HasPrefix(out, []byte(hdr)) {
		res.Violate("C08", in, "the three header lines are missing or wrong", "header")
		return -1
	}
	hs, class, what := parseUnified(out[len(hdr):])
	if class != "" {
		res.Violate("C08", in, what, class)
		return -1
	}
	if len(hs) == 0 {
		res.Violate("C08", in, "different texts but no hunk", "no-hunk")
		return 0
	}
	for i, h := range hs {
		changed := false
		for _, l := range h.body {
			if l.tag != ' ' {
				changed = true
			}
		}
		if !changed {
			res.Distribution[fmt.Sprintf("note:context-only-hunk(#%d)", min(i, 1))]++ // not part of the property; recorded only
		}
	}
	got, class, what := applyHunks(c.old, hs, false)
	if class != "" {
		res.Violate("C08", in, "apply: "+what, class)
	} else if !bytes.Equal(got, c.new) {
		res.Violate("C08", in, "applying the hunks to old does not give new", "apply-result")
	}
	back, class, what := applyHunks(c.new, hs, true)
	if class != "" {
		res.Violate("C08", in, "reverse apply: "+what, "reverse-"+class)
	} else if !bytes.Equal(back, c.old) {
		res.Violate("C08", in, "reverse-applying the hunks to new does not give old", "unapply-result")
	}
	return len(hs)
}

// ---------------------------------------------------------------- history oracle (result must not alias later calls)

// kept is the result of one Diff call: the very slice that was returned, and a private copy.
type kept struct {
	c    *diffCase
	out  []byte
	copy []byte
}

var perturbInputs = [][4]string{
	{"hist-old", "p\nq\nr\n", "hist-new", "p\nr\ns\n"},
	{"h1", "", "h2", "only\n"},
	{"a-rather-long-name-for-the-old-side", strings.Repeat("same\n", 40) + "x\n" + strings.Repeat("same\n", 40), "n", strings.Repeat("same\n", 40) + "y\n" + strings.Repeat("same\n", 40) + "tail"},
}

// perturb makes further Diff calls on fixed inputs: from this goroutine and from two concurrent ones.
func perturb() {
	var wg sync.WaitGroup
	for g := 0; g < 2; g++ {
		wg.Add(1)
		go func(g int) {
			defer wg.Done()
			for k := range perturbInputs {
				p := perturbInputs[(k+g)%len(perturbInputs)]
				safeDiff(&diffCase{oldName: p[0], newName: p[2], old: []byte(p[1]), new: []byte(p[3])})
			}
		}(g)
	}
	for _, p := range perturbInputs {
		safeDiff(&diffCase{oldName: p[0], newName: p[2], old: []byte(p[1]), new: []byte(p[3])})
	}
	wg.Wait()
}

// checkKept verifies that a result kept across later Diff calls is still what was returned.
func checkKept(res *corr.Result, k kept) {
	res.OracleChecked["C08"]++
	res.Distribution["history-checked"]++
	if bytes.Equal(k.out, k.copy) {
		return
	}
	what := "the slice returned by Diff changed after later Diff calls (result aliases storage reused by other calls)"
	sub := corr.NewResult("diff", "", 0)
	if oracle(sub, k.c, k.out, false); len(sub.Violations) > 0 {
		what += "; it now fails: " + sub.Violations[0].What
	}
	res.Violate("C08", k.c.enc(), what, "result-aliased")
}

// ---------------------------------------------------------------- end to end: the diff that cmp / cmpenv log

var (
	errSkipT = errors.New("recT: skip")
	errFailT = errors.New("recT: fail")
)

// recT is a recording testscript.T.
type recT struct {
	mu      sync.Mutex
	log     strings.Builder
	verdict string
}

func (t *recT) Skip(a ...any)  { t.Log(a...); panic(errSkipT) }
func (t *recT) Fatal(a ...any) { t.Log(a...); t.FailNow() }
func (t *recT) Parallel()      {}
func (t *recT) Log(a ...any) {
	t.mu.Lock()
	defer t.mu.Unlock()
	t.log.WriteString(fmt.Sprint(a...))
	t.log.WriteString("\n")
}
func (t *recT) FailNow()      { panic(errFailT) }
func (t *recT) Verbose() bool { return false }
func (t *recT) Run(name string, f func(testscript.T)) {
	defer func() {
		switch r := recover(); r {
		case nil:
			t.verdict = "pass"
		case errSkipT:
			t.verdict = "skip"
		case errFailT:
			t.verdict = "fail"
		default:
			t.verdict = "crash: " + fmt.Sprint(r)
		}
	}()
	f(t)
}

// scriptCase is one generated script with a failing cmp / cmpenv of the files "actual" and "want".
type scriptCase struct {
	script []byte // the txtar script file
	text1  []byte // content of "actual"
	want2  []byte // the text "want" is compared as: env-expanded for cmpenv, raw for cmp
}

func (c *scriptCase) enc() string {
	return "script " + corr.Hx(c.script) + " " + corr.Hx(c.text1) + " " + corr.Hx(c.want2)
}

var scriptPlain = []string{"alpha", "beta", "", "-", "+x", "@@ -1 +1 @@", "\\ No newline at end of file", "}", "--- old", "+++ new", "common", "common", "tail"}

// genScript builds a script whose "want" file refers to variables; "actual" equals the expanded
// "want" up to a few edits (so the correct diff is small) and also holds a literal $AAA line.
func genScript(r *rand.Rand, env bool) *scriptCase {
	vars := [][2]string{{"AAA", []string{"one", "x-y", "v1"}[r.Intn(3)]}, {"BBB", []string{"two", "", "zz"}[r.Intn(3)]}}
	n := 3 + r.Intn(14)
	var raw, expanded []string
	for i := 0; i < n; i++ {
		switch r.Intn(4) {
		case 0:
			v := vars[r.Intn(2)]
			if r.Intn(2) == 0 {
				raw = append(raw, "ref $"+v[0]+" end")
				expanded = append(expanded, "ref "+v[1]+" end")
			} else {
				raw = append(raw, "pre${"+v[0]+"}post "+strconv.Itoa(i))
				expanded = append(expanded, "pre"+v[1]+"post "+strconv.Itoa(i))
			}
		case 1:
			l := "line " + strconv.Itoa(i)
			raw, expanded = append(raw, l), append(expanded, l)
		default:
			l := scriptPlain[r.Intn(len(scriptPlain))]
			raw, expanded = append(raw, l), append(expanded, l)
		}
	}
	// always at least one reference
	raw = append(raw, "last $AAA.")
	expanded = append(expanded, "last "+vars[0][1]+".")
	want := expanded
	if !env {
		want = raw
	}
	actual := editLines(r, want, 1)
	actual = append(actual, "literal $AAA and ${BBB} stay") // never expanded: it is in the first file
	for i, l := range actual {
		if strings.HasPrefix(l, "-- ") && strings.HasSuffix(l, " --") { // would be a txtar marker
			actual[i] = "x" + l
		}
	}
	join := func(ls []string) string { return strings.Join(ls, "\n") + "\n" }
	cmd := "cmp"
	if env {
		cmd = "cmpenv"
	}
	var sb strings.Builder
	for _, v := range vars {
		sb.WriteString("env " + v[0] + "=" + v[1] + "\n")
	}
	sb.WriteString(cmd + " actual want\n-- actual --\n" + join(actual) + "-- want --\n" + join(raw))
	return &scriptCase{[]byte(sb.String()), []byte(join(actual)), []byte(join(want))}
}

// runScript runs the script through the real testscript.RunT and returns verdict and log.
func runScript(root string, n int, script []byte) (string, string, error) {
	dir := filepath.Join(root, fmt.Sprintf("s%05d", n))
	if err := os.MkdirAll(filepath.Join(dir, "work"), 0o777); err != nil {
		return "", "", err
	}
	file := filepath.Join(dir, "s.txt")
	if err := os.WriteFile(file, script, 0o666); err != nil {
		return "", "", err
	}
	t := &recT{}
	func() {
		defer func() {
			if e := recover(); e != nil {
				t.verdict = "crash outside T.Run: " + fmt.Sprint(e)
			}
		}()
		testscript.RunT(t, testscript.Params{Files: []string{file}, WorkdirRoot: filepath.Join(dir, "work")})
	}()
	os.RemoveAll(dir)
	return t.verdict, t.log.String(), nil
}

// scriptOracle: the diff logged by a failing cmp / cmpenv must be a diff between the two texts
// that were compared: "actual" and ("want" after expansion, for cmpenv).
func scriptOracle(res *corr.Result, root string, n int, c *scriptCase) {
	verdict, log, err := runScript(root, n, c.script)
	if err != nil {
		res.Observations = append(res.Observations, "script case not run (I/O): "+err.Error())
		return
	}
	res.OracleChecked["C08"]++
	res.Distribution["cmp-log-checked"]++
	in := c.enc()
	bad := func(what string) { res.Violate("C08", in, what, "cmp-log-diff-wrong") }
	if verdict != "fail" {
		bad("a cmp of different texts did not fail the script: verdict " + verdict)
		return
	}
	hdr := "diff actual want\n--- actual\n+++ want\n"
	i := strings.Index(log, hdr)
	if i < 0 {
		bad("no unified diff header for actual/want in the log of the failing cmp")
		return
	}
	j := strings.Index(log[i:], "\nFAIL: ")
	if j < 0 {
		bad("no FAIL line after the logged diff")
		return
	}
	body := []byte(log[i+len(hdr) : i+j])
	hs, class, what := parseUnified(body)
	if class != "" {
		bad("the logged diff does not parse (" + class + "): " + what)
		return
	}
	got, class, what := applyHunks(c.text1, hs, false)
	if class != "" {
		bad("the logged diff does not apply to the first text (" + class + "): " + what)
	} else if !bytes.Equal(got, c.want2) {
		bad("the logged diff, applied to the first text, does not give the text it was compared with")
	}
	back, class, what := applyHunks(c.want2, hs, true)
	if class != "" {
		bad("the logged diff does not reverse-apply to the compared second text (" + class + "): " + what)
	} else if !bytes.Equal(back, c.text1) {
		bad("the logged diff, reverse-applied to the compared second text, does not give the first text")
	}
}

func decScript(s string) (*scriptCase, error) {
	f := strings.Fields(s)
	if len(f) != 4 || f[0] != "script" {
		return nil, fmt.Errorf("bad script case %q", s)
	}
	return &scriptCase{corr.Unhx(f[1]), corr.Unhx(f[2]), corr.Unhx(f[3])}, nil
}

// ---------------------------------------------------------------- run

const batchSize = 60000

func runDiff(tier string, seed int64, model string, replay string) *corr.Result {
	res := corr.NewResult("diff", tier, seed)
	r := rand.New(rand.NewSource(seed))
	var cases []*diffCase
	seen := map[[32]byte]bool{}
	nontrivial, total, evals := 0, 0, 0
	var firstCase, lastCase map[string]string
	driverFailed := false

	// flush runs one batch through implementation, model and oracle.
	flush := func() {
		if len(cases) == 0 || driverFailed {
			cases = cases[:0]
			return
		}
		req := make([]string, 0, len(cases)*2)
		for _, c := range cases {
			req = append(req, c.enc())
		}
		// the model's own (verified) applier on the model's hunks: all non-exhaustive cases, a sample of the others
		var chk []int
		for i, c := range cases {
			if c.origin != "exhaustive" || (total+i)%17 == 0 {
				chk = append(chk, i)
				req = append(req, "chk "+corr.Hx(c.old)+" "+corr.Hx(c.new))
			}
		}
		modelOut, err := mdl.Run(model, nil, req, 0)
		if err != nil {
			res.Observations = append(res.Observations, "model driver error: "+err.Error())
			res.Disagree("<driver>", "", err.Error())
			driverFailed = true
			cases = cases[:0]
			return
		}
		nh := make([]int, len(cases))
		var pending []kept // results kept across the following Diff calls
		for i, c := range cases {
			out, panicked := safeDiff(c)
			impl := corr.Hx(out)
			if panicked {
				impl = "panic"
			}
			if impl != modelOut[i] {
				res.Disagree(req[i], impl, modelOut[i])
			}
			nh[i] = oracle(res, c, out, panicked)
			if !bytes.Equal(c.old, c.new) {
				nontrivial++
			}
			res.Distribution["origin:"+c.origin]++
			res.Distribution[fmt.Sprintf("hunks=%d", min(nh[i], 5))]++
			nl := bytes.Count(c.old, []byte("\n")) + bytes.Count(c.new, []byte("\n"))
			switch {
			case nl <= 12:
				res.Distribution["lines<=12"]++
			case nl <= 100:
				res.Distribution["lines<=100"]++
			default:
				res.Distribution["lines>100"]++
			}
			if (len(c.old) > 0 && c.old[len(c.old)-1] != '\n') || (len(c.new) > 0 && c.new[len(c.new)-1] != '\n') {
				res.Distribution["missing-final-newline"]++
			}
			// history oracle: keep this result (the very slice) across the following Diff calls
			if !panicked && len(out) > 0 && (c.origin != "exhaustive" || (total+i)%11 == 0) {
				pending = append(pending, kept{c, out, append([]byte{}, out...)})
			}
			if len(pending) > 0 && (len(pending) >= 3 || i == len(cases)-1) {
				// each kept result has by now seen 0-2 further cases; add calls on fixed inputs, also concurrent ones
				perturb()
				for _, k := range pending {
					checkKept(res, k)
				}
				pending = pending[:0]
			}
		}
		for j, i := range chk {
			line := modelOut[len(cases)+j]
			if nh[i] < 0 {
				continue
			}
			if want := fmt.Sprintf("A=1 U=1 H=%d", nh[i]); line != want {
				res.Disagree(req[len(cases)+j], want, line)
			}
			res.Distribution["model-applier-checked"]++
		}
		if firstCase == nil {
			firstCase = map[string]string{"case": req[0], "model": modelOut[0]}
			if len(cases) > 1 {
				res.Samples = append(res.Samples, map[string]string{"case": req[len(cases)/2], "model": modelOut[len(cases)/2]})
			}
		}
		lastCase = map[string]string{"case": req[len(cases)-1], "model": modelOut[len(cases)-1]}
		total += len(cases)
		evals += len(req)
		cases = cases[:0]
	}
	add := func(c *diffCase) {
		k := sha256.Sum256([]byte(c.oldName + "\x00" + c.newName + "\x00" + string(c.old) + "\x00" + string(c.new)))
		if !seen[k] {
			seen[k] = true
			cases = append(cases, c)
			if len(cases) >= batchSize {
				flush()
			}
		}
	}

	scriptRoot, rootErr := os.MkdirTemp("", "giv-diff-scripts-")
	if rootErr != nil {
		res.Observations = append(res.Observations, "no temp dir for script cases: "+rootErr.Error())
	} else {
		defer os.RemoveAll(scriptRoot)
	}
	if strings.HasPrefix(replay, "script ") {
		c, err := decScript(replay)
		if err != nil || rootErr != nil {
			res.Disagree(replay, "", fmt.Sprint(err, rootErr))
			return res
		}
		scriptOracle(res, scriptRoot, 0, c)
		res.Evaluations = 1
		res.Rule = "replay of one cmp/cmpenv script case"
		return res
	}
	if replay != "" {
		c, err := decCase(replay)
		if err != nil {
			res.Observations = append(res.Observations, err.Error())
			res.Disagree(replay, "", err.Error())
			return res
		}
		add(c)
	} else {
		l3, l2, nrand, maxLines := 4, 6, 15000, 400
		if tier == "thorough" {
			l3, l2, nrand = 5, 7, 400000
		}
		if os.Getenv("VERIF_SEARCH") != "" {
			nrand = nrand * 3 / 2
		}
		var spaces []string
		for _, sp := range []struct {
			alpha []string
			n     int
		}{{[]string{"a", "b", "c"}, l3}, {[]string{"a", "b"}, l2}, {[]string{"", "-", "\\ No newline at end of file"}, 3}} {
			ts := textsOver(sp.alpha, sp.n)
			for _, a := range ts {
				for _, b := range ts {
					add(&diffCase{"old", "new", a, b, "exhaustive"})
				}
			}
			spaces = append(spaces, fmt.Sprintf("all pairs of the %d texts of at most %d lines over %q, with and without final newline", len(ts), sp.n, sp.alpha))
		}
		res.Exhaustive = true
		res.Extra["exhaustive_spaces"] = spaces
		// golden-test style corner cases
		for _, p := range [][2]string{{"", "a"}, {"a", ""}, {"a", "a\n"}, {"a\n", "a"}, {"\n", ""}, {"", "\n"}, {"a\n\\ No newline at end of file\n", "a"},
			{"a\nb\nc\nd\ne\nf\ng\nh\ni\nj\nk\nl\n", "a\nb\nc\nd\ne\nf\ng\nh\ni\nj\nk\nl"}, {"x\ny\nz\na\nb\nc\nd\ne\nf\ng\n", "a\nb\nc\nd\ne\nf\ng\nx\ny\nz\n"}} {
			add(&diffCase{"old", "new", []byte(p[0]), []byte(p[1]), "corner"})
		}
		for i := 0; i < nrand; i++ {
			add(randCase(r, maxLines))
		}
	}
	flush()

	// end to end: the diff logged by a failing cmp / cmpenv (testscript/cmd.go doCmdCmp)
	nscripts := 0
	if replay == "" && rootErr == nil {
		nscripts = 80
		if tier == "thorough" {
			nscripts = 1500
		}
		for i := 0; i < nscripts; i++ {
			c := genScript(r, i%4 != 3) // three cmpenv for one cmp
			scriptOracle(res, scriptRoot, i, c)
			if i == 0 {
				res.Samples = append(res.Samples, map[string]string{"case": c.enc()})
			}
		}
		evals += nscripts
		nontrivial += nscripts
	}

	res.Evaluations = evals
	res.DistinctNontrivial = nontrivial
	res.Distribution["cases"] = total
	res.Rule = "distinct (oldName, old, newName, new) cases with old ≠ new (so that a diff with at least one hunk must be produced); each is run through diff.Diff and the Lean model and the exact output bytes compared; the implementation's output is parsed and applied / reverse-applied by an independent Go patch applier; for the random cases (and a sample of the exhaustive ones) the model's verified applier is also run on the model's hunks and the hunk count compared with the parsed one (these runs are counted in evaluations, not in distinct_nontrivial); results of the random cases (and a sample of the exhaustive ones) are kept across further Diff calls, also concurrent ones, and must stay unchanged (class result-aliased); generated scripts with a failing cmp / cmpenv whose second file refers to $VAR / ${VAR} are run through the real testscript.RunT and the diff found in the log must patch the first file into the (expanded) second one and back (class cmp-log-diff-wrong; each script counts as one non-trivial case)"
	if firstCase != nil {
		res.Samples = append([]any{firstCase}, res.Samples...)
		res.Samples = append(res.Samples, lastCase)
	}
	return res
}
