package main

import (
	"fmt"
	"go/ast"
	"os"
	"os/exec"
	"path/filepath"
	"regexp"
	"regexp/syntax"
	"strconv"
	"strings"

	"verif/harness/internal/fact"
)

// All extraction works on g.Src(body): the printed source of a function body with every
// white-space character removed (comments are not printed), matched by shape.

func unq(s string) (string, bool) {
	v, err := strconv.Unquote(`"` + s + `"`)
	return v, err == nil
}

// emitLit emits `def lean : Bytes := <literal>` where the literal is capture group `grp` of `re` in src.
func emitLit(g *fact.Gen, lean, doc, src string, re string, grp int, pinned string) string {
	m := regexp.MustCompile(re).FindStringSubmatch(src)
	val, ok := "", false
	if m != nil {
		val, ok = unq(m[grp])
	}
	if !ok {
		val = pinned
		g.Lost(lean, "shape not found: "+re)
	} else {
		g.Found(lean, strconv.Quote(val))
	}
	g.Emit("/-- %s -/\ndef %s : GIV.Bytes := %s\n", doc, lean, fact.LeanBytes(val))
	return val
}

func emitBoolShape(g *fact.Gen, lean, doc string, pinned bool, f func() (bool, bool, string)) {
	g.EmitBool(lean, doc, pinned, f)
}

func leanBytesList(ss []string) string {
	parts := make([]string, len(ss))
	for i, s := range ss {
		parts[i] = fact.LeanBytes(s)
	}
	return "[" + strings.Join(parts, ", ") + "]"
}

// ---- regexp -> Lean `Re`

func clip(r rune) int {
	if r > 255 {
		return 255
	}
	return int(r)
}

func reToLean(re *syntax.Regexp, top bool) (string, error) {
	bin := func(op string, subs []*syntax.Regexp, unit string) (string, error) {
		if len(subs) == 0 {
			return unit, nil
		}
		out := ""
		for i := len(subs) - 1; i >= 0; i-- {
			s, err := reToLean(subs[i], false)
			if err != nil {
				return "", err
			}
			if out == "" {
				out = s
			} else {
				out = "(." + op + " " + s + " " + out + ")"
			}
		}
		return out, nil
	}
	switch re.Op {
	case syntax.OpEmptyMatch:
		return ".eps", nil
	case syntax.OpNoMatch:
		return ".empty", nil
	case syntax.OpLiteral:
		if re.Flags&syntax.FoldCase != 0 {
			return "", fmt.Errorf("case-folded literal")
		}
		var subs []string
		for _, r := range re.Rune {
			if r > 127 {
				return "", fmt.Errorf("non-ASCII literal")
			}
			subs = append(subs, fmt.Sprintf("(.cls [(%d, %d)])", r, r))
		}
		out := ""
		for i := len(subs) - 1; i >= 0; i-- {
			if out == "" {
				out = subs[i]
			} else {
				out = "(.cat " + subs[i] + " " + out + ")"
			}
		}
		if out == "" {
			out = ".eps"
		}
		return out, nil
	case syntax.OpCharClass:
		var rs []string
		for i := 0; i+1 < len(re.Rune); i += 2 {
			lo, hi := re.Rune[i], re.Rune[i+1]
			if lo > 255 {
				continue
			}
			rs = append(rs, fmt.Sprintf("(%d, %d)", clip(lo), clip(hi)))
		}
		return "(.cls [" + strings.Join(rs, ", ") + "])", nil
	case syntax.OpAnyChar:
		return "(.cls [(0, 255)])", nil
	case syntax.OpAnyCharNotNL:
		return "(.cls [(0, 9), (11, 255)])", nil
	case syntax.OpCapture:
		return reToLean(re.Sub[0], false)
	case syntax.OpStar:
		s, err := reToLean(re.Sub[0], false)
		return "(.star " + s + ")", err
	case syntax.OpPlus:
		s, err := reToLean(re.Sub[0], false)
		return "(.cat " + s + " (.star " + s + "))", err
	case syntax.OpQuest:
		s, err := reToLean(re.Sub[0], false)
		return "(.alt " + s + " .eps)", err
	case syntax.OpConcat:
		subs := re.Sub
		if top {
			// the pattern must be anchored at both ends: the model uses whole-string matching
			if len(subs) < 2 || subs[0].Op != syntax.OpBeginText || subs[len(subs)-1].Op != syntax.OpEndText {
				return "", fmt.Errorf("pattern is not anchored with ^...$")
			}
			subs = subs[1 : len(subs)-1]
		}
		return bin("cat", subs, ".eps")
	case syntax.OpAlternate:
		return bin("alt", re.Sub, ".empty")
	}
	return "", fmt.Errorf("unsupported regexp operator %v", re.Op)
}

const pinnedPseudoRE = `^v[0-9]+\.(0\.0-|\d+\.\d+-([^+]*\.)?0\.)\d{14}-[A-Za-z0-9]+(\+incompatible)?$`

func pinnedDir() string {
	root := os.Getenv("VERIF_ROOT")
	if root == "" {
		root = "/verif"
	}
	return filepath.Join(root, "harness", "pinned")
}

// xmodFile locates a source file of golang.org/x/mod in the version /repo's go.mod requires (the library
// the proxy — and this harness, through its `replace … => /repo` — is built against): `go list -m` run in
// /repo, else GOMODCACHE + the version read from /repo/go.mod.  When neither works the (non-existent) path
// returned makes TranslateModule write the pinned copy and report the anchor lost.
func xmodFile(repo string, rel ...string) string {
	env := append(os.Environ(), "GOFLAGS=-mod=mod", "GOPROXY=off", "GOSUMDB=off", "GOTOOLCHAIN=local")
	cmd := exec.Command("go", "list", "-m", "-f", "{{.Dir}}", "golang.org/x/mod")
	cmd.Dir, cmd.Env = repo, env
	if out, err := cmd.Output(); err == nil {
		if dir := strings.TrimSpace(string(out)); dir != "" {
			if _, err := os.Stat(dir); err == nil {
				return filepath.Join(append([]string{dir}, rel...)...)
			}
		}
	}
	ver := ""
	if data, err := os.ReadFile(filepath.Join(repo, "go.mod")); err == nil {
		if m := regexp.MustCompile(`(?m)^\s*(?:require\s+)?golang\.org/x/mod\s+(v\S+)`).FindSubmatch(data); m != nil {
			ver = string(m[1])
		}
	}
	cache := ""
	if out, err := exec.Command("go", "env", "GOMODCACHE").Output(); err == nil {
		cache = strings.TrimSpace(string(out))
	}
	if ver == "" || cache == "" {
		return filepath.Join(append([]string{string(filepath.Separator) + "golang.org-x-mod-not-found"}, rel...)...)
	}
	return filepath.Join(append([]string{cache, "golang.org", "x", "mod@" + ver}, rel...)...)
}

func genProxy(g *fact.Gen) {
	// allHex itself, translated statement by statement (harness/internal/go2lean)
	g.TranslateModule("ProxyGo", "goproxytest/allhex.go", []string{"allHex"}, "proxy",
		[]string{"GIV.GoLib"}, "GIV.Go.Proxy", filepath.Join(pinnedDir(), "ProxyGo.lean"))
	// golang.org/x/mod/semver (IsValid, Major, Build, Compare, Canonical and everything below them), translated
	// from the LIBRARY SOURCE in the module cache, in the version /repo's go.mod requires; GIV.Lemmas.SemverGo
	// proves the translation equal to the model's semverParse / semverIsValid / semverMajor / semverBuild /
	// semverCompare for every string
	g.TranslateModule("SemverGo", xmodFile(g.Repo, "semver", "semver.go"),
		[]string{"isIdentChar", "isBadNum", "isNum", "parseInt", "parsePrerelease", "parseBuild", "parse", "IsValid",
			"Canonical", "Major", "Build", "compareInt", "nextIdent", "comparePrerelease", "Compare"}, "semver",
		[]string{"GIV.GoLib"}, "GIV.Go.Semver", filepath.Join(pinnedDir(), "SemverGo.lean"))
	// golang.org/x/mod/module (the escape codecs, CheckPath and everything it reaches, SplitPathVersion, CheckPathMajor,
	// Check), translated from the same module-cache copy; GIV.Lemmas.ModuleGo proves the translation equal to the
	// model's unescapeString / escapeString / checkElem / checkPath / splitPathVersion / checkPathMajor / check /
	// escapePath / escapeVersion / unescapePath / unescapeVersion (errors: nil or not nil); package semver is the
	// translation above
	g.TranslateModule("ModuleGo", xmodFile(g.Repo, "module", "module.go"),
		[]string{"modPathOK", "importPathOK", "fileNameOK", "firstPathOK", "checkElem", "checkPath", "splitGopkgIn", "SplitPathVersion",
			"CheckPath", "CheckPathMajor", "MatchPathMajor", "Check", "escapeString", "unescapeString", "EscapePath", "EscapeVersion",
			"UnescapePath", "UnescapeVersion"}, "module",
		[]string{"GIV.GoLib", "GIV.GoLibStr", "GIV.Gen.SemverGo"}, "GIV.Go.Module", filepath.Join(pinnedDir(), "ModuleGo.lean"))
	const rel = "goproxytest/proxy.go"
	g.Emit("/-- Regular expressions over bytes (whole-string matching); `cls` = union of inclusive byte ranges. -/\ninductive Re where\n  | empty | eps\n  | cls (ranges : List (UInt8 × UInt8))\n  | cat (a b : Re) | alt (a b : Re) | star (a : Re)\n\n")

	// ------------------------------------------------------------ readModList
	rml := g.Method(rel, "Server", "readModList")
	rmlSrc := ""
	if rml != nil {
		rmlSrc = g.Src(rml.Body)
	}
	// the switch on the entry name
	{
		var suffixes []string
		dirCase, defaultSkips, ok, why := false, false, false, "switch on entry name not found"
		if rml != nil {
			ast.Inspect(rml.Body, func(n ast.Node) bool {
				sw, isSw := n.(*ast.SwitchStmt)
				if !isSw || sw.Tag != nil || ok {
					return true
				}
				ok, why = true, ""
				for _, c := range sw.Body.List {
					cc := c.(*ast.CaseClause)
					switch {
					case cc.List == nil:
						defaultSkips = len(cc.Body) == 1 && g.Src(cc.Body[0]) == "continue"
						if !defaultSkips {
							ok, why = false, "default case is not `continue`"
						}
					case len(cc.List) == 1 && g.Src(cc.List[0]) == "entry.IsDir()":
						if len(cc.Body) != 0 || dirCase {
							ok, why = false, "IsDir case has an unexpected shape"
						}
						dirCase = true
					default:
						m := regexp.MustCompile(`^strings\.HasSuffix\(name,"([^"]*)"\)$`).FindStringSubmatch(g.Src(cc.List[0]))
						if len(cc.List) != 1 || m == nil || len(cc.Body) != 1 || g.Src(cc.Body[0]) != `name=strings.TrimSuffix(name,"`+m[1]+`")` || dirCase {
							ok, why = false, "suffix case has an unexpected shape"
							return false
						}
						s, _ := unq(m[1])
						suffixes = append(suffixes, s)
					}
				}
				return false
			})
		}
		if !ok || !dirCase || !defaultSkips {
			if ok {
				why = "no IsDir case / default case"
			}
			g.Lost("modListSuffixes", why)
			suffixes = []string{".txt", ".txtar"}
		} else {
			g.Found("modListSuffixes", fact.LeanStrList(suffixes)+", then entry.IsDir(), default: continue")
		}
		g.Emit("/-- readModList: the entry-name switch tests these suffixes in this order (trimming the one that matches), then `entry.IsDir()`; anything else is skipped. -/\ndef modListSuffixes : List GIV.Bytes := %s\n", leanBytesList(suffixes))
	}
	emitBoolShape(g, "splitUsesLastIndex", "readModList splits the base name at `strings.LastIndex(name, splitSep)` (true) or `strings.Index` (false); `i < 0` skips the entry.", true, func() (bool, bool, string) {
		m := regexp.MustCompile(`i:=strings\.(LastIndex|Index)\(name,"[^"]*"\)ifi<0\{continue\}`).FindStringSubmatch(rmlSrc)
		if m == nil {
			return false, false, "split statement not found"
		}
		return m[1] == "LastIndex", true, ""
	})
	emitLit(g, "splitSep", "separator searched for in the base name", rmlSrc, `i:=strings\.(?:LastIndex|Index)\(name,"([^"]*)"\)`, 1, "_v")
	{
		m := regexp.MustCompile(`encVers:=name\[i\+(\d+):\]`).FindStringSubmatch(rmlSrc)
		n := 1
		if m == nil || !strings.Contains(rmlSrc, "strings.ReplaceAll(name[:i],") || !strings.Contains(rmlSrc, "module.UnescapeVersion(encVers)") || !strings.Contains(rmlSrc, "module.UnescapePath(encPath)") {
			g.Lost("versOffset", "`encVers := name[i+K:]` / name[:i] / Unescape calls not found")
		} else {
			n, _ = strconv.Atoi(m[1])
			g.Found("versOffset", m[1])
		}
		g.Emit("/-- the escaped path is `name[:i]`, the escaped version `name[i+versOffset:]`. -/\ndef versOffset : Nat := %d\n", n)
	}
	emitLit(g, "modListReplFrom", "readModList: `encPath := strings.ReplaceAll(name[:i], modListReplFrom, modListReplTo)`", rmlSrc, `encPath:=strings\.ReplaceAll\(name\[:i\],"([^"]*)","([^"]*)"\)`, 1, "_")
	emitLit(g, "modListReplTo", "see modListReplFrom", rmlSrc, `encPath:=strings\.ReplaceAll\(name\[:i\],"([^"]*)","([^"]*)"\)`, 2, "/")

	// ------------------------------------------------------------ readArchive
	ra := g.Method(rel, "Server", "readArchive")
	raSrc := ""
	if ra != nil {
		raSrc = g.Src(ra.Body)
	}
	emitLit(g, "archReplFrom", "readArchive: `prefix := strings.ReplaceAll(enc, archReplFrom, archReplTo)`", raSrc, `prefix:=strings\.ReplaceAll\(enc,"([^"]*)","([^"]*)"\)`, 1, "/")
	emitLit(g, "archReplTo", "see archReplFrom", raSrc, `prefix:=strings\.ReplaceAll\(enc,"([^"]*)","([^"]*)"\)`, 2, "_")
	emitLit(g, "archJoin", "readArchive: `name := filepath.Join(srv.dir, prefix+archJoin+encVers)`", raSrc, `name:=filepath\.Join\(srv\.dir,prefix\+"([^"]*)"\+encVers\)`, 1, "_")
	{
		// lookup order inside the archiveCache closure
		pinned := []string{".txtar", ".txt", ""}
		order, why := []string(nil), ""
		sufOf := map[string]string{}
		for _, m := range regexp.MustCompile(`(\w+):=name\+"([^"]*)"`).FindAllStringSubmatch(raSrc, -1) {
			if s, ok := unq(m[2]); ok {
				sufOf[m[1]] = s
			}
		}
		m := regexp.MustCompile(`srv\.archiveCache\.Do\(name,func\(\)any\{a,err:=txtar\.ParseFile\((\w+)\)ifos\.IsNotExist\(err\)\{a,err=txtar\.ParseFile\((\w+)\)\}ifos\.IsNotExist\(err\)\{a=new\(txtar\.Archive\)err=filepath\.WalkDir\(name,`).FindStringSubmatch(raSrc)
		switch {
		case m == nil:
			why = "closure does not have the shape ParseFile(A); if IsNotExist {ParseFile(B)}; if IsNotExist {WalkDir(name)}"
		case sufOf[m[1]] == "" || sufOf[m[2]] == "":
			why = "file-name variables are not `name + \"<suffix>\"`"
		case !strings.Contains(raSrc, "iferr!=nil{if!os.IsNotExist(err){srv.logf(\"goproxy:%v\\n\",err)}a=nil}returna"):
			why = "final `if err != nil { a = nil }` not found"
		default:
			order = []string{sufOf[m[1]], sufOf[m[2]], ""}
		}
		if order == nil {
			g.Lost("lookupOrder", why)
			order = pinned
		} else {
			g.Found("lookupOrder", fmt.Sprintf("%q, then %q, then directory walk; fall through only on IsNotExist", order[0], order[1]))
		}
		var parts []string
		for _, s := range order {
			if s == "" {
				parts = append(parts, "none")
			} else {
				parts = append(parts, "some "+fact.LeanBytes(s))
			}
		}
		g.Emit("/-- readArchive tries, in this order: `some suf` = txtar.ParseFile(name+suf), `none` = filepath.WalkDir(name); the next one only when the previous reported IsNotExist; any other error gives nil. -/\ndef lookupOrder : List (Option GIV.Bytes) := [%s]\n", strings.Join(parts, ", "))
	}
	emitBoolShape(g, "walkTrimsRoot", "directory walk: archive names are `filepath.ToSlash(strings.TrimPrefix(path, name+separator))`, directories are skipped, files are appended in walk order.", true, func() (bool, bool, string) {
		ok := strings.Contains(raSrc, "ifentry.IsDir(){returnnil}arpath:=filepath.ToSlash(strings.TrimPrefix(path,name+string(os.PathSeparator)))data,err:=os.ReadFile(path)") &&
			strings.Contains(raSrc, "a.Files=append(a.Files,txtar.File{Name:arpath,Data:data,})")
		if !ok {
			return false, false, "walk callback has an unrecognised shape"
		}
		return true, true, ""
	})

	// ------------------------------------------------------------ handler
	h := g.Method(rel, "Server", "handler")
	hSrc := ""
	if h != nil {
		hSrc = g.Src(h.Body)
	}
	emitLit(g, "urlPrefix", "handler: URL paths without this prefix are 404; it is trimmed", hSrc, `if!strings\.HasPrefix\(r\.URL\.Path,"([^"]*)"\)\{http\.NotFound\(w,r\)return\}path:=strings\.TrimPrefix\(r\.URL\.Path,"([^"]*)"\)`, 1, "/mod/")
	emitLit(g, "vSep", "handler: `i := strings.Index(path, vSep)`; `i < 0` is 404; enc, file = path[:i], path[i+len(vSep):]", hSrc, `i:=strings\.Index\(path,"([^"]*)"\)ifi<0\{http\.NotFound\(w,r\)return\}enc,file:=path\[:i\],path\[i\+len\("([^"]*)"\):\]`, 1, "/@v/")
	emitLit(g, "listName", "handler: file name of the list endpoint", hSrc, `iffile=="([^"]*)"\{n:=0`, 1, "list")
	emitBoolShape(g, "extSplitLast", "handler: version/extension split at `strings.LastIndex(file, extSep)` (true) or Index (false); encVers, ext = file[:i], file[i+1:]", true, func() (bool, bool, string) {
		m := regexp.MustCompile(`i=strings\.(LastIndex|Index)\(file,"[^"]*"\)ifi<0\{http\.NotFound\(w,r\)return\}encVers,ext:=file\[:i\],file\[i\+1:\]`).FindStringSubmatch(hSrc)
		if m == nil {
			return false, false, "extension split not found"
		}
		return m[1] == "LastIndex", true, ""
	})
	emitLit(g, "extSep", "see extSplitLast", hSrc, `i=strings\.(?:LastIndex|Index)\(file,"([^"]*)"\)`, 1, ".")
	{
		m := regexp.MustCompile(`switchext\{case((?:"[^"]*",?)+):want:="([^"]*)"\+extfor_,f:=rangea\.Files\{iff\.Name==want\{w\.Write\(f\.Data\)return\}\}case"([^"]*)":`).FindStringSubmatch(hSrc)
		exts, want, zipExt := []string{"info", "mod"}, ".", "zip"
		if m == nil {
			g.Lost("fileExts", "switch ext {case ...: want := \".\"+ext ...; case \"zip\":} not found")
		} else {
			exts = nil
			for _, q := range regexp.MustCompile(`"([^"]*)"`).FindAllStringSubmatch(m[1], -1) {
				s, _ := unq(q[1])
				exts = append(exts, s)
			}
			want, _ = unq(m[2])
			zipExt, _ = unq(m[3])
			g.Found("fileExts", fmt.Sprintf("%q served from file %q+ext (first match); %q = zip", exts, want, zipExt))
		}
		g.Emit("/-- handler: extensions answered with the data of the first archive file named `wantPrefix ++ ext`. -/\ndef fileExts : List GIV.Bytes := %s\ndef wantPrefix : GIV.Bytes := %s\n/-- handler: extension answered with the zip. -/\ndef zipExt : GIV.Bytes := %s\n", leanBytesList(exts), fact.LeanBytes(want), fact.LeanBytes(zipExt))
	}
	// list filter: the loop is recognised up to the set of conjuncts of its condition and the presence of the Check guard
	{
		m := regexp.MustCompile(`iffile=="[^"]*"\{n:=0for_,m:=rangesrv\.modList\{if([^{}]*)\{(iferr:=module\.Check\(m\.Path,m\.Version\);err==nil\{)?fmt\.Fprintf\(w,"%s\\n",m\.Version\)n\+\+\}(\})?\}ifn==0\{http\.NotFound\(w,r\)\}return\}`).FindStringSubmatch(hSrc)
		path, pseudo, chk, why := true, true, true, ""
		if m == nil {
			why = "list loop has an unrecognised shape"
		} else if (m[2] == "") != (m[3] == "") {
			why = "list loop has an unrecognised shape (braces)"
		} else {
			path, pseudo, chk = false, false, m[2] != ""
			for _, c := range strings.Split(m[1], "&&") {
				switch c {
				case "m.Path==path":
					path = true
				case "!isPseudoVersion(m.Version)":
					pseudo = true
				default:
					why = "unrecognised conjunct in the list condition: " + c
				}
			}
		}
		emit := func(name, doc string, v bool) {
			emitBoolShape(g, name, doc, true, func() (bool, bool, string) { return v, why == "", why })
		}
		emit("listMatchesPath", "list endpoint: only entries with `m.Path == path`", path)
		emit("listExcludesPseudo", "list endpoint: only entries with `!isPseudoVersion(m.Version)`", pseudo)
		emit("listRequiresCheck", "list endpoint: only entries with `module.Check(m.Path, m.Version) == nil`; one line `version\\n` each, in modList order; no line at all = 404", chk)
	}
	// commit-hash loop
	emitBoolShape(g, "hashLoopShape", "handler: `if allHex(vers)`: best := \"\"; for m in modList with m.Path == path && semver.Compare(best, m.Version) < 0: hash := (pseudo ? text after the last '-' : findHash(m)); if HasPrefix(hash, vers) || HasPrefix(vers, hash) then best = m.Version; finally `if best != \"\" { vers = best }`.", true, func() (bool, bool, string) {
		ok := strings.Contains(hSrc, `ifallHex(vers){varbeststringfor_,m:=rangesrv.modList{ifm.Path==path&&semver.Compare(best,m.Version)<0{varhashstringifisPseudoVersion(m.Version){hash=m.Version[strings.LastIndex(m.Version,"-")+1:]}else{hash=srv.findHash(m)}ifstrings.HasPrefix(hash,vers)||strings.HasPrefix(vers,hash){best=m.Version}}}ifbest!=""{vers=best}}`)
		if !ok {
			return false, false, "commit-hash loop has an unrecognised shape"
		}
		return true, true, ""
	})
	// zip closure
	emitLit(g, "zipSkipPrefix", "zip: files with `strings.HasPrefix(f.Name, zipSkipPrefix)` are skipped (`continue`)", hSrc, `for_,f:=rangea\.Files\{ifstrings\.HasPrefix\(f\.Name,"([^"]*)"\)\{continue\}zf,err:=z\.Create\(`, 1, ".")
	emitLit(g, "zipSep1", "zip member name = path ++ zipSep1 ++ vers ++ zipSep2 ++ f.Name", hSrc, `z\.Create\(path\+"([^"]*)"\+vers\+"([^"]*)"\+f\.Name\)`, 1, "@")
	emitLit(g, "zipSep2", "see zipSep1", hSrc, `z\.Create\(path\+"([^"]*)"\+vers\+"([^"]*)"\+f\.Name\)`, 2, "/")
	emitBoolShape(g, "zipKeyIsArchive", "zipCache.Do is keyed by the archive pointer `a` alone (true) although the closure also captures path and vers; false = the key determines path and vers.", true, func() (bool, bool, string) {
		m := regexp.MustCompile(`srv\.zipCache\.Do\(([^,]+),func\(\)any\{`).FindStringSubmatch(hSrc)
		if m == nil {
			return false, false, "zipCache.Do call not found"
		}
		switch {
		case m[1] == "a":
			return true, true, ""
		case strings.Contains(m[1], "path") && strings.Contains(m[1], "vers"):
			return false, true, ""
		}
		return false, false, "unrecognised zipCache key " + m[1]
	})
	emitBoolShape(g, "handlerChecksModList", "handler refuses (404) a (path, vers) pair that is not an element of srv.modList before readArchive (false = any pair whose derived file name exists is served).", false, func() (bool, bool, string) {
		i := strings.Index(hSrc, "ifbest!=\"\"{vers=best}}")
		j := strings.Index(hSrc, "a:=srv.readArchive(path,vers)")
		if i < 0 || j < i {
			return false, false, "position between hash loop and readArchive not found"
		}
		mid := hSrc[i+len("ifbest!=\"\"{vers=best}}") : j]
		if mid == "" {
			return false, true, ""
		}
		if regexp.MustCompile(`^if!slices\.Contains\(srv\.modList,module\.Version\{Path:path,Version:vers\}\)\{(?:srv\.logf\([^{}]*\))?http\.NotFound\(w,r\)return\}$`).MatchString(mid) {
			return true, true, ""
		}
		return false, false, "unrecognised statements before readArchive: " + mid
	})
	// findHash
	emitBoolShape(g, "findHashShape", "findHash(m): readArchive(m.Path, m.Version); nil -> \"\"; data of the first file named \".info\"; json field Short.", true, func() (bool, bool, string) {
		fh := g.Method(rel, "Server", "findHash")
		if fh == nil {
			return false, false, "findHash not found"
		}
		s := g.Src(fh.Body)
		ok := strings.Contains(s, `a:=srv.readArchive(m.Path,m.Version)ifa==nil{return""}`) && strings.Contains(s, `iff.Name==".info"{data=f.Databreak}`) && strings.Contains(s, `varinfostruct{Shortstring}json.Unmarshal(data,&info)returninfo.Short`)
		if !ok {
			return false, false, "findHash has an unrecognised shape"
		}
		return true, true, ""
	})

	// ------------------------------------------------------------ allHex
	{
		fd := g.FuncDecl("goproxytest/allhex.go", "allHex")
		var ranges []string
		ok := false
		if fd != nil {
			s := g.Src(fd.Body)
			m := regexp.MustCompile(`c:=rev\[i\]if((?:'.'<=c&&c<='.'\|?\|?)+)\{continue\}returnfalse\}returntrue`).FindStringSubmatch(s)
			if m != nil {
				ok = true
				for _, r := range regexp.MustCompile(`'(.)'<=c&&c<='(.)'`).FindAllStringSubmatch(m[1], -1) {
					ranges = append(ranges, fmt.Sprintf("(%d, %d)", r[1][0], r[2][0]))
				}
			}
		}
		if !ok {
			g.Lost("hexRanges", "allHex loop has an unrecognised shape")
			ranges = []string{"(48, 57)", "(97, 102)"}
		} else {
			g.Found("hexRanges", strings.Join(ranges, " "))
		}
		g.Emit("/-- allHex: every byte lies in one of these inclusive ranges. -/\ndef hexRanges : List (UInt8 × UInt8) := [%s]\n", strings.Join(ranges, ", "))
	}
	// ------------------------------------------------------------ isPseudoVersion
	{
		fd := g.FuncDecl("goproxytest/pseudo.go", "isPseudoVersion")
		n, ok := 2, false
		if fd != nil {
			m := regexp.MustCompile(`^\{returnstrings\.Count\(v,"-"\)>=(\d+)&&semver\.IsValid\(v\)&&pseudoVersionRE\.MatchString\(v\)\}$`).FindStringSubmatch(g.Src(fd.Body))
			if m != nil {
				n, _ = strconv.Atoi(m[1])
				ok = true
			}
		}
		if !ok {
			g.Lost("pseudoMinDashes", "isPseudoVersion has an unrecognised shape")
		} else {
			g.Found("pseudoMinDashes", strconv.Itoa(n))
		}
		g.Emit("/-- isPseudoVersion(v) = strings.Count(v, \"-\") >= pseudoMinDashes && semver.IsValid(v) && pseudoVersionRE.MatchString(v) -/\ndef pseudoMinDashes : Nat := %d\n", n)

		pat, pok := "", false
		if v := g.TopLevelValue("goproxytest/pseudo.go", "pseudoVersionRE"); v != nil && strings.HasPrefix(g.Src(v), "regexp.MustCompile(") {
			pat, pok = fact.StringLit(v)
		}
		lean, why := "", ""
		if pok {
			re, err := syntax.Parse(pat, syntax.Perl)
			if err != nil {
				why = err.Error()
			} else if lean, err = reToLean(re.Simplify(), true); err != nil {
				why = err.Error()
			}
		} else {
			why = "pseudoVersionRE = regexp.MustCompile(<literal>) not found"
		}
		if why != "" {
			g.Lost("pseudoRe", why)
			pat = pinnedPseudoRE
			re, _ := syntax.Parse(pat, syntax.Perl)
			lean, _ = reToLean(re.Simplify(), true)
		} else {
			g.Found("pseudoRe", pat)
		}
		g.Emit("/-- pseudoVersionRE = %s (anchors dropped: whole-string match) -/\ndef pseudoRe : Re :=\n  %s\n", strings.ReplaceAll(pat, "-/", "- /"), lean)
	}
}
