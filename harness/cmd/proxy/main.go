// proxy group binary: `proxy factgen ...` and `proxy corr ...` (property C20, goproxytest).
package main

import (
	"fmt"
	"os"

	"verif/harness/internal/corr"
	"verif/harness/internal/fact"
)

func main() {
	if len(os.Args) < 2 {
		fmt.Fprintln(os.Stderr, "usage: proxy factgen|corr [flags]")
		os.Exit(2)
	}
	switch os.Args[1] {
	case "factgen":
		fact.Main(os.Args[2:], "proxy", "Proxy", genProxy)
	case "corr":
		corr.Main(os.Args[2:], runProxy)
	default:
		fmt.Fprintln(os.Stderr, "usage: proxy factgen|corr [flags]")
		os.Exit(2)
	}
}
