package main

import "verif/harness/internal/corr"

func runProxy(tier string, seed int64, model string, replay string) *corr.Result {
	return corr.NewResult("proxy", tier, seed)
}
