package main

import (
	"archive/zip"
	"bufio"
	"bytes"
	"encoding/json"
	"fmt"
	"io"
	"log"
	"math/rand"
	"net/http"
	"net/url"
	"os"
	"os/exec"
	"path/filepath"
	"sort"
	"strings"
	"sync"

	"github.com/rogpeppe/go-internal/goproxytest"
	"golang.org/x/mod/module"
	"golang.org/x/mod/semver"
	xtxtar "golang.org/x/tools/txtar"

	"verif/harness/internal/corr"
	"verif/harness/internal/mdl"
)

// ============================================================ the served directory, read back from disk

type dfile struct {
	comps []string
	data  []byte
}

type entry struct {
	name  string
	isDir bool
	data  []byte  // regular file
	files []dfile // directory: regular files below it
}

func readTree(root string, comps []string, out *[]dfile) {
	es, err := os.ReadDir(root)
	if err != nil {
		panic(err)
	}
	for _, e := range es {
		c := append(append([]string{}, comps...), e.Name())
		p := filepath.Join(root, e.Name())
		if e.IsDir() {
			readTree(p, c, out)
		} else {
			d, err := os.ReadFile(p)
			if err != nil {
				panic(err)
			}
			*out = append(*out, dfile{c, d})
		}
	}
}

func readStore(dir string) []entry {
	es, err := os.ReadDir(dir)
	if err != nil {
		panic(err)
	}
	var out []entry
	for _, e := range es {
		en := entry{name: e.Name(), isDir: e.IsDir()}
		p := filepath.Join(dir, e.Name())
		if e.IsDir() {
			readTree(p, nil, &en.files)
		} else {
			d, err := os.ReadFile(p)
			if err != nil {
				panic(err)
			}
			en.data = d
		}
		out = append(out, en)
	}
	return out
}

func hx(s string) string { return corr.Hx([]byte(s)) }

// encodeStore gives the `scn` store field; entries and directory files are shuffled (the model sorts).
func encodeStore(es []entry, r *rand.Rand) string {
	if len(es) == 0 {
		return "_"
	}
	es = append([]entry{}, es...)
	r.Shuffle(len(es), func(i, j int) { es[i], es[j] = es[j], es[i] })
	parts := make([]string, len(es))
	for i, e := range es {
		if !e.isDir {
			parts[i] = "F:" + hx(e.name) + ":" + corr.Hx(e.data)
			continue
		}
		fs := append([]dfile{}, e.files...)
		r.Shuffle(len(fs), func(i, j int) { fs[i], fs[j] = fs[j], fs[i] })
		fparts := make([]string, len(fs))
		for j, f := range fs {
			cs := make([]string, len(f.comps))
			for k, c := range f.comps {
				cs[k] = hx(c)
			}
			fparts[j] = strings.Join(cs, "/") + "=" + corr.Hx(f.data)
		}
		if len(fparts) == 0 {
			parts[i] = "D:" + hx(e.name) + ":_"
		} else {
			parts[i] = "D:" + hx(e.name) + ":" + strings.Join(fparts, "+")
		}
	}
	return strings.Join(parts, ",")
}

func decodeStore(s string) []entry {
	if s == "_" {
		return nil
	}
	var out []entry
	for _, p := range strings.Split(s, ",") {
		f := strings.Split(p, ":")
		en := entry{name: string(corr.Unhx(f[1]))}
		if f[0] == "F" {
			en.data = corr.Unhx(f[2])
		} else {
			en.isDir = true
			if f[2] != "_" {
				for _, fe := range strings.Split(f[2], "+") {
					kv := strings.Split(fe, "=")
					var comps []string
					for _, c := range strings.Split(kv[0], "/") {
						comps = append(comps, string(corr.Unhx(c)))
					}
					en.files = append(en.files, dfile{comps, corr.Unhx(kv[1])})
				}
			}
		}
		out = append(out, en)
	}
	return out
}

func writeStore(dir string, es []entry) {
	for _, e := range es {
		p := filepath.Join(dir, e.name)
		if !e.isDir {
			must(os.WriteFile(p, e.data, 0o666))
			continue
		}
		must(os.MkdirAll(p, 0o777))
		for _, f := range e.files {
			fp := filepath.Join(append([]string{p}, f.comps...)...)
			must(os.MkdirAll(filepath.Dir(fp), 0o777))
			must(os.WriteFile(fp, f.data, 0o666))
		}
	}
}

func must(err error) {
	if err != nil {
		panic(err)
	}
}

type afile struct {
	name string
	data []byte
}

// infoDatas: every ".info" payload reachable in the directory, with its Short field decoded the way findHash does.
func shortsField(es []entry) string {
	seen := map[string]bool{}
	var parts []string
	add := func(d []byte) {
		if seen[string(d)] {
			return
		}
		seen[string(d)] = true
		var info struct{ Short string }
		json.Unmarshal(d, &info)
		parts = append(parts, corr.Hx(d)+"="+hx(info.Short))
	}
	add(nil)
	for _, e := range es {
		if e.isDir {
			for _, f := range e.files {
				if len(f.comps) == 1 && f.comps[0] == ".info" {
					add(f.data)
				}
			}
		} else {
			for _, f := range xtxtar.Parse(e.data).Files {
				if f.Name == ".info" {
					add(f.Data)
				}
			}
		}
	}
	return strings.Join(parts, ",")
}

// ============================================================ running the real server

type resp struct {
	status int
	body   []byte
}

func get(client *http.Client, host, p string) resp {
	u := &url.URL{Scheme: "http", Host: host, Path: p}
	r, err := client.Get(u.String())
	if err != nil {
		return resp{-1, []byte(err.Error())}
	}
	defer r.Body.Close()
	b, _ := io.ReadAll(r.Body)
	return resp{r.StatusCode, b}
}

func zipMembers(b []byte) ([]afile, error) {
	zr, err := zip.NewReader(bytes.NewReader(b), int64(len(b)))
	if err != nil {
		return nil, err
	}
	var out []afile
	for _, f := range zr.File {
		rc, err := f.Open()
		if err != nil {
			return nil, err
		}
		d, err := io.ReadAll(rc)
		rc.Close()
		if err != nil {
			return nil, err
		}
		out = append(out, afile{f.Name, d})
	}
	return out, nil
}

// showResp renders an HTTP response in the model driver's notation.
func showResp(p string, r resp) string {
	switch {
	case r.status == 404:
		if string(r.body) != "404 page not found\n" {
			return "404:unexpected-body:" + corr.Hx(r.body)
		}
		return "404"
	case r.status == 500:
		return "500"
	case r.status != 200:
		return fmt.Sprintf("other:%d:%s", r.status, corr.Hx(r.body))
	}
	if strings.HasSuffix(p, ".zip") {
		ms, err := zipMembers(r.body)
		if err != nil {
			return "badzip:" + corr.Hx(r.body)
		}
		if len(ms) == 0 {
			return "z:_"
		}
		parts := make([]string, len(ms))
		for i, m := range ms {
			parts[i] = hx(m.name) + "=" + corr.Hx(m.data)
		}
		return "z:" + strings.Join(parts, "+")
	}
	return "b:" + corr.Hx(r.body)
}

type runOut struct {
	startErr error
	seq      []resp            // responses of the sequential pass, in request order
	conc     map[string][]resp // responses of the concurrent pass, per URL path
}

// runServers serves dir with the real goproxytest server twice: a concurrent pass on a fresh server
// (32 goroutines, every URL several times, first requests racing) and a sequential pass on another fresh server.
func runServers(dir string, urls []string, concCopies int, r *rand.Rand) runOut {
	var out runOut
	tr := &http.Transport{MaxIdleConnsPerHost: 64}
	client := &http.Client{Transport: tr}
	defer tr.CloseIdleConnections()

	srv, err := goproxytest.NewServer(dir, "")
	if err != nil {
		out.startErr = err
		return out
	}
	host := strings.TrimSuffix(strings.TrimPrefix(srv.URL, "http://"), "/mod")
	if concCopies > 0 {
		var work []string
		seen := map[string]bool{}
		for _, u := range urls {
			if !seen[u] {
				seen[u] = true
				for k := 0; k < concCopies; k++ {
					work = append(work, u)
				}
			}
		}
		r.Shuffle(len(work), func(i, j int) { work[i], work[j] = work[j], work[i] })
		out.conc = map[string][]resp{}
		var mu sync.Mutex
		var wg sync.WaitGroup
		start := make(chan struct{})
		const workers = 32
		for w := 0; w < workers; w++ {
			wg.Add(1)
			go func(w int) {
				defer wg.Done()
				<-start
				for i := w; i < len(work); i += workers {
					rp := get(client, host, work[i])
					mu.Lock()
					out.conc[work[i]] = append(out.conc[work[i]], rp)
					mu.Unlock()
				}
			}(w)
		}
		close(start)
		wg.Wait()
	}
	srv.Close()
	tr.CloseIdleConnections()
	if concCopies > 0 {
		// bursts: ALL workers ask a FRESH server for the SAME URL at the same instant — the very first requests for
		// one module version race through the archive cache and the zip cache (par.Cache: only one of them computes,
		// everybody gets that result).  A few URLs per directory, a few rounds each; the responses join the concurrent
		// pass and must equal the sequential ones.
		var burst []string
		seenB := map[string]bool{}
		for _, u := range urls {
			if (strings.HasSuffix(u, ".zip") || strings.HasSuffix(u, ".mod") || strings.HasSuffix(u, ".info")) && !seenB[u] && len(burst) < 4 {
				seenB[u] = true
				burst = append(burst, u)
			}
		}
		for _, u := range burst {
			for round := 0; round < 3; round++ {
				bs, err := goproxytest.NewServer(dir, "")
				if err != nil {
					break
				}
				bhost := strings.TrimSuffix(strings.TrimPrefix(bs.URL, "http://"), "/mod")
				var mu sync.Mutex
				var wg sync.WaitGroup
				start := make(chan struct{})
				for w := 0; w < 24; w++ {
					wg.Add(1)
					go func() {
						defer wg.Done()
						<-start
						rp := get(client, bhost, u)
						mu.Lock()
						out.conc[u] = append(out.conc[u], rp)
						mu.Unlock()
					}()
				}
				close(start)
				wg.Wait()
				bs.Close()
				tr.CloseIdleConnections()
			}
		}
	}

	srv2, err := goproxytest.NewServer(dir, "")
	if err != nil {
		out.startErr = err
		return out
	}
	host2 := strings.TrimSuffix(strings.TrimPrefix(srv2.URL, "http://"), "/mod")
	for _, u := range urls {
		out.seq = append(out.seq, get(client, host2, u))
	}
	srv2.Close()
	return out
}

// ============================================================ the oracle (directory + URL + response; no model)

// specDecode inverts the documented naming convention "path_vers, slashes replaced by underscores,
// upper-case letters escaped as !lower": the version is what follows the last "_v" (versions start with v).
func specDecode(base string) (p, v string, ok bool) {
	i := strings.LastIndex(base, "_v")
	if i < 0 {
		return "", "", false
	}
	p, err := module.UnescapePath(strings.ReplaceAll(base[:i], "_", "/"))
	if err != nil {
		return "", "", false
	}
	v, err = module.UnescapeVersion(base[i+1:])
	if err != nil {
		return "", "", false
	}
	return p, v, true
}

type storedMod struct {
	contents [][]afile // one per layout present (txtar, txt, dir)
	unclear  bool      // a layout the documentation does not define (e.g. a directory called x.txt)
}

func specStored(es []entry) map[[2]string]*storedMod {
	out := map[[2]string]*storedMod{}
	for _, e := range es {
		base, kind := e.name, ""
		switch {
		case strings.HasSuffix(e.name, ".txt"):
			base, kind = strings.TrimSuffix(e.name, ".txt"), "archive"
		case strings.HasSuffix(e.name, ".txtar"):
			base, kind = strings.TrimSuffix(e.name, ".txtar"), "archive"
		case e.isDir:
			kind = "dir"
		default:
			continue
		}
		p, v, ok := specDecode(base)
		if !ok {
			continue
		}
		key := [2]string{p, v}
		sm := out[key]
		if sm == nil {
			sm = &storedMod{}
			out[key] = sm
		}
		switch {
		case kind == "archive" && e.isDir:
			sm.unclear = true
		case kind == "archive":
			var fs []afile
			for _, f := range xtxtar.Parse(e.data).Files {
				fs = append(fs, afile{f.Name, f.Data})
			}
			sm.contents = append(sm.contents, fs)
		default:
			var fs []afile
			for _, f := range e.files {
				fs = append(fs, afile{strings.Join(f.comps, "/"), f.data})
			}
			sm.contents = append(sm.contents, fs)
		}
	}
	return out
}

// refPseudo: "pseudo-version" by golang.org/x/mod, the reference independent of goproxytest's own regular
// expression.  x/mod also accepts arbitrary build metadata where goproxytest (like the cmd/go code it was copied
// from) accepts only +incompatible; those versions are outside the oracle (unclear = true).
func refPseudo(v string) (pseudo, unclear bool) {
	p := module.IsPseudoVersion(v)
	if b := semver.Build(v); p && b != "" && b != "+incompatible" {
		return false, true
	}
	return p, false
}

func isAllHexIndep(s string) bool {
	return strings.Trim(s, "0123456789abcdef") == ""
}

func sortedMembers(ms []afile) []string {
	out := make([]string, len(ms))
	for i, m := range ms {
		out[i] = m.name + "\x00" + string(m.data)
	}
	sort.Strings(out)
	return out
}

func eqStrings(a, b []string) bool {
	if len(a) != len(b) {
		return false
	}
	for i := range a {
		if a[i] != b[i] {
			return false
		}
	}
	return true
}

// oracle judges one response against the property statement.  It returns "" (fine or not covered) or class, what.
func oracle(es []entry, stored map[[2]string]*storedMod, p string, r resp) (class, what string, checked bool) {
	notFound := r.status == 404
	rest, ok := strings.CutPrefix(p, "/mod/")
	if !ok {
		if !notFound {
			return "malformed-not-404", fmt.Sprintf("status %d for a URL outside /mod/", r.status), true
		}
		return "", "", true
	}
	enc, file, ok := strings.Cut(rest, "/@v/")
	if !ok {
		if !notFound {
			return "malformed-not-404", fmt.Sprintf("status %d for a URL without /@v/", r.status), true
		}
		return "", "", true
	}
	path, err := module.UnescapePath(enc)
	if err != nil {
		if !notFound {
			return "malformed-not-404", fmt.Sprintf("status %d for an invalid escaped module path", r.status), true
		}
		return "", "", true
	}
	if file == "list" {
		want := map[string]bool{}
		for k, sm := range stored {
			ps, unclear := refPseudo(k[1])
			if k[0] == path && (sm.unclear || unclear) {
				return "", "", false
			}
			if k[0] == path && module.Check(k[0], k[1]) == nil && !ps {
				want[k[1]] = true
			}
		}
		if len(want) == 0 {
			if !notFound {
				return "list-differs", fmt.Sprintf("list of a module without valid non-pseudo versions: status %d body %q", r.status, r.body), true
			}
			return "", "", true
		}
		if r.status != 200 {
			return "list-differs", fmt.Sprintf("list status %d, want versions %v", r.status, keys(want)), true
		}
		got := map[string]bool{}
		body := string(r.body)
		if !strings.HasSuffix(body, "\n") {
			return "list-differs", fmt.Sprintf("list body %q does not end in newline", body), true
		}
		for _, l := range strings.Split(strings.TrimSuffix(body, "\n"), "\n") {
			got[l] = true
		}
		if !eqStrings(keys(got), keys(want)) {
			return "list-differs", fmt.Sprintf("list = %v, want exactly %v", keys(got), keys(want)), true
		}
		return "", "", true
	}
	i := strings.LastIndex(file, ".")
	if i < 0 {
		if !notFound {
			return "malformed-not-404", fmt.Sprintf("status %d for a file without extension", r.status), true
		}
		return "", "", true
	}
	vers, err := module.UnescapeVersion(file[:i])
	ext := file[i+1:]
	if err != nil {
		if !notFound {
			return "malformed-not-404", fmt.Sprintf("status %d for an invalid escaped version", r.status), true
		}
		return "", "", true
	}
	if isAllHexIndep(vers) {
		return "", "", false // commit-hash queries: not part of the property statement (correspondence only)
	}
	sm := stored[[2]string{path, vers}]
	if sm == nil {
		if !notFound {
			// does an archive exist under the derived name?  then this is the aliasing defect
			class := "not-stored-200"
			ep, e1 := module.EscapePath(path)
			ev, e2 := module.EscapeVersion(vers)
			if e1 == nil && e2 == nil {
				base := strings.ReplaceAll(ep, "/", "_") + "_" + ev
				for _, e := range es {
					if e.name == base || e.name == base+".txt" || e.name == base+".txtar" {
						class = "alias-not-stored-200"
					}
				}
			}
			return class, fmt.Sprintf("%s@%s is not stored but %s gives status %d", path, vers, p, r.status), true
		}
		return "", "", true
	}
	if sm.unclear {
		return "", "", false
	}
	switch ext {
	case "info", "mod":
		anyHas := false
		for _, c := range sm.contents {
			for _, f := range c {
				if f.name == "."+ext {
					anyHas = true
					if r.status == 200 && bytes.Equal(r.body, f.data) {
						return "", "", true
					}
					break
				}
			}
		}
		if !anyHas {
			return "", "", false // the archive lacks the file the documentation requires
		}
		if notFound && len(sm.contents) > 1 {
			return "", "", false // several layouts, one of them without the file
		}
		if notFound {
			return "stored-404", fmt.Sprintf("%s@%s is stored with a .%s file but %s is 404", path, vers, ext, p), true
		}
		return ext + "-differs", fmt.Sprintf("%s: status %d body %q is not the stored .%s", p, r.status, r.body, ext), true
	case "zip":
		for _, c := range sm.contents {
			for _, f := range c {
				if len(path)+len(vers)+2+len(f.name) > 65535 {
					return "", "", false // not representable in a zip (name length field is 16 bits)
				}
			}
		}
		if r.status != 200 {
			return "stored-404", fmt.Sprintf("%s@%s is stored but %s gives %d", path, vers, p, r.status), true
		}
		ms, err := zipMembers(r.body)
		if err != nil {
			return "zip-invalid", fmt.Sprintf("%s: not a valid zip: %v", p, err), true
		}
		got := sortedMembers(ms)
		prefix := path + "@" + vers + "/"
		for _, c := range sm.contents {
			var want []afile
			for _, f := range c {
				if !strings.HasPrefix(f.name, ".") {
					want = append(want, afile{prefix + f.name, f.data})
				}
			}
			if eqStrings(got, sortedMembers(want)) {
				return "", "", true
			}
		}
		for _, m := range ms {
			if !strings.HasPrefix(m.name, prefix) {
				return "zip-prefix-poisoned", fmt.Sprintf("%s: member %q lacks the prefix %q", p, m.name, prefix), true
			}
		}
		return "zip-members-differ", fmt.Sprintf("%s: zip members are not exactly the stored non-dot files", p), true
	default:
		if !notFound {
			return "malformed-not-404", fmt.Sprintf("status %d for unknown extension %q", r.status, ext), true
		}
	}
	return "", "", true
}

func keys(m map[string]bool) []string {
	var out []string
	for k := range m {
		out = append(out, k)
	}
	sort.Strings(out)
	return out
}

// ============================================================ generators

func escapeIndep(s string) string {
	var b strings.Builder
	for i := 0; i < len(s); i++ {
		if 'A' <= s[i] && s[i] <= 'Z' {
			b.WriteByte('!')
			b.WriteByte(s[i] + 'a' - 'A')
		} else {
			b.WriteByte(s[i])
		}
	}
	return b.String()
}

var hosts = []string{"example.com", "github.com", "rsc.io", "golang.org", "a.b-c.io", "x.org"}
var elems = []string{"foo", "Foo", "BAR", "x_y", "my_vault", "a", "b", "Quote", "z-1", "q.r", "X_v", "v", "vv", "a~b", "CamelCase", "c", "a_b_c"}
var badElems = []string{"_x", "x_", "a__b"} // the derived file name does not decode: NewServer fails
var majors = []string{"v2", "v3", "v10"}
var gopkgs = []string{"gopkg.in/yaml.v2", "gopkg.in/check.v1", "gopkg.in/x.v0", "gopkg.in/Foo/bar.v3", "gopkg.in/y.v2-unstable"}
var badPaths = []string{"Example.com/x", "example/x", "example.com/x/v1", "example.com/con", "example.com/a~1", "example.com/.x", "example.com/x.", "-x.com/a", "example.com/x/v02", "example.com/a@b", "gopkg.in/yaml", "example.com/v2.1"}

func randWord(r *rand.Rand, alpha string, max int) string {
	n := 1 + r.Intn(max)
	b := make([]byte, n)
	for i := range b {
		b[i] = alpha[r.Intn(len(alpha))]
	}
	return string(b)
}

func genPath(r *rand.Rand) string {
	switch r.Intn(12) {
	case 0:
		return gopkgs[r.Intn(len(gopkgs))]
	case 1:
		return hosts[r.Intn(len(hosts))]
	}
	p := hosts[r.Intn(len(hosts))]
	n := 1 + r.Intn(3)
	for i := 0; i < n; i++ {
		if r.Intn(40) == 0 {
			p += "/" + badElems[r.Intn(len(badElems))]
		} else if r.Intn(8) == 0 {
			p += "/" + randWord(r, "abcxyzABXZ019._~-v", 6) // may be invalid (NewServer then fails) or alias another name
		} else {
			p += "/" + elems[r.Intn(len(elems))]
		}
	}
	if r.Intn(4) == 0 {
		p += "/" + majors[r.Intn(len(majors))]
	}
	return p
}

var relVersions = []string{"v1.0.0", "v1.2.3", "v0.1.0", "v2.0.0", "v2.3.4", "v3.0.0", "v1.10.0", "v0.0.1", "v10.0.0", "v1.2.10"}
var preVersions = []string{"v1.0.0-rc.1", "v1.0.0-alpha", "v1.2.3-beta.2", "v1.0.0-RC1", "v1.0.0-0.3.7", "v2.0.0-pre", "v1.0.0-alpha.beta", "v1.0.0-x-y", "v1.2.3-0.2019010100000-abc"}
var buildVersions = []string{"v1.0.0+meta", "v2.0.0+incompatible", "v1.0.0-rc.1+build.5", "v1.0.0+Meta", "v3.1.0+incompatible", "v2.0.0-pre+incompatible"}
var pseudoVersions = []string{"v0.0.0-20190101000000-abcdef123456", "v1.2.4-0.20190101000000-abcdef123456", "v1.2.3-pre.0.20190101000000-abcdef123456",
	"v2.0.1-0.20190101000000-abcdef123456+incompatible", "v1.0.0-20190101000000-abcdef123456", "v0.0.0-20200202020202-0123456789ab", "v2.0.0-20190101000000-ABCdef123456",
	// form vX.Y.Z-pre.0.date-hash with hyphenated / dotted / numeric / upper-case pre-release identifiers
	"v1.2.3-rc-1.0.20190101000000-abcdefabcdef", "v1.2.3-rc.1.0.20190101000000-abcdefabcdef", "v1.2.3-1.0.20190101000000-abcdefabcdef",
	"v1.2.3-alpha-beta.2.0.20190101000000-abcdefabcdef", "v1.0.0-RC-1.0.20190101000000-abcdefabcdef", "v1.0.0-x--y.0.20190101000000-abcdefabcdef",
	"v0.3.0-a.b-c.d.0.20190101000000-0123456789ab", "v1.2.3-0.0.20190101000000-abcdefabcdef", "v1.2.3--.0.20190101000000-abcdefabcdef",
	"v2.1.0-rc-1.0.20190101000000-abcdefabcdef+incompatible", "v3.0.0-20190101000000-abcdefabcdef+incompatible", "v2.0.0-pre-x.0.20190101000000-abcdefabcdef+incompatible",
	"v3.0.0-20190101000000-abcdefabcdef", "v10.20.31-0.20190101000000-a"}

// valid semantic versions that look like pseudo-versions but are not (they must be listed)
var nearPseudoVersions = []string{"v1.2.3-rc-1.1.20190101000000-abcdefabcdef", "v1.2.3-rc-1.0.2019010100000-abcdefabcdef", "v1.2.3-rc-1.0.201901010000000-abcdefabcdef",
	"v1.2.3-rc-1.0.20190101000000", "v1.0.0-20190101000000-abc-def", "v1.0.1-20190101000000-abcdefabcdef", "v1.2.3-rc-1.0-20190101000000-abcdefabcdef",
	"v1.2.3-0.20190101000000", "v1.2.3-rc-1.0.20190101000000-abcdef.1"}

// pseudo-versions by golang.org/x/mod, not by goproxytest (build metadata other than +incompatible): outside the oracle
var metaPseudoVersions = []string{"v1.2.4-0.20190101000000-abcdef123456+meta", "v1.2.3-rc-1.0.20190101000000-abcdefabcdef+build.5", "v0.0.0-20190101000000-abcdef123456+x"}

var oddVersions = []string{"v1", "v1.2", "vfoo", "v1.2.3.4", "v01.2.3", "v1.2.3-", "v1.2.3-01", "v1.2.x", "vx_v1.0.0", "v1.0.0_v2", "v1.0.0-a_b", "v", "v1.0.0+", "v1.0.0 x", "v1.0.0-é"}

func genVersion(r *rand.Rand, path string) string {
	pick := func(s []string) string { return s[r.Intn(len(s))] }
	v := ""
	switch k := r.Intn(20); {
	case k < 8:
		v = pick(relVersions)
	case k < 11:
		v = pick(preVersions)
	case k < 13:
		v = pick(buildVersions)
	case k < 16:
		v = pick(pseudoVersions)
		if r.Intn(5) == 0 {
			v = pick(nearPseudoVersions)
		} else if r.Intn(25) == 0 {
			v = pick(metaPseudoVersions)
		}
	case k < 18:
		v = pick(oddVersions[:len(oddVersions)-2])
	case k == 18:
		v = "v" + randWord(r, "0123.-+abAB_", 9) // mostly invalid
	default:
		// a random well-formed one
		v = fmt.Sprintf("v%d.%d.%d", r.Intn(4), r.Intn(3), r.Intn(12))
		if r.Intn(3) == 0 {
			v += "-" + randWord(r, "ab01Z", 3) + []string{"", ".1", ".x-y", ".0"}[r.Intn(4)]
		}
	}
	// bias towards the major version the path asks for
	if _, pm, ok := module.SplitPathVersion(path); ok && pm != "" && r.Intn(3) != 0 && strings.HasPrefix(v, "v") && len(v) > 2 {
		if i := strings.Index(v, "."); i > 0 {
			v = "v" + strings.TrimLeft(pm, "/.v") + v[i:]
			v = strings.Replace(v, "-unstable", "", 1)
		}
	}
	return v
}

var fileNames = []string{"go.mod", "x.go", "sub/y.go", "sub/deep/z.txt", ".hidden", ".git/config", "sub/.keep", "A.go", "a.go", "a-b.go", "a.b/c", "a/c", "README", "..x", "sub/x.go", "b/.x/y", "_u", "Z/z"}

func genFiles(r *rand.Rand, path, vers, tag string) []afile {
	var fs []afile
	if r.Intn(10) != 0 {
		var info string
		switch r.Intn(5) {
		case 0:
			info = fmt.Sprintf(`{"Version":%q}`+"\n", vers)
		case 1:
			info = fmt.Sprintf(`{"Version":%q,"Short":"abcdef123456"}`+"\n", vers)
		case 2:
			info = fmt.Sprintf(`{"Version":%q,"Short":"%012x"}`+"\n", vers, r.Int63n(1<<48))
		case 3:
			info = "not json " + tag + "\n"
		default:
			info = fmt.Sprintf(`{"Version":%q,"Time":"2018-02-14T00:45:20Z","Short":"0123abc"}`+"\n", vers)
		}
		fs = append(fs, afile{".info", []byte(info)})
	}
	if r.Intn(10) != 0 {
		fs = append(fs, afile{".mod", []byte("module " + path + "\n// " + tag + "\n")})
	}
	used := map[string]bool{}
	n := r.Intn(7)
	for i := 0; i < n; i++ {
		nm := fileNames[r.Intn(len(fileNames))]
		// a name may not be both a file and a directory
		clash := used[nm]
		for u := range used {
			if strings.HasPrefix(u, nm+"/") || strings.HasPrefix(nm, u+"/") {
				clash = true
			}
		}
		if clash {
			continue
		}
		used[nm] = true
		var data string
		switch r.Intn(4) {
		case 0:
			data = ""
		case 1:
			data = "package x // " + tag + "\n"
		default:
			data = fmt.Sprintf("line %d\n%s\nend\n", r.Intn(1000), tag)
		}
		fs = append(fs, afile{nm, []byte(data)})
	}
	r.Shuffle(len(fs), func(i, j int) { fs[i], fs[j] = fs[j], fs[i] })
	return fs
}

func writeArchive(dir, base, layout string, fs []afile, r *rand.Rand) {
	switch layout {
	case "txtar", "txt":
		if r.Intn(15) == 0 {
			// not produced by txtar.Format: whatever x/tools' Parse makes of it is what is stored
			pieces := []string{"-- ", " --", "\n", "-- .info --\n", "-- .mod --\n", "-- go.mod --\n", "{}\n", "x", "-- a/b --", "\r\n", "--  --\n", "-- .x --\n", "module m\n", " ", "-- sub/.y --\n"}
			var b []byte
			for i, n := 0, r.Intn(14); i < n; i++ {
				b = append(b, pieces[r.Intn(len(pieces))]...)
			}
			must(os.WriteFile(filepath.Join(dir, base+"."+layout), b, 0o666))
			return
		}
		a := &xtxtar.Archive{}
		if r.Intn(3) == 0 {
			a.Comment = []byte("written by the harness\n")
		}
		for _, f := range fs {
			a.Files = append(a.Files, xtxtar.File{Name: f.name, Data: f.data})
		}
		must(os.WriteFile(filepath.Join(dir, base+"."+layout), xtxtar.Format(a), 0o666))
	case "dir":
		root := filepath.Join(dir, base)
		must(os.MkdirAll(root, 0o777))
		for _, f := range fs {
			p := filepath.Join(root, filepath.FromSlash(f.name))
			must(os.MkdirAll(filepath.Dir(p), 0o777))
			data := f.data
			if r.Intn(6) == 0 {
				data = append(append([]byte{}, data...), 0, 0xff, '-', '-', ' ', 'x', ' ', '-', '-', '\n', 'n', 'o', ' ', 'n', 'l')
			}
			must(os.WriteFile(p, data, 0o666))
		}
	}
}

type scenario struct {
	dir  string
	mods [][2]string // intended (path, version) pairs
}

// genDir writes a module directory and returns the intended modules.
func genDir(r *rand.Rand, dir string, allowBad bool) [][2]string {
	var mods [][2]string
	n := 1 + r.Intn(6)
	var paths []string
	for i := 0; i < 1+r.Intn(3); i++ {
		paths = append(paths, genPath(r))
	}
	for i := 0; i < n; i++ {
		p := paths[r.Intn(len(paths))]
		if allowBad && r.Intn(20) == 0 {
			p = badPaths[r.Intn(len(badPaths))]
		}
		v := genVersion(r, p)
		if allowBad && r.Intn(30) == 0 {
			v = oddVersions[len(oddVersions)-2+r.Intn(2)]
		}
		base := strings.ReplaceAll(escapeIndep(p), "/", "_") + "_" + escapeIndep(v)
		if len(base) > 200 || strings.ContainsAny(base, "/\x00") {
			continue
		}
		mods = append(mods, [2]string{p, v})
		var layouts []string
		switch k := r.Intn(20); {
		case k < 7:
			layouts = []string{"txtar"}
		case k < 12:
			layouts = []string{"txt"}
		case k < 17:
			layouts = []string{"dir"}
		case k == 17:
			layouts = []string{"txtar", "txt"}
		case k == 18:
			layouts = []string{"txt", "dir"}
		default:
			layouts = []string{"txtar", "txt", "dir"}
		}
		for _, l := range layouts {
			writeArchive(dir, base, l, genFiles(r, p, v, l), r)
		}
	}
	// entries the server must ignore or that are quirks
	switch r.Intn(8) {
	case 0:
		must(os.WriteFile(filepath.Join(dir, "README.md"), []byte("x"), 0o666))
	case 1:
		must(os.WriteFile(filepath.Join(dir, "example.com_plain_v1.0.0"), []byte("-- .info --\n{}\n"), 0o666)) // regular file without extension
	case 2:
		must(os.MkdirAll(filepath.Join(dir, "example.com_dirtxt_v1.0.0.txt"), 0o777)) // a directory called *.txt
	case 3:
		must(os.MkdirAll(filepath.Join(dir, "example.com_empty_v1.0.0"), 0o777)) // empty directory archive
	case 4:
		must(os.WriteFile(filepath.Join(dir, "noversion.txt"), []byte("-- .info --\n{}\n"), 0o666))
	}
	return mods
}

// genURLs: every endpoint of every stored module, aliasing requests, non-stored modules, malformed URLs.
func genURLs(r *rand.Rand, es []entry, stored map[[2]string]*storedMod, intended [][2]string) []string {
	var urls []string
	add := func(u string) { urls = append(urls, u) }
	endpoints := func(p, v string) {
		ep, ev := escapeIndep(p), escapeIndep(v)
		// the aliasing zip request goes first for half of the modules (cache poisoning regression)
		alias := func() {
			if i := strings.LastIndex(p, "/"); i > 0 && strings.Contains(p[:i], "/") {
				add("/mod/" + escapeIndep(p[:i]) + "/@v/" + escapeIndep(p[i+1:]) + "_" + ev + ".zip")
				add("/mod/" + escapeIndep(p[:i]) + "/@v/" + escapeIndep(p[i+1:]) + "_" + ev + ".info")
			}
			if i := strings.LastIndex(p, "/"); i > 0 && strings.Contains(p[:i], "/") {
				q := p[:i] + "_" + p[i+1:]
				add("/mod/" + escapeIndep(q) + "/@v/" + ev + ".zip")
				add("/mod/" + escapeIndep(q) + "/@v/" + ev + ".mod")
				add("/mod/" + escapeIndep(q) + "/@v/list")
			}
			if i := strings.Index(p, "_"); i > 0 {
				q := p[:i] + "/" + p[i+1:]
				add("/mod/" + escapeIndep(q) + "/@v/" + ev + ".zip")
				add("/mod/" + escapeIndep(q) + "/@v/list")
			}
		}
		first := r.Intn(2) == 0
		if first {
			alias()
		}
		add("/mod/" + ep + "/@v/list")
		for _, ext := range []string{"info", "mod", "zip", "zip", "ziq", ""} {
			if ext == "" {
				add("/mod/" + ep + "/@v/" + ev)
			} else {
				add("/mod/" + ep + "/@v/" + ev + "." + ext)
			}
		}
		add("/mod/" + ep + "/@latest")
		if !first {
			alias()
		}
	}
	var keys [][2]string
	for k := range stored {
		keys = append(keys, k)
	}
	sort.Slice(keys, func(i, j int) bool { return keys[i][0]+"\x00"+keys[i][1] < keys[j][0]+"\x00"+keys[j][1] })
	for _, k := range keys {
		endpoints(k[0], k[1])
	}
	for _, m := range intended {
		if stored[m] == nil {
			endpoints(m[0], m[1])
		}
	}
	// commit-hash queries
	for _, k := range keys {
		ep := escapeIndep(k[0])
		for _, h := range []string{"abcdef123456", "abcdef1", "abcdef1234567890", "0123abc", "0123", "ffff", "0", "0123456789ab"} {
			if r.Intn(3) == 0 {
				add("/mod/" + ep + "/@v/" + h + "." + []string{"info", "mod", "zip"}[r.Intn(3)])
			}
		}
	}
	// non-stored versions of stored paths, non-stored paths
	for _, k := range keys {
		if r.Intn(2) == 0 {
			v := genVersion(r, k[0])
			add("/mod/" + escapeIndep(k[0]) + "/@v/" + escapeIndep(v) + "." + []string{"info", "mod", "zip"}[r.Intn(3)])
		}
	}
	for i := 0; i < 4; i++ {
		p := genPath(r)
		add("/mod/" + escapeIndep(p) + "/@v/list")
		add("/mod/" + escapeIndep(p) + "/@v/" + escapeIndep(genVersion(r, p)) + "." + []string{"info", "mod", "zip"}[r.Intn(3)])
	}
	// malformed
	mal := []string{"/", "/mod", "/mod/", "/mod/x", "/mod/example.com/@v/", "/other/example.com/a/@v/list", "/mod/example.com/a/@v/list/",
		"/mod/Example.com/a/@v/list", "/mod/example.com/A/@v/list", "/mod/example.com/a!/@v/list", "/mod/example.com/!1/@v/list",
		"/mod/example.com/a/@v/v1.0.0.info/extra", "/mod/example.com/a/@v/V1.0.0.info", "/mod/example.com/a/@v/@v/list",
		"/mod/example.com/a/@v/v1.0.0!.info", "/mod//@v/list", "/mod/example.com/a b/@v/list", "/mod/example.com/a/@v/v1.0.0%.info",
		"/mod/example.com/a/@v/.info", "/mod/example.com/a/@v/..info", "/mod/example.com/a/@v/v1.0.0?.info", "/mod/example.com/é/@v/list",
		"/mod/example.com/a/@v/\xff.info", "/mod/example.com/a/@v/list.info", "/mod/example.com/a/@v/v1.0.0.", "/mod/example.com/a//@v/list"}
	for _, k := range keys {
		if r.Intn(3) == 0 {
			ep, ev := escapeIndep(k[0]), escapeIndep(k[1])
			mal = append(mal, "/mod/"+ep+"/@v/"+strings.ToUpper(ev)+".info", "/mod/"+strings.ToUpper(ep)+"/@v/list", "/mod/"+ep+"/@v/"+ev+".INFO", "/mod/"+ep+"/"+ev+".info", "/Mod/"+ep+"/@v/list", "/mod/"+ep+"/@v/"+ev+"..info")
		}
	}
	for _, m := range mal {
		if r.Intn(3) != 0 {
			add(m)
		}
	}
	return urls
}

// ============================================================ unexported functions (isPseudoVersion, allHex)

const helperMain = `package main

import (
	"bufio"
	"encoding/hex"
	"fmt"
	"os"

	"verifhelper/goproxytest"
)

func main() {
	in := bufio.NewReaderSize(os.Stdin, 1<<20)
	out := bufio.NewWriter(os.Stdout)
	defer out.Flush()
	for {
		line, err := in.ReadString('\n')
		if line == "" && err != nil {
			return
		}
		for len(line) > 0 && (line[len(line)-1] == '\n' || line[len(line)-1] == '\r') {
			line = line[:len(line)-1]
		}
		b, _ := hex.DecodeString(line)
		ps, ah := 0, 0
		if goproxytest.VerifIsPseudo(string(b)) {
			ps = 1
		}
		if goproxytest.VerifAllHex(string(b)) {
			ah = 1
		}
		fmt.Fprintf(out, "%d %d\n", ps, ah)
	}
}
`

// unexportedBits runs isPseudoVersion and allHex of a scratch copy of the package (plus an export file) on the inputs.
func unexportedBits(repo string, inputs [][]byte) ([][2]int, error) {
	tmp, err := os.MkdirTemp("", "verif-proxy-helper")
	if err != nil {
		return nil, err
	}
	defer os.RemoveAll(tmp)
	pkg := filepath.Join(tmp, "goproxytest")
	must(os.MkdirAll(pkg, 0o777))
	srcs, _ := filepath.Glob(filepath.Join(repo, "goproxytest", "*.go"))
	for _, s := range srcs {
		if strings.HasSuffix(s, "_test.go") {
			continue
		}
		d, err := os.ReadFile(s)
		if err != nil {
			return nil, err
		}
		must(os.WriteFile(filepath.Join(pkg, filepath.Base(s)), d, 0o666))
	}
	must(os.WriteFile(filepath.Join(pkg, "export_verif.go"), []byte("package goproxytest\n\nfunc VerifIsPseudo(v string) bool { return isPseudoVersion(v) }\nfunc VerifAllHex(v string) bool { return allHex(v) }\n"), 0o666))
	must(os.WriteFile(filepath.Join(tmp, "main.go"), []byte(helperMain), 0o666))
	gomod := "module verifhelper\n\ngo 1.23\n\nrequire github.com/rogpeppe/go-internal v0.0.0\n\nreplace github.com/rogpeppe/go-internal => " + repo + "\n"
	must(os.WriteFile(filepath.Join(tmp, "go.mod"), []byte(gomod), 0o666))
	if d, err := os.ReadFile(filepath.Join(repo, "go.sum")); err == nil {
		must(os.WriteFile(filepath.Join(tmp, "go.sum"), d, 0o666))
	}
	build := exec.Command("go", "build", "-o", "helper", ".")
	build.Dir = tmp
	build.Env = append(os.Environ(), "GOFLAGS=-mod=mod", "GOPROXY=off", "GOSUMDB=off", "GOTOOLCHAIN=local")
	if out, err := build.CombinedOutput(); err != nil {
		return nil, fmt.Errorf("helper build: %v: %s", err, out)
	}
	cmd := exec.Command(filepath.Join(tmp, "helper"))
	var in bytes.Buffer
	for _, b := range inputs {
		fmt.Fprintf(&in, "%x\n", b)
	}
	cmd.Stdin = &in
	outb, err := cmd.Output()
	if err != nil {
		return nil, fmt.Errorf("helper run: %v", err)
	}
	res := make([][2]int, 0, len(inputs))
	sc := bufio.NewScanner(bytes.NewReader(outb))
	for sc.Scan() {
		var a, b int
		fmt.Sscanf(sc.Text(), "%d %d", &a, &b)
		res = append(res, [2]int{a, b})
	}
	if len(res) != len(inputs) {
		return nil, fmt.Errorf("helper answered %d of %d", len(res), len(inputs))
	}
	return res, nil
}

// ============================================================ function-level cases

func showErr(s string, err error) string {
	if err != nil {
		return "err"
	}
	return hx(s)
}

func b01(b bool) string {
	if b {
		return "1"
	}
	return "0"
}

// strImplLine: what the x/mod functions (and, through the helper, isPseudoVersion / allHex) say about s.
func strImplLine(s string, bits *[2]int) string {
	ep, e1 := module.EscapePath(s)
	up, e2 := module.UnescapePath(s)
	ev, e3 := module.EscapeVersion(s)
	uv, e4 := module.UnescapeVersion(s)
	pre, pm, ok := module.SplitPathVersion(s)
	line := "EP=" + showErr(ep, e1) + " UP=" + showErr(up, e2) + " EV=" + showErr(ev, e3) + " UV=" + showErr(uv, e4) +
		" CP=" + b01(module.CheckPath(s) == nil) + " SPV=" + hx(pre) + "," + hx(pm) + "," + b01(ok) +
		" SV=" + b01(semver.IsValid(s)) + " MJ=" + hx(semver.Major(s)) + " BD=" + hx(semver.Build(s))
	ref, _ := refPseudo(s)
	if bits != nil {
		line += fmt.Sprintf(" PS=%d PR=%s AH=%d", bits[0], b01(ref), bits[1])
	} else {
		line += " PR=" + b01(ref)
	}
	return line
}

// modelStrLine drops the fields the implementation side cannot produce.
func modelStrLine(line string, haveBits bool) string {
	fs := strings.Fields(line)
	var keep []string
	for _, f := range fs {
		if strings.HasPrefix(f, "DB=") || (!haveBits && (strings.HasPrefix(f, "PS=") || strings.HasPrefix(f, "AH="))) {
			continue
		}
		keep = append(keep, f)
	}
	return strings.Join(keep, " ")
}

func enumStrings(alpha []byte, maxLen int, f func([]byte)) {
	buf := make([]byte, 0, maxLen)
	var rec func()
	rec = func() {
		f(buf)
		if len(buf) == maxLen {
			return
		}
		for _, c := range alpha {
			buf = append(buf, c)
			rec()
			buf = buf[:len(buf)-1]
		}
	}
	rec()
}

func mutate(r *rand.Rand, s string) string {
	b := []byte(s)
	if len(b) == 0 {
		return s
	}
	const chars = "aAzZ09!_-./~+ vV@\x00\x7f\x80é"
	switch r.Intn(4) {
	case 0:
		b[r.Intn(len(b))] = chars[r.Intn(len(chars))]
	case 1:
		i := r.Intn(len(b) + 1)
		b = append(b[:i], append([]byte{chars[r.Intn(len(chars))]}, b[i:]...)...)
	case 2:
		i := r.Intn(len(b))
		b = append(b[:i], b[i+1:]...)
	default:
		i := r.Intn(len(b))
		if 'a' <= b[i] && b[i] <= 'z' {
			b[i] -= 32
		} else if 'A' <= b[i] && b[i] <= 'Z' {
			b[i] += 32
		}
	}
	return string(b)
}

// ============================================================ the run

func runProxy(tier string, seed int64, model string, replay string) *corr.Result {
	res := corr.NewResult("proxy", tier, seed)
	log.SetOutput(io.Discard) // the server logs every 404
	r := rand.New(rand.NewSource(seed))
	repo := os.Getenv("VERIF_REPO")
	if repo == "" {
		repo = "/repo"
	}
	thorough := tier == "thorough"

	var cases []string     // model lines
	var implLines []string // expected answers from the implementation
	var post []func(modelLine string) string

	// ------------------------------------------------------------ function-level cases
	var strInputs [][]byte
	var pairInputs [][2]string
	if replay == "" || strings.HasPrefix(replay, "str ") || strings.HasPrefix(replay, "pair ") {
		seen := map[string]bool{}
		addStr := func(b []byte) {
			if !seen[string(b)] {
				seen[string(b)] = true
				strInputs = append(strInputs, append([]byte{}, b...))
			}
		}
		if f := strings.Fields(replay); len(f) == 2 && f[0] == "str" {
			addStr(corr.Unhx(f[1]))
		} else if len(f) == 3 && f[0] == "pair" {
			pairInputs = append(pairInputs, [2]string{string(corr.Unhx(f[1])), string(corr.Unhx(f[2]))})
		} else {
			l1, l2, nmut := 4, 5, 6000
			if thorough {
				l1, l2, nmut = 5, 7, 80000
			}
			enumStrings([]byte("aA!/.v10-_~"), l1, addStr)
			enumStrings([]byte("v10.-+a"), l2, addStr)
			enumStrings([]byte("09af/:`gAF"), 3, addStr) // the boundaries of allHex's ranges
			res.Exhaustive = true
			res.Extra["exhaustive_spaces"] = []string{fmt.Sprintf("all strings over %q up to length %d", "aA!/.v10-_~", l1), fmt.Sprintf("all strings over %q up to length %d (version shaped)", "v10.-+a", l2)}
			var pool []string
			pool = append(pool, hosts...)
			pool = append(pool, gopkgs...)
			pool = append(pool, badPaths...)
			for _, l := range [][]string{relVersions, preVersions, buildVersions, pseudoVersions, nearPseudoVersions, metaPseudoVersions, oddVersions} {
				pool = append(pool, l...)
			}
			for _, w := range []string{"con", "CON.x", "nul.txt", "com1", "lpt9.a", "a~1", "a~b1", "~1", "a~12.x", "x.", ".x", "..", "a..b", "-a", "abcdef", "0123456789abcdef", "ABCDEF", "", "example.com/x/v2", "example.com/x/v2.0", "example.com/x/v0", "example.com/v2", "a.b/v2", "gopkg.in/x.v01", "gopkg.in/v2", "gopkg.in/x.v2-unstable", "gopkg.in/x.v0-unstable"} {
				pool = append(pool, w)
			}
			for i := 0; i < 300; i++ {
				p := genPath(r)
				pool = append(pool, p, escapeIndep(p), strings.ReplaceAll(escapeIndep(p), "/", "_")+"_"+escapeIndep(genVersion(r, p)))
				pool = append(pool, genVersion(r, p))
			}
			for _, s := range pool {
				addStr([]byte(s))
			}
			for i := 0; i < nmut; i++ {
				s := pool[r.Intn(len(pool))]
				for k := r.Intn(3); k >= 0; k-- {
					s = mutate(r, s)
				}
				addStr([]byte(s))
			}
			npair := 4000
			if thorough {
				npair = 60000
			}
			allV := append(append(append(append(append([]string{}, relVersions...), preVersions...), buildVersions...), pseudoVersions...), oddVersions...)
			for i := 0; i < npair; i++ {
				switch i % 3 {
				case 0: // Check(path, version)
					p := genPath(r)
					if r.Intn(6) == 0 {
						p = badPaths[r.Intn(len(badPaths))]
					}
					v := genVersion(r, p)
					if r.Intn(4) == 0 {
						v = mutate(r, v)
					}
					pairInputs = append(pairInputs, [2]string{p, v})
				case 1: // Compare(v, w)
					a, b := allV[r.Intn(len(allV))], allV[r.Intn(len(allV))]
					if r.Intn(3) == 0 {
						a = mutate(r, a)
					}
					if r.Intn(3) == 0 {
						b = mutate(r, b)
					}
					pairInputs = append(pairInputs, [2]string{a, b})
				default:
					a := fmt.Sprintf("v%d.%d.%d", r.Intn(12), r.Intn(12), r.Intn(12))
					b := fmt.Sprintf("v%d.%d.%d", r.Intn(12), r.Intn(12), r.Intn(12))
					pres := []string{"", "-1", "-2", "-10", "-a", "-a.1", "-a.b", "-A", "-1.a", "-a-", "-0", "-rc.1", "-rc.10", "-rc.2"}
					pairInputs = append(pairInputs, [2]string{a + pres[r.Intn(len(pres))], b + pres[r.Intn(len(pres))]})
				}
			}
		}
	}
	bits, berr := [][2]int(nil), error(nil)
	if len(strInputs) > 0 {
		bits, berr = unexportedBits(repo, strInputs)
		if berr != nil {
			res.Observations = append(res.Observations, "isPseudoVersion/allHex not compared directly (helper unavailable: "+berr.Error()+"); they remain covered through the list endpoint and the commit-hash requests")
		}
	}
	nStrNontrivial := 0
	for i, s := range strInputs {
		var bp *[2]int
		if bits != nil {
			bp = &bits[i]
		}
		cases = append(cases, "str "+corr.Hx(s))
		line := strImplLine(string(s), bp)
		implLines = append(implLines, line)
		have := bits != nil
		post = append(post, func(m string) string { return modelStrLine(m, have) })
		if !strings.Contains(line, "EP=err UP=err EV=err UV=err") || strings.Contains(line, "SV=1") {
			nStrNontrivial++
		}
		// oracle: goproxytest's isPseudoVersion against the x/mod reference
		if ref, unclear := refPseudo(string(s)); bp != nil && !unclear {
			res.OracleChecked["C20"]++
			if ref {
				res.Distribution["str-cases-pseudo-versions"]++
			}
			if (bp[0] == 1) != ref {
				res.Violate("C20", "str "+corr.Hx(s), fmt.Sprintf("isPseudoVersion(%q) = %v but golang.org/x/mod/module.IsPseudoVersion = %v: the list endpoint %s it", s, bp[0] == 1, ref, map[bool]string{true: "would return", false: "would hide"}[ref]), "pseudo-differs-from-xmod")
			}
		}
	}
	for _, p := range pairInputs {
		cases = append(cases, "pair "+hx(p[0])+" "+hx(p[1]))
		implLines = append(implLines, "CK="+b01(module.Check(p[0], p[1]) == nil)+fmt.Sprintf(" CMP=%d", semver.Compare(p[0], p[1])))
		post = append(post, nil)
	}
	res.Distribution["str-cases"] = len(strInputs)
	res.Distribution["str-cases-some-codec-succeeds"] = nStrNontrivial
	res.Distribution["pair-cases"] = len(pairInputs)

	// ------------------------------------------------------------ scenarios
	type scn struct {
		es       []entry
		urls     []string
		out      runOut
		stored   map[[2]string]*storedMod
		line     string
		intended [][2]string
	}
	var scns []*scn
	runScenario := func(es0 []entry, gen func(dir string) [][2]string, urls0 []string, conc int) {
		dir, err := os.MkdirTemp("", "verif-proxy")
		must(err)
		defer os.RemoveAll(dir)
		var intended [][2]string
		if gen != nil {
			intended = gen(dir)
		} else {
			writeStore(dir, es0)
		}
		s := &scn{es: readStore(dir), intended: intended}
		s.stored = specStored(s.es)
		s.urls = urls0
		if s.urls == nil {
			s.urls = genURLs(r, s.es, s.stored, intended)
		}
		s.out = runServers(dir, s.urls, conc, r)
		hurls := make([]string, len(s.urls))
		for i, u := range s.urls {
			hurls[i] = hx(u)
		}
		us := "_"
		if len(hurls) > 0 {
			us = strings.Join(hurls, ",")
		}
		s.line = "scn " + encodeStore(s.es, r) + " " + shortsField(s.es) + " " + us
		scns = append(scns, s)
	}
	concCopies := 3
	if f := strings.Fields(replay); len(f) == 4 && f[0] == "scn" {
		var urls []string
		if f[3] != "_" {
			for _, h := range strings.Split(f[3], ",") {
				urls = append(urls, string(corr.Unhx(h)))
			}
		}
		runScenario(decodeStore(f[1]), nil, urls, concCopies)
	} else if replay == "" {
		// regression inputs of the aliasing / zip-cache-poisoning defect (fixed in /repo by 3b75cd6): always in the run
		ar := func(mod string) []byte {
			return []byte("-- .info --\n{\"Version\":\"v1.0.0\"}\n-- .mod --\nmodule " + mod + "\n-- go.mod --\nmodule " + mod + "\n-- x.go --\npackage x\n")
		}
		runScenario([]entry{{name: "example.com_a_b_v1.0.0.txt", data: ar("example.com/a/b")}}, nil,
			[]string{"/mod/example.com/a/@v/b_v1.0.0.zip", "/mod/example.com/a/b/@v/v1.0.0.zip", "/mod/example.com/a/@v/b_v1.0.0.info", "/mod/example.com/a/@v/list", "/mod/example.com/a/b/@v/list", "/mod/example.com/a/b/@v/v1.0.0.info", "/mod/example.com/a/b/@v/v1.0.0.mod"}, 0)
		runScenario([]entry{{name: "example.com_foo_bar_v1.0.0.txt", data: ar("example.com/foo_bar")}}, nil,
			[]string{"/mod/example.com/foo_bar/@v/list", "/mod/example.com/foo_bar/@v/v1.0.0.info", "/mod/example.com/foo_bar/@v/v1.0.0.zip", "/mod/example.com/foo/bar/@v/v1.0.0.zip", "/mod/example.com/foo/bar/@v/list", "/mod/example.com/foo/bar/@v/v1.0.0.info"}, 0)
		runScenario([]entry{{name: "example.com_a_b_v1.0.0.txt", data: ar("example.com/a/b")}}, nil,
			[]string{"/mod/example.com/a/@v/b_v1.0.0.zip", "/mod/example.com/a/b/@v/v1.0.0.zip", "/mod/example.com/a_b/@v/v1.0.0.zip", "/mod/example.com/a/b/@v/v1.0.0.info"}, 8)
		// every pseudo-version form next to real versions: list must name exactly the non-pseudo ones
		{
			var es []entry
			var urls []string
			for _, p := range []string{"example.com/pv", "example.com/pv/v2", "example.com/Pv/v3"} {
				_, pm, _ := module.SplitPathVersion(p)
				for _, v := range append(append(append([]string{"v1.0.0", "v1.2.3-rc-1", "v2.0.0", "v3.1.0", "v2.5.0+incompatible"}, pseudoVersions...), nearPseudoVersions...), metaPseudoVersions[0]) {
					if module.CheckPathMajor(v, pm) != nil && v != "v2.0.0" {
						continue
					}
					base := strings.ReplaceAll(escapeIndep(p), "/", "_") + "_" + escapeIndep(v)
					es = append(es, entry{name: base + ".txt", data: []byte("-- .info --\n{\"Version\":\"" + v + "\"}\n-- .mod --\nmodule " + p + "\n-- go.mod --\nmodule " + p + "\n")})
					urls = append(urls, "/mod/"+escapeIndep(p)+"/@v/"+escapeIndep(v)+".info")
				}
				urls = append(urls, "/mod/"+escapeIndep(p)+"/@v/list")
			}
			runScenario(es, nil, urls, 2)
		}
		// a member name longer than 65535 bytes: zip.Writer.Create fails, the error is cached and served as 500
		runScenario([]entry{{name: "example.com_long_v1.0.0.txt", data: append(ar("example.com/long"), []byte("-- "+strings.Repeat("n", 70000)+" --\nx\n")...)}}, nil,
			[]string{"/mod/example.com/long/@v/v1.0.0.zip", "/mod/example.com/long/@v/v1.0.0.info", "/mod/example.com/long/@v/v1.0.0.zip", "/mod/example.com/long/@v/list"}, 4)
		// the fixture of /repo's own test
		if fes := readStore(filepath.Join(repo, "goproxytest", "testdata", "mod")); len(fes) > 0 {
			runScenario(fes, nil, nil, concCopies)
		}
		n := 150
		if thorough {
			n = 4000
		}
		for i := 0; i < n; i++ {
			allowBad := i%5 == 4
			runScenario(nil, func(dir string) [][2]string { return genDir(r, dir, allowBad) }, nil, concCopies)
		}
	}
	if replay == "" {
		ne2e := 2
		if thorough {
			ne2e = 8
		}
		e2eGoCommand(res, ne2e)
	}
	for _, s := range scns {
		cases = append(cases, s.line)
		if s.out.startErr != nil {
			implLines = append(implLines, "ML=err")
			post = append(post, nil)
			continue
		}
		parts := make([]string, len(s.urls))
		for i, u := range s.urls {
			parts[i] = showResp(u, s.out.seq[i])
		}
		implLines = append(implLines, "R="+strings.Join(parts, ";"))
		// the implementation's modList is not observable: keep only the responses of the model line
		post = append(post, func(m string) string {
			if i := strings.Index(m, " R="); i >= 0 && strings.HasPrefix(m, "ML=") {
				return m[i+1:]
			}
			return m
		})
	}

	modelOut, err := mdl.Run(model, nil, cases, 0)
	if err != nil {
		res.Observations = append(res.Observations, "model driver error: "+err.Error())
		res.Disagree("<driver>", "", err.Error())
		return res
	}
	for i := range cases {
		m := modelOut[i]
		if post[i] != nil {
			m = post[i](m)
		}
		if m != implLines[i] {
			c := cases[i]
			if strings.HasPrefix(c, "scn ") {
				// point at the first differing request
				ms, is := strings.Split(strings.TrimPrefix(m, "R="), ";"), strings.Split(strings.TrimPrefix(implLines[i], "R="), ";")
				detail := ""
				for k := 0; k < len(ms) && k < len(is); k++ {
					if ms[k] != is[k] {
						f := strings.Fields(c)
						detail = fmt.Sprintf("request #%d %q: impl %s model %s", k, string(corr.Unhx(strings.Split(f[3], ",")[k])), is[k], ms[k])
						break
					}
				}
				res.Disagree(c, trunc(implLines[i])+" | "+detail, trunc(m))
			} else {
				res.Disagree(c, implLines[i], m)
			}
		}
	}

	// ------------------------------------------------------------ oracle + concurrency
	served := 0
	reqs := 0
	dupLists := 0
	for _, s := range scns {
		res.Distribution["scenarios"]++
		if s.out.startErr != nil {
			res.Distribution["scenarios-NewServer-error"]++
			continue
		}
		for k, sm := range s.stored {
			res.Distribution["stored-modules"]++
			if len(sm.contents) > 1 {
				res.Distribution["stored-modules-several-layouts"]++
			}
			if k[0] != strings.ToLower(k[0]) || k[1] != strings.ToLower(k[1]) {
				res.Distribution["stored-with-upper-case"]++
			}
			switch {
			case module.IsPseudoVersion(k[1]):
				res.Distribution["stored-version-pseudo"]++
			case module.Check(k[0], k[1]) == nil:
				res.Distribution["stored-version-valid"]++
			default:
				res.Distribution["stored-version-invalid-for-path"]++
			}
		}
		for _, m := range s.intended {
			if s.stored[m] == nil {
				res.Distribution["intended-modules-aliased-or-undecodable (path or version with '_')"]++
			}
		}
		for _, e := range s.es {
			switch {
			case e.isDir:
				res.Distribution["layout-dir"]++
			case strings.HasSuffix(e.name, ".txtar"):
				res.Distribution["layout-txtar"]++
			case strings.HasSuffix(e.name, ".txt"):
				res.Distribution["layout-txt"]++
			}
		}
		seenURL := map[string]bool{}
		for i, u := range s.urls {
			rp := s.out.seq[i]
			reqs++
			res.Distribution[fmt.Sprintf("status-%d", rp.status)]++
			if !seenURL[u] {
				seenURL[u] = true
				if rp.status == 200 {
					served++
					switch {
					case strings.HasSuffix(u, "/@v/list"):
						res.Distribution["served-list"]++
					case strings.HasSuffix(u, ".zip"):
						res.Distribution["served-zip"]++
					default:
						res.Distribution["served-info-or-mod"]++
					}
					if i := strings.LastIndex(u, "/@v/"); i >= 0 && strings.Contains(u[i:], ".") && isAllHexIndep(u[i+4:strings.LastIndex(u, ".")]) {
						res.Distribution["served-commit-hash-query"]++
					}
				}
			}
			// replayable input: the directory and the requests up to this one (responses may depend on the history)
			input := "scn " + encodeStore(s.es, rand.New(rand.NewSource(1))) + " " + shortsField(s.es) + " " + strings.Join(hurlsOf(s.urls[:i+1]), ",")
			class, what, checked := oracle(s.es, s.stored, u, rp)
			if checked {
				res.OracleChecked["C20"]++
			}
			if class != "" {
				res.Violate("C20", input, what, class)
			}
			if rp.status == 200 && strings.HasSuffix(u, "/@v/list") {
				ls := strings.Split(strings.TrimSuffix(string(rp.body), "\n"), "\n")
				sort.Strings(ls)
				for k := 1; k < len(ls); k++ {
					if ls[k] == ls[k-1] {
						dupLists++
						break
					}
				}
			}
			// concurrent pass: every response for this URL must be byte-identical to the sequential one
			for _, c := range s.out.conc[u] {
				res.OracleChecked["C20"]++
				if c.status != rp.status || !bytes.Equal(c.body, rp.body) {
					res.Violate("C20", input, fmt.Sprintf("%s: a concurrent request got status %d / %d bytes, the sequential one status %d / %d bytes", u, c.status, len(c.body), rp.status, len(rp.body)), "concurrent-differs")
					break
				}
			}
		}
		// repeated requests inside the sequential pass must agree too
		first := map[string]resp{}
		for i, u := range s.urls {
			if f, ok := first[u]; ok {
				if f.status != s.out.seq[i].status || !bytes.Equal(f.body, s.out.seq[i].body) {
					res.Violate("C20", "scn "+encodeStore(s.es, rand.New(rand.NewSource(1)))+" "+shortsField(s.es)+" "+hx(u)+","+hx(u), u+": repeated request differs", "repeat-differs")
				}
			} else {
				first[u] = s.out.seq[i]
			}
		}
	}
	res.Distribution["requests-sequential"] = reqs
	res.Distribution["distinct-requests-served-200"] = served
	if dupLists > 0 {
		res.Observations = append(res.Observations, fmt.Sprintf("%d list responses name a version twice: the generator stores some module versions in two layouts at once (x.txt and x.txtar / directory) to exercise the lookup order; readModList then records the version once per entry. The oracle compares the list as a set.", dupLists))
	}
	res.Evaluations = len(cases) - len(scns) + reqs
	res.DistinctNontrivial = served + nStrNontrivial
	res.Rule = "distinct (generated directory, URL) requests that the real server answers with 200 (content served: list, .info, .mod or zip), plus distinct strings on which at least one of EscapePath/UnescapePath/EscapeVersion/UnescapeVersion succeeds or that are valid semantic versions; every request is answered by the real goproxytest server over loopback HTTP and by the Lean model (zips compared as ordered (name, bytes) lists), every string by x/mod and the model"
	for _, i := range []int{0, len(strInputs) / 2, len(strInputs) + len(pairInputs)/2, len(cases) - len(scns), len(cases) - 1} {
		if i >= 0 && i < len(cases) {
			res.Samples = append(res.Samples, map[string]string{"case": trunc(cases[i]), "model": trunc(modelOut[i])})
		}
	}
	return res
}

func hurlsOf(urls []string) []string {
	out := make([]string, len(urls))
	for i, u := range urls {
		out[i] = hx(u)
	}
	return out
}

func trunc(s string) string {
	if len(s) > 1500 {
		return s[:1500] + "…"
	}
	return s
}

// ============================================================ end to end: the go command as client

// e2eGoCommand serves a directory of well-formed modules and lets the real go command download them
// (GOPROXY = the server; offline otherwise).  Environment problems are recorded as observations;
// only a content difference is a violation.
func e2eGoCommand(res *corr.Result, n int) {
	dir, err := os.MkdirTemp("", "verif-proxy-e2e")
	must(err)
	defer func() {
		filepath.WalkDir(dir, func(p string, d os.DirEntry, err error) error {
			if err == nil {
				os.Chmod(p, 0o777)
			}
			return nil
		})
		os.RemoveAll(dir)
	}()
	mods := filepath.Join(dir, "mods")
	must(os.MkdirAll(mods, 0o777))
	type emod struct {
		path, vers, layout string
		files              []afile
	}
	mk := func(path, vers, layout, pkg string) emod {
		gomod := "module " + path + "\n"
		return emod{path, vers, layout, []afile{
			{".info", []byte(fmt.Sprintf(`{"Version":%q,"Time":"2018-02-14T00:45:20Z"}`+"\n", vers))},
			{".mod", []byte(gomod)},
			{"go.mod", []byte(gomod)},
			{pkg + ".go", []byte("package " + pkg + "\n\n// " + vers + "\n")},
			{"sub/y.go", []byte("package sub\n")},
			{".hidden", []byte("must not be in the zip\n")},
			{"sub/.keep", []byte("")},
		}}
	}
	all := []emod{
		mk("example.com/e2e/Foo", "v1.0.0", "txtar", "foo"),
		mk("example.com/e2e/Foo", "v1.1.0", "dir", "foo"),
		mk("example.com/e2e/Foo", "v1.1.1-0.20190101000000-abcdef123456", "txt", "foo"),
		mk("example.com/e2e/Foo", "v2.0.0+incompatible", "txt", "foo"),
		mk("example.com/e2e/Foo", "v1.2.0-RC1", "txtar", "foo"),
		mk("example.com/e2e/bar/v2", "v2.3.4", "dir", "bar"),
		mk("example.com/e2e/bar/v2", "v2.0.0", "txt", "bar"),
		mk("gopkg.in/e2e.v3", "v3.0.1", "txtar", "e2e"),
	}
	r := rand.New(rand.NewSource(1))
	for _, m := range all {
		base := strings.ReplaceAll(escapeIndep(m.path), "/", "_") + "_" + escapeIndep(m.vers)
		switch m.layout {
		case "dir":
			root := filepath.Join(mods, base)
			for _, f := range m.files {
				p := filepath.Join(root, filepath.FromSlash(f.name))
				must(os.MkdirAll(filepath.Dir(p), 0o777))
				must(os.WriteFile(p, f.data, 0o666))
			}
		default:
			a := &xtxtar.Archive{}
			for _, f := range m.files {
				a.Files = append(a.Files, xtxtar.File{Name: f.name, Data: f.data})
			}
			must(os.WriteFile(filepath.Join(mods, base+"."+m.layout), xtxtar.Format(a), 0o666))
		}
	}
	_ = r
	srv, err := goproxytest.NewServer(mods, "")
	if err != nil {
		res.Violate("C20", "e2e", "NewServer fails on well-formed modules: "+err.Error(), "e2e-go-command")
		return
	}
	defer srv.Close()
	work := filepath.Join(dir, "work")
	must(os.MkdirAll(work, 0o777))
	must(os.WriteFile(filepath.Join(work, "go.mod"), []byte("module verif.test/e2e\n\ngo 1.21\n"), 0o666))
	env := []string{"GOPROXY=" + srv.URL, "GONOSUMDB=*", "GONOSUMCHECK=1", "GOSUMDB=off", "GOFLAGS=-mod=mod", "GOTOOLCHAIN=local", "GO111MODULE=on",
		"GOPATH=" + filepath.Join(dir, "gopath"), "GOMODCACHE=" + filepath.Join(dir, "modcache"), "GOCACHE=" + filepath.Join(dir, "gocache"),
		"HOME=" + dir, "PATH=" + os.Getenv("PATH"), "GOROOT=" + os.Getenv("GOROOT"), "GONOPROXY=", "GOPRIVATE=", "GOINSECURE=", "GOVCS=*:off", "GOWORK=off"}
	gocmd := func(args ...string) ([]byte, []byte, error) {
		cmd := exec.Command("go", args...)
		cmd.Dir = work
		cmd.Env = env
		var so, se bytes.Buffer
		cmd.Stdout, cmd.Stderr = &so, &se
		err := cmd.Run()
		return so.Bytes(), se.Bytes(), err
	}
	done := 0
	for i, m := range all {
		if i >= n {
			break
		}
		out, se, err := gocmd("mod", "download", "-json", m.path+"@"+m.vers)
		var dl struct{ Path, Version, Error, Info, GoMod, Zip, Dir string }
		if jerr := json.Unmarshal(out, &dl); jerr != nil {
			res.Observations = append(res.Observations, fmt.Sprintf("end-to-end go command pass skipped: go mod download gave no JSON (%v; %s)", err, trunc(string(se))))
			return
		}
		what := ""
		switch {
		case dl.Error != "":
			what = "go mod download " + m.path + "@" + m.vers + ": " + dl.Error
		case dl.Version != m.vers:
			what = "downloaded version " + dl.Version + ", want " + m.vers
		default:
			if d, err := os.ReadFile(dl.GoMod); err != nil || !bytes.Equal(d, m.files[1].data) {
				what = "downloaded .mod differs from the stored one"
			}
			var got []afile
			filepath.WalkDir(dl.Dir, func(p string, d os.DirEntry, err error) error {
				if err == nil && !d.IsDir() {
					b, _ := os.ReadFile(p)
					rel, _ := filepath.Rel(dl.Dir, p)
					got = append(got, afile{filepath.ToSlash(rel), b})
				}
				return nil
			})
			var want []afile
			for _, f := range m.files {
				if !strings.HasPrefix(f.name, ".") {
					want = append(want, f)
				}
			}
			if !eqStrings(sortedMembers(got), sortedMembers(want)) {
				what = fmt.Sprintf("extracted module %s@%s has files %d, want exactly the %d stored non-dot files with identical contents", m.path, m.vers, len(got), len(want))
			}
		}
		res.OracleChecked["C20"]++
		if what != "" {
			res.Violate("C20", "e2e "+m.path+"@"+m.vers, what, "e2e-go-command")
		}
		done++
	}
	// the version list as the go command sees it
	out, se, err := gocmd("list", "-m", "-versions", "-json", "example.com/e2e/Foo@v1.0.0")
	var lm struct {
		Versions []string
		Error    *struct{ Err string }
	}
	if jerr := json.Unmarshal(out, &lm); jerr != nil || err != nil {
		res.Observations = append(res.Observations, fmt.Sprintf("end-to-end go list -m -versions skipped (%v; %s)", err, trunc(string(se))))
	} else {
		res.OracleChecked["C20"]++
		want := []string{"v1.0.0", "v1.1.0", "v1.2.0-RC1", "v2.0.0+incompatible"}
		got := append([]string{}, lm.Versions...)
		sort.Strings(got)
		if !eqStrings(got, want) {
			res.Violate("C20", "e2e list example.com/e2e/Foo", fmt.Sprintf("go list -m -versions = %v, want %v (valid non-pseudo versions)", got, want), "e2e-go-command")
		}
		done++
	}
	res.Distribution["e2e-go-command-checks"] = done
}
