// Package mdl runs a Lean model driver (one request line in, one result line out)
// over a list of cases, split over several driver processes.
package mdl

import (
	"bufio"
	"fmt"
	"io"
	"os/exec"
	"runtime"
	"strings"
	"sync"
)

// Run feeds cases (one per line, no newlines inside) to `workers` copies of the
// driver and returns the result lines in the same order.
func Run(driver string, args []string, cases []string, workers int) ([]string, error) {
	if workers <= 0 {
		workers = runtime.NumCPU()
	}
	if workers > len(cases) {
		workers = len(cases)
	}
	if workers == 0 {
		return nil, nil
	}
	out := make([]string, len(cases))
	errs := make([]error, workers)
	var wg sync.WaitGroup
	chunk := (len(cases) + workers - 1) / workers
	for w := 0; w < workers; w++ {
		lo, hi := w*chunk, (w+1)*chunk
		if hi > len(cases) {
			hi = len(cases)
		}
		if lo >= hi {
			continue
		}
		wg.Add(1)
		go func(w, lo, hi int) {
			defer wg.Done()
			errs[w] = runOne(driver, args, cases[lo:hi], out[lo:hi])
		}(w, lo, hi)
	}
	wg.Wait()
	for _, e := range errs {
		if e != nil {
			return out, e
		}
	}
	return out, nil
}

func runOne(driver string, args []string, cases []string, out []string) error {
	cmd := exec.Command(driver, args...)
	stdin, err := cmd.StdinPipe()
	if err != nil {
		return err
	}
	stdout, err := cmd.StdoutPipe()
	if err != nil {
		return err
	}
	var stderr strings.Builder
	cmd.Stderr = &stderr
	if err := cmd.Start(); err != nil {
		return err
	}
	go func() {
		w := bufio.NewWriterSize(stdin, 1<<16)
		for _, c := range cases {
			w.WriteString(c)
			w.WriteByte('\n')
		}
		w.Flush()
		stdin.Close()
	}()
	r := bufio.NewReaderSize(stdout, 1<<16)
	n := 0
	for n < len(cases) {
		line, err := r.ReadString('\n')
		if err != nil {
			if err == io.EOF && line == "" {
				break
			}
			if err != io.EOF {
				cmd.Wait()
				return fmt.Errorf("model driver read: %v (stderr: %s)", err, stderr.String())
			}
		}
		out[n] = strings.TrimRight(line, "\r\n")
		n++
	}
	werr := cmd.Wait()
	if n != len(cases) {
		return fmt.Errorf("model driver answered %d of %d cases (exit: %v, stderr: %s)", n, len(cases), werr, stderr.String())
	}
	return nil
}
