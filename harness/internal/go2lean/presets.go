package go2lean

// Presets: per-package translation configurations (library meanings, globals, structs, loop budgets).

func bytesLib() map[string]LibFn {
	return map[string]LibFn{
		"bytes.HasPrefix":    {Lean: "GoLib.hasPrefix", Ret: TBool},
		"bytes.HasSuffix":    {Lean: "GoLib.hasSuffix", Ret: TBool},
		"strings.HasPrefix":  {Lean: "GoLib.hasPrefix", Ret: TBool},
		"strings.HasSuffix":  {Lean: "GoLib.hasSuffix", Ret: TBool},
		"bytes.IndexByte":    {Lean: "GoLib.indexByte", Ret: TInt},
		"strings.IndexByte":  {Lean: "GoLib.indexByte", Ret: TInt},
		"bytes.Index":        {Lean: "GoLib.index", Ret: TInt},
		"strings.Index":      {Lean: "GoLib.index", Ret: TInt},
		"bytes.TrimSuffix":   {Lean: "GoLib.trimSuffix", Ret: TBytes},
		"bytes.TrimPrefix":   {Lean: "GoLib.trimPrefix", Ret: TBytes},
		"strings.TrimSuffix": {Lean: "GoLib.trimSuffix", Ret: TBytes},
		"strings.TrimPrefix": {Lean: "GoLib.trimPrefix", Ret: TBytes},
		"bytes.Replace":      {Lean: "GoLib.replaceAll", Ret: TBytes, FixedArgs: []string{"", "", "", "-1"}},
		"bytes.ReplaceAll":   {Lean: "GoLib.replaceAll", Ret: TBytes},
		"bytes.Equal":        {Lean: "BEq.beq", Ret: TBool},
	}
}

var Presets = map[string]*Config{
	"txtar": func() *Config {
		lib := bytesLib()
		lib["strings.TrimSpace"] = LibFn{Lean: "GIV.Txtar.trimSpace", Ret: TBytes}
		lib["bytes.TrimSpace"] = LibFn{Lean: "GIV.Txtar.trimSpace", Ret: TBytes}
		lib["utf8.Valid"] = LibFn{Lean: "GIV.Txtar.utf8Valid", Ret: TBool}
		file := &Type{K: KStruct, Name: "GoFile"}
		return &Config{
			Lib: lib,
			Globals: map[string]Global{
				"marker":        {Lean: "GIV.Gen.Txtar.marker", T: TBytes},
				"markerEnd":     {Lean: "GIV.Gen.Txtar.markerEnd", T: TBytes},
				"newlineMarker": {Lean: "GIV.Gen.Txtar.newlineMarker", T: TBytes},
			},
			Structs: map[string]*Struct{
				"File":    {Lean: "GoFile", Fields: []Field{{"Name", "Name", TBytes}, {"Data", "Data", TBytes}}},
				"Archive": {Lean: "GoArchive", Fields: []Field{{"Comment", "Comment", TBytes}, {"Files", "Files", &Type{K: KList, Elem: file}}}},
			},
			Fuel: map[string]string{"findFileMarker#1": "data.length + 1"},
		}
	}(),
	// golang.org/x/tools/txtar/archive.go (the module-cache copy of the version /repo's go.mod requires): the
	// REFERENCE Format / Parse / findFileMarker / isMarker / fixNL.  No configured globals: the package-level
	// `marker`, `markerEnd`, `newlineMarker` are inlined as the literals the library source gives.  strings.TrimSpace
	// is the same modelled function as in preset "txtar"; Format's bytes.Buffer / fmt.Fprintf are translator rules.
	"xtxtar": func() *Config {
		lib := bytesLib()
		lib["strings.TrimSpace"] = LibFn{Lean: "GIV.Txtar.trimSpace", Ret: TBytes}
		file := &Type{K: KStruct, Name: "GoFile"}
		return &Config{
			Lib:     lib,
			Globals: map[string]Global{},
			Structs: map[string]*Struct{
				"File":    {Lean: "GoFile", Fields: []Field{{"Name", "Name", TBytes}, {"Data", "Data", TBytes}}},
				"Archive": {Lean: "GoArchive", Fields: []Field{{"Comment", "Comment", TBytes}, {"Files", "Files", &Type{K: KList, Elem: file}}}},
			},
			Fuel: map[string]string{"findFileMarker#1": "data.length + 1"},
		}
	}(),
	"script": func() *Config {
		lib := bytesLib()
		lib["ts.expand"] = LibFn{Lean: "GIV.Script.expand env", Ret: TBytes}
		lib["ts.Getenv"] = LibFn{Lean: "GIV.Script.getenv env", Ret: TStr}
		lib["regexp.QuoteMeta"] = LibFn{Lean: "GIV.Script.quoteMeta", Ret: TStr}
		return &Config{
			Lib:          lib,
			Globals:      map[string]Global{},
			Structs:      map[string]*Struct{},
			Fuel:         map[string]string{"parse#1": "line.length + 1"},
			ExtraParams:  []Param{{Lean: "env", Type: "GIV.Script.Env"}},
			Abort:        map[string]bool{"ts.Fatalf": true},
			IgnoreAssign: map[string]bool{"ts.line": true},
			Rename:       map[string]string{"parse": "parse", "expand_func1": "expandMapping"},
		}
	}(),
	"imports": func() *Config {
		lib := bytesLib()
		lib["bytes.TrimSpace"] = LibFn{Lean: "GIV.Build.trimSpace", Ret: TBytes}
		lib["strings.TrimSpace"] = LibFn{Lean: "GIV.Build.trimSpace", Ret: TStr}
		lib["strings.Fields"] = LibFn{Lean: "GIV.Build.fields", Ret: &Type{K: KList, Elem: TStr}}
		lib["strings.Split"] = LibFn{Lean: "GIV.Build.splitOn 95", Ret: &Type{K: KList, Elem: TStr}, FixedArgs: []string{"", "\"_\""}}
		lib["unicode.IsLetter"] = LibFn{Lean: "isLetter", Ret: TBool}
		lib["unicode.IsDigit"] = LibFn{Lean: "isDigit", Ret: TBool}
		return &Config{
			Lib: lib,
			Globals: map[string]Global{
				"KnownOS":   {Lean: "GIV.Build.knownOS", T: TMap},
				"KnownArch": {Lean: "GIV.Build.knownArch", T: TMap},
				"UnixOS":    {Lean: "GIV.Build.unixOS", T: TMap},
			},
			Structs:     map[string]*Struct{},
			Fuel:        map[string]string{"matchTags#rec": "name.length + 1"},
			ExtraParams: []Param{{Lean: "isLetter", Type: "Int → Bool"}, {Lean: "isDigit", Type: "Int → Bool"}},
			RuneFn:      "GIV.Build.runes",
		}
	}(),
	// imports/read.go (C18): the importReader byte machine.  The structure is threaded through its pointer-receiver
	// methods, `imports *[]string` is an in-out parameter, io.Reader / *bufio.Reader are the remaining input
	// (GIV/GoLibReader.lean; no I/O error other than io.EOF), errSyntax / errNUL / io.EOF are distinct messages.
	// The loop budgets are those of the hand-written model's loops (GIV/Model/ReadImports.lean) plus one — the model
	// still evaluates the loop condition when its budget is 0, the translation does not — so that the equivalence
	// proofs run in lock step; that they suffice is the model's termination theorem (GIV.ReadImports.scan_not_stuck).
	"importsread": func() *Config {
		return &Config{
			Lib: bytesLib(),
			Globals: map[string]Global{
				"utf8.RuneSelf": {Lean: "128", T: TInt},
				"io.EOF":        {Lean: "GoLib.ioEOF", T: TError},
			},
			Structs: map[string]*Struct{
				"importReader": {Lean: "GoImportReader", Fields: []Field{
					{"b", "b", &Type{K: KReader, Name: "*bufio.Reader"}}, {"buf", "buf", TBytes}, {"peek", "peek", TByte},
					{"err", "err", TError}, {"eof", "eof", TBool}, {"nerr", "nerr", TInt}}},
			},
			Fuel: map[string]string{
				"peekByte#1": "r.b.length + 3", "peekByte#2": "r.b.length + 2", "peekByte#3": "r.b.length + 3",
				"readIdent#1": "r.b.length + 3", "readString#1": "r.b.length + 3", "readString#2": "r.b.length + 3",
				"ReadImports#1": "b.length + 3", "ReadImports#2": "r.b.length + 2", "ReadImports#3": "r.b.length + 3",
			},
			Threaded:  map[string]bool{"importReader": true},
			PtrParams: true,
			Readers:   true,
			Sentinels: map[string]string{"io.EOF": "EOF"},
		}
	}(),
	"diff": func() *Config {
		lib := bytesLib()
		lib["strings.SplitAfter"] = LibFn{Lean: "GIV.Diff.splitAfterNL", Ret: &Type{K: KList, Elem: TStr}, FixedArgs: []string{"", "\"\\n\""}}
		return &Config{
			Lib:     lib,
			Globals: map[string]Global{},
			Structs: map[string]*Struct{
				"pair": {Lean: "GoPair", Fields: []Field{{"x", "x", TInt}, {"y", "y", TInt}}},
			},
			// tgs#8: the backward scan `for i := n - 1; i >= 0; i--` (n iterations and the final test)
			Fuel:        map[string]string{"tgs#8": "n.toNat + 1"},
			DirectRange: true,
		}
	}(),
	// diff/diff.go, func Diff (module GIV/Gen/DiffMainGo.lean, which imports GIV/Gen/DiffGo.lean): `lines` and `tgs` are
	// the translated definitions of that module, `pair` is its structure GoPair (checked against the file, not emitted
	// again).  Diff#2 / Diff#3: the two match-expanding loops move start.x down from / end.x up to at most len(x).
	"diffmain": func() *Config {
		lib := bytesLib()
		pair := &Type{K: KStruct, Name: "GoPair"}
		lib["lines"] = LibFn{Lean: "GIV.Go.Diff.lines", Ret: &Type{K: KList, Elem: TStr}, Option: true}
		lib["tgs"] = LibFn{Lean: "GIV.Go.Diff.tgs", Ret: &Type{K: KList, Elem: pair}, Option: true}
		return &Config{
			Lib:     lib,
			Globals: map[string]Global{},
			Structs: map[string]*Struct{
				"pair": {Lean: "GoPair", Fields: []Field{{"x", "x", TInt}, {"y", "y", TInt}}},
			},
			Fuel:         map[string]string{"Diff#2": "x.length + 1", "Diff#3": "x.length + 1"},
			NoStructDefs: true,
			DirectRange:  true,
		}
	}(),
	// the standard library's os/env.go (Expand and its helpers): no library calls, default loop budgets
	"os": func() *Config {
		return &Config{Lib: map[string]LibFn{}, Globals: map[string]Global{}, Structs: map[string]*Struct{}, Fuel: map[string]string{}}
	}(),
	// golang.org/x/mod/semver/semver.go (the module-cache copy of the version /repo's go.mod requires):
	// no library calls, default loop budgets; `parsed` is the struct `parse` fills field by field
	"semver": func() *Config {
		return &Config{Lib: map[string]LibFn{}, Globals: map[string]Global{}, Fuel: map[string]string{},
			Structs: map[string]*Struct{
				"parsed": {Lean: "GoParsed", Fields: []Field{{"major", "major", TStr}, {"minor", "minor", TStr}, {"patch", "patch", TStr},
					{"short", "short", TStr}, {"prerelease", "prerelease", TStr}, {"build", "build", TStr}}},
			}}
	}(),
	// golang.org/x/mod/module/module.go (the module-cache copy of the version /repo's go.mod requires): the escape
	// codecs, CheckPath / checkPath / checkElem and the character classes, SplitPathVersion / splitGopkgIn,
	// CheckPathMajor / MatchPathMajor, Check.  Errors are opaque (only nil / non-nil is meaningful); the Unicode
	// tables the code consults (unicode.IsLetter, the case folding of strings.EqualFold) are the parameter
	// `u : GoLib.Unicode` of every definition; package semver is the translation GIV.Go.Semver (GIV/Gen/SemverGo.lean).
	"module": func() *Config {
		lib := bytesLib()
		lib["strings.Contains"] = LibFn{Lean: "GoLib.contains", Ret: TBool}
		lib["strings.Count"] = LibFn{Lean: "GoLib.count", Ret: TInt}
		lib["strings.ContainsRune"] = LibFn{Lean: "GoLib.containsRune", Ret: TBool}
		lib["strings.LastIndexByte"] = LibFn{Lean: "GoLib.lastIndexByte", Ret: TInt}
		lib["strings.EqualFold"] = LibFn{Lean: "u.equalFold", Ret: TBool}
		lib["unicode.IsLetter"] = LibFn{Lean: "u.isLetter", Ret: TBool}
		lib["utf8.ValidString"] = LibFn{Lean: "GoLib.utf8Valid", Ret: TBool}
		lib["semver.IsValid"] = LibFn{Lean: "GIV.Go.Semver.IsValid", Ret: TBool, Option: true}
		lib["semver.Major"] = LibFn{Lean: "GIV.Go.Semver.Major", Ret: TStr, Option: true}
		lib["semver.Build"] = LibFn{Lean: "GIV.Go.Semver.Build", Ret: TStr, Option: true}
		return &Config{
			Lib: lib,
			Globals: map[string]Global{
				"utf8.RuneSelf":  {Lean: "128", T: TInt},
				"utf8.RuneError": {Lean: "65533", T: TInt},
			},
			Structs:      map[string]*Struct{},
			Fuel:         map[string]string{},
			ExtraParams:  []Param{{Lean: "u", Type: "GoLib.Unicode"}},
			RuneFn:       "GoLib.runes",
			RuneIdxFn:    "GoLib.runesIdx",
			ErrorTypes:   map[string]bool{"InvalidPathError": true, "InvalidVersionError": true, "ModuleError": true},
			OpaqueErrors: true,
		}
	}(),
	// the standard library's internal/filepathlite (path.go + path_unix.go + path_nonwindows.go: filepath.Clean on Unix).
	// `lazybuf` is threaded through `append`; `index` and `string` never assign to their receiver (Config.ReadOnlyRecv);
	// the field `buf` is compared with nil (Option Bytes).  Clean#1 is the main loop (every iteration reads at least one
	// byte), Clean#2 the backtracking loop (out.w goes down), Clean#3 the element copy, Dir#1 the backward scan for the last separator.
	"filepath": func() *Config {
		lib := map[string]LibFn{
			"stringslite.HasPrefix": {Lean: "GoLib.hasPrefix", Ret: TBool},
			"stringslite.IndexByte": {Lean: "GoLib.indexByte", Ret: TInt},
		}
		return &Config{Lib: lib, Globals: map[string]Global{},
			Structs: map[string]*Struct{
				"lazybuf": {Lean: "GoLazybuf", Fields: []Field{{"path", "path", TStr}, {"buf", "buf", &Type{K: KNil, Elem: TBytes}},
					{"w", "w", TInt}, {"volAndPath", "volAndPath", TStr}, {"volLen", "volLen", TInt}}},
			},
			Fuel:         map[string]string{"Clean#1": "path.length + 1", "Clean#2": "path.length + 1", "Clean#3": "path.length + 1", "Dir#1": "path.length + 1"},
			Threaded:     map[string]bool{"lazybuf": true},
			ReadOnlyRecv: true,
			Rename:       map[string]string{"index": "lazybuf_index", "append": "lazybuf_append", "string": "lazybuf_string"},
		}
	}(),
	// txtar/archive.go, func isAbs: filepath.IsAbs is the translated GIV.Go.Filepath.IsAbs (GIV/Gen/FilepathGo.lean),
	// filepath.Separator the Unix constant '/'
	"txtarabs": func() *Config {
		lib := bytesLib()
		lib["filepath.IsAbs"] = LibFn{Lean: "GIV.Go.Filepath.IsAbs", Ret: TBool, Option: true}
		return &Config{Lib: lib, Globals: map[string]Global{"filepath.Separator": {Lean: "47", T: TInt}},
			Structs: map[string]*Struct{}, Fuel: map[string]string{}}
	}(),
	// path/filepath/path_unix.go, func join (filepath.Join(elem...) is join(elem)): Clean is the translated
	// GIV.Go.Filepath.Clean (filepath.Clean is filepathlite.Clean), strings.Join(·, string(Separator)) — only with this
	// separator argument, Separator = os.PathSeparator = '/' on Unix — is the model's joinSep (library meaning)
	"filepathjoin": func() *Config {
		lib := map[string]LibFn{
			"Clean":        {Lean: "GIV.Go.Filepath.Clean", Ret: TStr, Option: true},
			"strings.Join": {Lean: "GIV.Fsx.joinSep", Ret: TStr, FixedArgs: []string{"", "string(Separator)"}},
		}
		return &Config{Lib: lib, Globals: map[string]Global{"Separator": {Lean: "47", T: TInt}}, Structs: map[string]*Struct{}, Fuel: map[string]string{}}
	}(),
	// the index-entry parser cut out of (*Cache).get of cache/cache.go (harness/cmd/cache/fact.go: cacheParseSource).
	// LIBRARY MEANINGS (trusted, correspondence-tested; GIV/GoLibCache.lean): hex.Decode(buf[:], src) = the loop of
	// encoding/hex over the model's fromHexChar (what it stores, how many bytes, whether it fails; a panic when the
	// array is too short); strconv.ParseInt(s, 10, 64) = the model's parseInt 10 64 (value and nil, or 0 and an error).
	"cacheparse": func() *Config {
		lib := map[string]LibFn{
			"strconv.ParseInt": {Lean: "GoLib.strconvParseInt10_64", Ret: &Type{K: KTuple, Tup: []*Type{TInt, TError}}, FixedArgs: []string{"", "10", "64"}},
		}
		return &Config{Lib: lib, Globals: map[string]Global{}, Structs: map[string]*Struct{}, Fuel: map[string]string{},
			ByteArrays:   true,
			ArrayFill:    map[string]LibFn{"hex.Decode": {Lean: "GoLib.hexDecodeInto", Ret: &Type{K: KTuple, Tup: []*Type{TInt, TError}}}},
			OpaqueErrors: true,
		}
	}(),
	"proxy": func() *Config {
		return &Config{Lib: bytesLib(), Globals: map[string]Global{}, Structs: map[string]*Struct{}, Fuel: map[string]string{}}
	}(),
}
