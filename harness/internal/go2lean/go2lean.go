// Package go2lean translates a subset of Go — pure functions over []byte / string / int / byte /
// bool and small structs, with if / for / range / return / break / continue — into Lean 4
// definitions in the Option monad (none = run-time panic or exhausted loop budget).
//
// It is the "regenerated model" tie of the framework: the translation is redone from /repo's
// working tree on every check run, and hand-written theorems (GIV/Lemmas/*Go*.lean) prove the
// generated definitions equal to the index-form models the property theorems are about.  A source
// change then changes the generated definitions, and either the equivalence proof still goes
// through (a harmless rewrite) or a named obligation breaks.
//
// The translation is structural (continuation passing, first order):
//
//	statement sequence      nested `let` / monadic bind inside one `do` block
//	if (branch terminates)  `if c then T else <rest>`
//	if (falls through)      join on the tuple of variables assigned in the branches
//	if (mixed)              <rest> becomes a definition f_k<n>(all variables in scope); inside a loop body it is copied
//	                        into both branches (see the semver additions below)
//	for / for cond / 3-clause   f_loop<n> : fixed variables → fuel → modified variables → Option R,
//	                        what follows the loop becomes f_after<n>
//	for range over a slice  structural recursion over the list (no fuel)
//	x[i], x[a:b], make      checked (none on a Go panic); slices are checked against len, not cap
//	a && b, a || b          short-circuit preserved when b can panic
//
// Go `int` is Lean `Int`; string and []byte are both Bytes with nil = []; a nil test on a slice,
// goroutines, maps, closures, pointers that alias, defer (but see below) and everything else outside the subset
// make Translate return an error (the caller then emits its pinned copy and reports the anchor
// lost, so that the correspondence run decides).
//
// Additions made for the standard library's os.Expand (GOROOT/src/os/env.go):
//
//	f func(A, …) R (parameter)   an opaque total Lean function `f : A → … → R` (first-order A, R); a call
//	                        `f(x)` is the application `f x` and cannot panic; f is passed along to the loop
//	                        definitions like every other variable
//	switch                  an expression switch is the if-chain it abbreviates (desugarSwitch):
//	                        `switch { case c1, c2: A; case c3: B; default: D }` = if c1 || c2 {A} else if c3 {B} else {D},
//	                        `switch x { case 'a', 'b': A }` = if x == 'a' || x == 'b' {A}; the case expressions are
//	                        evaluated in source order with the short circuit of `||` (a case expression that can panic is
//	                        only reached when the earlier ones are false), `default` runs when none matches wherever it
//	                        is written, a tag other than an identifier or literal is evaluated once into a fresh variable;
//	                        `fallthrough`, an unlabelled `break` out of the switch and type switches are rejected
//	var x []T … x == nil    NIL-NESS.  nil and the empty slice are identified everywhere EXCEPT for a local variable that is
//	                        declared `var x []T` (optionally `= nil` / `= make(…)`) and compared with nil (`x == nil`, `x != nil`,
//	                        either operand order) somewhere in the function: such a variable has the Lean type `Option (List T)`,
//	                        none = nil, some d = a non-nil slice with contents d (GIV/GoLibNil.lean).  `x == nil` is
//	                        `Option.isNone x`; `x = nil` is none; `x = make(…)` and `x = []T{…}` are `some …` (never nil, also when
//	                        empty); `x = append(x, ys...)` / `append(x, y, …)` is `GoLib.nilAppend x ys` (a non-nil slice stays
//	                        non-nil, nil stays nil exactly when nothing is appended); `x = y` for another such variable copies
//	                        the Option; any other right-hand side (a slice expression, a call, a parameter: nil-ness unknown)
//	                        is rejected; every other use of x (`string(x)`, `len(x)`, `x[i]`, `x[a:b]`, `range x`, `x + …`, an
//	                        argument, a result) reads `GoLib.nilData x` (nil behaves like empty there).  A nil test on a parameter,
//	                        on a `:=` variable or on any slice expression is still rejected
//	make([]T, 0, c)         the empty non-nil slice (capacity is not observable: slices are checked against len); the panic on a
//	                        negative c is kept (`GoLib.make? z c` is evaluated and dropped); a non-zero length with a capacity is rejected
//	uint8, (string, int)    uint8 is byte (UInt8); several results are a Lean tuple, `a, b := f(x)` destructures it
//	for init; cond; post {} an empty body, and an assignment to the loop variable inside the body (`j += w`), need no rule of
//	                        their own: the loop variable is one of the modified variables of f_loop<n>
//
// Additions made for golang.org/x/mod/semver (semver.go of the x/mod version /repo's go.mod requires, read from
// the module cache; preset "semver"):
//
//	+x                      unary plus on an int or byte is its operand (`return +1` is `pure 1`)
//	if (mixed) in a loop    an `if` inside a loop body whose branch may return but may also fall through
//	                        (`if c == '.' { if start == i { return }; start = i + 1 }; i++`): what follows ends in the
//	                        loop's recursive call, which only f_loop<n> itself can make (structural recursion on its
//	                        fuel), so it cannot become a definition f_k<n>; it is COPIED into both branches instead
//	                        (`if c then <then>; <rest> else <else>; <rest>`), the meaning of the Go code unchanged.
//	                        Outside loops a mixed `if` still produces f_k<n>
//	s < t on strings        `decide (s < t)` on Bytes is Lean's lexicographic order of lists over the order of UInt8
//	                        (List.lt): Go compares strings byte-wise, a proper prefix is smaller.  (Already what the
//	                        rule for `<` emitted; stated here because semver is the first translated code that uses it.)
//	struct results          `func parse(v string) (p parsed, ok bool)`: the named result `p` starts as the zero struct
//	                        of the configured structure (Config.Structs, checked field by field against the `type … struct`
//	                        declaration of the file by StructDefs), `p.major, v, ok = parseInt(v[1:])` destructures the
//	                        callee's tuple and updates the field with `{ p with major := … }`, an assignment to a parameter
//	                        (`v`) shadows it; no rule of its own
//
// Additions made for golang.org/x/mod/module (module.go of the same x/mod version; preset "module"):
//
//	rune, type T int        `rune` is an int (Lean Int); a defined type whose underlying type is a basic type of the
//	                        subset (`type pathKind int`) is that type
//	iota                    a package-level constant of a parenthesised const group is inlined with `iota` = the index of
//	                        its ConstSpec; a ConstSpec without expressions repeats the nearest preceding expression list
//	                        (`modulePath pathKind = iota; importPath; filePath` are 0, 1, 2)
//	pkg.Const               a constant of another package is a configured global (`utf8.RuneSelf` = 128, `utf8.RuneError`)
//	const x = … (local)     a local constant declaration is a variable that is never assigned
//	'a' + r                 an untyped rune constant takes the type of the int operand next to it
//	byte(x)                 of an int / rune x: `GoLib.byteOfInt x`, the low eight bits (x mod 256)
//	for i, r := range s     over a string WITH the byte offset: the list `Config.RuneIdxFn s : List (Int × Int)` of
//	                        (offset, rune) pairs (GoLib.runesIdx: utf8.DecodeRuneInString at every position — an ASCII byte
//	                        is itself, a well-formed shortest-form encoding is decoded and skipped, any other byte is U+FFFD
//	                        of width 1); the loop definition recurses on that list with the pattern `(i, r) :: rest_`.
//	                        Without the offset: `Config.RuneFn s : List Int` as before (GoLib.runes for this preset)
//	errors                  an `error` is `GoError` = Option Bytes, none = nil.  With Config.OpaqueErrors only nil / non-nil
//	                        is meaningful: `fmt.Errorf(format, args…)` is the non-nil error whose message is the UNFORMATTED
//	                        format string — the arguments are evaluated (they may panic, e.g. a call) and dropped;
//	                        `&T{…}` / `T{…}` for a struct type T listed in Config.ErrorTypes (the file must declare
//	                        `func (e *T) Error() string`) is the non-nil error with message "T", the field values
//	                        evaluated and dropped.  `err != nil`, `f(x) == nil` compare with none
//	defer func() { … }()    as the FIRST statement of a function whose results are all named, the closure without parameters,
//	                        results, return, panic, recover, go, defer or nested function literals: at every `return` the
//	                        result expressions are evaluated and assigned to the named results, then the closure's body is
//	                        translated in place — it reads the current values of the parameters and named results and may
//	                        replace the results (`if err != nil { err = &InvalidPathError{…} }`) — and the named results are
//	                        returned.  A panic stays a panic (no recover).  Any other defer is rejected
//	Unicode tables          `unicode.IsLetter` and `strings.EqualFold` are fields of the parameter `u : GoLib.Unicode` every
//	                        definition of the preset takes (Config.ExtraParams); what an equivalence proof assumes of them is
//	                        a hypothesis of the theorem (GIV.ModuleGo.FoldOK), not a definition.  strings.Contains / Count /
//	                        ContainsRune / LastIndexByte and utf8.ValidString are library meanings (GIV/GoLibStr.lean);
//	                        semver.IsValid / Major / Build are the translated GIV.Go.Semver definitions (Option results)
//
// Additions made for golang.org/x/tools/txtar (archive.go of the x/tools version /repo's go.mod requires, read from
// the module cache; preset "xtxtar": Format, and the reference Parse / findFileMarker / isMarker / fixNL):
//
//	var buf bytes.Buffer    AN ACCUMULATOR.  A local variable declared `var buf bytes.Buffer` or `var sb strings.Builder`
//	                        (no initializer; `bytes` / `strings` not shadowed) is a Lean `Bytes` that starts empty: the
//	                        bytes written so far.  It may ONLY be used in the forms below; the bare identifier (`f(buf)`,
//	                        `b2 := buf`, `&buf` anywhere else, a comparison), any other method (Reset, Truncate, Read…,
//	                        Grow, WriteRune, WriteTo, …) and a pointer / parameter / field of these types are rejected,
//	                        so the buffer never aliases and only grows
//	buf.Write(p)            as a STATEMENT (the (n, err) results dropped — err is always nil): `let buf := buf ++ p`;
//	buf.WriteString(s)      the argument is evaluated first (it may panic, e.g. a call); likewise WriteString (a string)
//	buf.WriteByte(c)        and WriteByte (`buf ++ [c]`).  In an expression (`n, err := buf.Write(p)`) they are rejected.
//	                        A loop whose body writes to the buffer carries it as one of its modified variables
//	fmt.Fprintf(&buf, "lit", args…)   as a STATEMENT, with a string LITERAL format whose only verbs are plain `%s` (and
//	                        `%%`), exactly one argument per `%s`, every argument a string or []byte (both print as their
//	                        bytes): the concatenation, in order, of the literal pieces and the arguments —
//	                        `fmt.Fprintf(&buf, "-- %s --\n", f.Name)` is `let buf := buf ++ [45,45,32] ++ f.Name ++ [32,45,45,10]`.
//	                        Every other verb, a flag, width or precision (`%q`, `%v`, `%5s`, `%-s`, `%[1]s`), a format
//	                        that is not a literal, a wrong argument count or an argument of another type is rejected
//	buf.String(), buf.Len() the accumulated bytes (a string: a copy) / `GoLib.len buf`, anywhere
//	buf.Bytes()             the accumulated bytes, ONLY inside a `return` statement: the Go slice aliases the buffer's
//	                        storage, which nothing can observe once the function has returned (the buffer is a local
//	                        that never escaped); anywhere else it is rejected
//	marker, newlineMarker   no rule of its own: with no configured Global the package-level `var marker = []byte("-- ")`
//	                        is inlined as the literal the LIBRARY source gives (the rule for package-level tables)
//
// Additions made for imports/read.go (the importReader byte machine behind ReadImports / ReadComments; preset
// "importsread").  Every rule is switched on by the preset (Config.Threaded / PtrParams / Readers / Sentinels) or
// applies only where the translator used to produce ill-formed Lean, so every earlier translation is byte-identical:
//
//	func (r *T) m(a) R      THREADED RECEIVER.  For a structure T listed in Config.Threaded (and Config.Structs) a
//	                        pointer-receiver method is `m (r : T) (a) : Option (R × T)` — the receiver is the first
//	                        parameter and its final value is returned after the Go results (`Option T` for a method
//	                        without results, whose end is a plain return; R × T × P… with pointer parameters, below).
//	                        `r.f` reads a field, `r.f = e` / `r.f++` is `let r := { r with f := … }`.  A call `x.m(a)` on a
//	                        structure variable x (the receiver of the calling method, or a local `x := &T{…}` / `T{…}`) is
//	                        `let (t, x) ← m x a`: it REBINDS x under the same Lean name, so everything translated after
//	                        it reads the new state — also the rest of the condition it stands in (`for r.peekByte(true) != ')'
//	                        && r.err == nil`).  As a statement the results are dropped.  The methods must be listed before
//	                        their callers.  x as a value (`y := x`, an argument, a result) is rejected: the pointer would alias
//	evaluation order        the pure part of an operand is a Lean term placed AFTER all `let` lines of the expression.  Where
//	                        that could reorder a read and a rebinding call the translation is rejected: an operand or argument
//	                        that is not a literal or a temporary to the LEFT of a rebinding call (`r.peek == r.readByte()`), a
//	                        rebinding call in the right operand of && / || (conditional: the new state could not escape), in an
//	                        index, a slice bound or a composite literal.  (`c, c1 = c1, r.readByte()` is fine: parallel
//	                        assignment already evaluates every right-hand side into a temporary, in order.)
//	p *[]T (parameter)      IN-OUT PARAMETER (Config.PtrParams): `Option (List T)`, none = the nil pointer; returned after the
//	                        results and the receiver.  `p != nil` / `p == nil` is isSome / isNone, `*p` is `let t ← p` (a nil
//	                        pointer panics), `*p = e` is `let _ ← p; let p := some e`, an argument `g(p)` for a pointer parameter
//	                        of g must be the bare parameter (passed once) and is rebound by the call.  Anything else (`q := p`,
//	                        a result, an argument for a value parameter) is rejected, so the pointer never aliases; that it does
//	                        not point into the receiver is by type ([]string vs the receiver's fields)
//	io.Reader, *bufio.Reader   THE REMAINING INPUT (Config.Readers): a parameter `f io.Reader`, a local `b := bufio.NewReader(f)`
//	                        and a structure field `b *bufio.Reader` are the Bytes not read yet (GIV/GoLibReader.lean).
//	                        `c, err := r.b.ReadByte()` is `(c, nil)` and one byte consumed, or `(0, io.EOF)` at the end
//	                        (`GoLib.readerReadByte`; the structure is rebound with the rest).  `if x, err := b.Peek(n); cond { … }`
//	                        (only this form, x used in cond alone — the slice aliases the reader's buffer — and n an integer
//	                        literal 0 … 16, the smallest buffer a bufio.Reader can have, so ErrBufferFull / ErrNegativeCount
//	                        cannot occur) is the next n bytes and nil, or all that is left and io.EOF (`GoLib.readerPeek`);
//	                        `b.Discard(n)` as a statement drops n bytes (`GoLib.readerDiscard`).  NOT MODELLED: an I/O error
//	                        other than io.EOF from the underlying reader, and a reader that delivers its bytes in pieces (bufio
//	                        hides that).  A reader is never copied: using the variable as a value (`bufio.NewReader(f)`,
//	                        `T{b: b}`) hands it on — any later use of that variable is rejected, and so is handing on inside a
//	                        loop or branch, `r.b` as a value, and a structure literal that leaves the reader nil
//	errors.New sentinels    a package-level `var errX = errors.New("…")` is inlined as `some "…"` (the rule for package-level
//	                        tables) and `io.EOF` is the configured `GoLib.ioEOF` = some "EOF": `err == io.EOF`, `r.err == errSyntax`
//	                        compare MESSAGES where Go compares pointers, so Translate first checks (Config.Sentinels) that
//	                        all package-level errors.New messages of the file and the configured ones are pairwise different
//	panic("…")              none, as before; the `nerr > 10000` guard of peekByte is translated like any other code (that it
//	                        cannot fire is a theorem about the translation: GIV.C18.go_ReadImports_total)
//	loop in a loop / join   DIRECT STYLE.  A `for` loop inside another loop's body, or inside an if whose branches are joined,
//	                        cannot hand what follows to a definition f_after<n> (it would have to make the enclosing loop's
//	                        structurally recursive call, or its value is the join's tuple and not the function's result — the
//	                        old rule produced ill-formed Lean there).  Such a loop RETURNS the variables it modifies:
//	                        `f_loop<n> : fixed → fuel → modified → Option (modified)`, a false condition and `break` are
//	                        `pure (modified)`, and the caller rebinds them: `let (r, c) ← f_loop<n> … (budget) r c`.  A `return`
//	                        inside such a loop is rejected.  The variables a loop modifies now include those its CONDITION
//	                        rebinds (`for isIdent(r.peekByte(false)) { … }`)
//	loop budgets            a reader (variable or structure field) counts with its length in the default budget; the preset
//	                        gives every loop of read.go the budget of the hand-written model's counterpart
//
// Additions made for diff/diff.go (`tgs`, the Szymanski match finder, and `Diff`, the hunk-assembling loop; presets
// "diff" and "diffmain").  The rules apply only to code the translator used to reject, or are switched on by the
// preset (Config.DirectRange, Config.NoStructDefs), so every earlier translation is byte-identical:
//
//	m := make(map[string]int)   A LOCAL MAP is a functional map `GoLib.StrIntMap` (GIV/GoLibMap.lean: association list,
//	                        newest binding first, last write wins), `make(map[string]int)` is `GoLib.mapEmpty`.  The variable
//	                        may ONLY be used in the three forms below; the bare identifier (an argument, `m2 := m`, a result,
//	                        `range m`, `len(m)`, `delete`) is rejected — the map never aliases and is never iterated (no order
//	                        to model) — and so is `var m map[string]int` without initializer (a nil map panics on assignment)
//	m[k]                    `GoLib.mapGet m k`: the newest binding of the string k, 0 for a missing key; never panics
//	m[k] = v                `let m := GoLib.mapSet m k v`; a loop or joined branch that does it carries m as a modified variable
//	v, ok := m[k]           the pair `(GoLib.mapGet m k, GoLib.mapHas m k)`, destructured like every tuple
//	make([]int, n), make([]pair, 2+k)   no rule of their own: `GoLib.make?` with the zero value of the element type — for a
//	                        configured structure the structure of zero fields (`({ x := 0, y := 0 } : GoPair)`); a negative
//	                        length panics.  Likewise `T[k] = J[i]`, `seq[k] = pair{xi[i], yi[J[i]]}`, `seq[1+k] = pair{len(x), len(y)}`
//	                        are the existing `GoLib.idx?` / `GoLib.setIdx?` (every index checked) and the existing composite
//	                        literal; `for i := range T` (index only) recurses over the slice as it was when the loop began
//	                        while the body updates T; `[]string` is `List Bytes`; `-1+-4` is `(-1) + (-4)`
//	slices are values       `T[k] = v` rebinds T; in Go a second name for the same backing array would see the store.
//	                        checkSliceAliases therefore rejects a function in which a slice variable that is assigned through
//	                        an index is also copied under another name (`b := a`, `b = a[i:j]`, `b = append(a, …)`, in either
//	                        direction).  `J := inv` of two slices that are only read, `l = l[:n]` and `xs = append(xs, x)` pass
//	sort.Search(n, func(k int) bool { return e })   `GoLib.sortSearch n (fun k => do …; pure e)` (GIV/GoLibSort.lean: the loop of
//	                        sort/search.go verbatim — i, j := 0, n; h := (i+j)/2; !f(h) ? i = h+1 : j = h — so also right for a
//	                        predicate that is not monotone; budget n).  The closure must have one int parameter, result bool
//	                        and a body that is a single `return e`.  e may read the enclosing function's variables (sort.Search
//	                        does not keep the closure, so it sees their values at the call) and may panic (`T[k] >= J[i]`):
//	                        the predicate has type Int → Option Bool and a panic inside it is a panic of the search.  It cannot
//	                        assign; a call that rebinds a receiver inside e is rejected.  The parameter's name is free again
//	                        after the closure (`k := sort.Search(n, func(k int) …)` binds the outer k under the same Lean name)
//	min(a, b, …), max(…)    the builtins (Go 1.21) on ints: Lean's `min` / `max` on Int, folded from the left; rejected when
//	                        the name is shadowed by a variable, a translated function or a package-level declaration
//	fmt.Fprintf(&buf, "…%d…", i)   the verb `%d` (plain: no flag, width or precision) with an int argument is `GoLib.fmtInt i`
//	                        (GIV/GoLibFmt.lean: decimal digits, most significant first, '-' for a negative number); `%s` as before
//	range loop in a loop / join   DIRECT STYLE for `for … range` (Config.DirectRange; rangeDirect), as for `for` loops: inside
//	                        another loop's body or a joined branch the loop definition recurses on the list and RETURNS the
//	                        variables its body modifies, `f_loop<n> : fixed → List T → [index →] modified → Option (modified)`;
//	                        the end of the list and `break` are `pure (modified)`, `continue` recurses on the rest, the caller
//	                        rebinds: `let (count, ctext) ← Diff_loop4 … t10 count ctext`.  The range expression (`x[done.x:start.x]`,
//	                        checked) is evaluated once, before the loop.  A `return` inside such a loop is rejected
//	struct-typed locals     no rule of their own: `var done pair` is the zero structure, `start := m` copies the VALUE (Go structs
//	                        are values), `start.x--` / `count.x = 0` is `{ start with x := … }`, `done = end` and
//	                        `chunk = pair{end.x - C, end.y - C}` rebind; `const C = 3` in the loop body is a variable never
//	                        assigned; `ctext = ctext[:0]` is the checked slice `GoLib.slice? ctext 0 0` (capacity is not
//	                        observable); `bytes.Equal` is `==`; `return nil` of a []byte is `[]`
//	Config.NoStructDefs     the structures are checked against the file but not emitted: module DiffMainGo uses the GoPair of
//	                        module DiffGo, and calls its `lines` / `tgs` as configured library functions (Option results)
//
// Additions made for the standard library's filepath.Clean / Dir / IsAbs / Join on Unix and /repo's txtar.isAbs (C15;
// presets "filepath": GOROOT/src/internal/filepathlite/path.go with the declarations of path_unix.go and
// path_nonwindows.go appended — fact.TranslateModuleFiles merges the files the build constraints select on Unix —,
// "filepathjoin": `func join` of GOROOT/src/path/filepath/path_unix.go, "txtarabs": `func isAbs` of txtar/archive.go).
// Every rule applies only to code the translator used to reject or is switched on by the preset, so every earlier
// translation is byte-identical:
//
//	read-only receiver      Config.ReadOnlyRecv: a pointer-receiver method of a Threaded structure that NEVER changes *r
//	                        (recvReadOnly: no assignment, ++/--, range assignment rooted at r; no method call on r; r only used
//	                        as `r.f`; and — so that no alias of a field can be written through — no store through an index, no
//	                        copy, no function literal, go or defer anywhere in the body) is `m (r : T) (args) : Option R`: the
//	                        receiver is the first parameter and is NOT returned.  A call `x.m(a)` is an ordinary call
//	                        `let t ← m x a` that rebinds nothing, so it may stand where a rebinding call may not — the right
//	                        operand of && (`for out.w > dotdot && !IsPathSeparator(out.index(out.w))`).  lazybuf.index and
//	                        lazybuf.string are read-only, lazybuf.append is threaded
//	nil-able slice field    a structure field configured with the type KNil (Elem = the slice type; StructDefs accepts it for
//	                        a Go `[]byte` field and emits `buf : Option Bytes`): `b.buf == nil` / `!= nil` is isNone / isSome,
//	                        `b.buf = make(…)` is `some …` (the existing nil-ness rules: only nil, make, a composite literal or
//	                        another tracked value may be assigned), a structure literal that omits the field gives none (nil),
//	                        every other read (`b.buf[i]`, `b.buf[:b.w]`, `len`) is `GoLib.nilData b.buf`
//	r.f[i] = x              for a byte-slice field of a structure variable: `let t ← GoLib.setIdx? r.f i x; let r := { r with
//	                        f := t }` (index checked); for a nil-able field the store reads `GoLib.nilData r.f` — a nil slice
//	                        has length 0, so the store panics like Go — and the field becomes `some t`
//	copy(r.f, src)          as a statement, into a byte-slice field: `{ r with f := GoLib.copyInto r.f src }`; for a nil-able
//	                        field `Option.map (fun d_ => GoLib.copyInto d_ src) r.f` (a nil destination has length 0: nothing
//	                        is copied and it stays nil)
//	f(&x) with an empty f   a statement call of a package-level function of the (merged) file that has no results and an EMPTY
//	                        body — filepathlite's `func postClean(out *lazybuf) {}` outside Windows — whose arguments are
//	                        variables or their addresses is skipped (nothing to evaluate, nothing happens)
//	string(c)               of an integer CONSTANT 0 ≤ c < utf8.RuneSelf (`string(filepath.Separator)`, `string(Separator)`):
//	                        the one-byte string `([c] : Bytes)`; any other string(int) is still rejected
//	Separator, IsPathSeparator, volumeNameLen, FromSlash   no rule of their own: `Separator = '/'` is an inlined constant,
//	                        `Separator == '/'` in FromSlash is the literal test `47 == 47` whose else-branch (replaceStringByte,
//	                        translated too) is dead; `switch { case …: }` inside the loop body, the nested `for` loops (direct
//	                        style), `out := lazybuf{path: path, …}` and `out.w--` on a local structure are existing rules
//	strings.Join(xs, string(Separator))   preset "filepathjoin": the model's `GIV.Fsx.joinSep` (library meaning, only with
//	                        exactly this separator argument; Separator = os.PathSeparator is the configured Unix constant 47);
//	                        `Clean` there is the translated GIV.Go.Filepath.Clean (filepath.Clean is filepathlite.Clean)
//	Lean keywords           leanIdent: a Go identifier that is a Lean keyword or reserved token (`matches`, `end`, `at`, `from`,
//	                        `this`, `is`, …: leanKeywords) gets a trailing underscore — variables, parameters and named results
//	                        in declare (which also keeps the Lean names of one function distinct), function names in function;
//	                        structure field names are the preset's (Field.Lean)
//
// Additions made for the index-entry parser inside (*Cache).get of cache/cache.go (C05; preset "cacheparse": the
// statements are cut out and wrapped into `func parseEntrySlice` by harness/cmd/cache/fact.go, cacheParseSource).
// Every rule is switched on by the preset (Config.ByteArrays / ArrayFill), so every earlier translation is byte-identical:
//
//	[N]byte, type T [N]byte Config.ByteArrays: a byte ARRAY (N a constant expression of the subset; also through a file-level
//	                        defined type such as `type ActionID [HashSize]byte`) is a Lean `Bytes` of length N.  `var buf [N]byte`
//	                        is `List.replicate N 0`; an array PARAMETER is a Bytes whose length N is a hypothesis of the
//	                        equivalence theorem (the translation does not check it); arrays are values in Go, so copying,
//	                        returning and comparing them (`buf != id`: element-wise, the list comparison) need no rule of their own
//	n, err := hex.Decode(buf[:], src)   Config.ArrayFill: a configured function that stores into its first argument, accepted ONLY
//	                        in a multi-value assignment / if-init whose first argument is `x[:]` for a LOCAL array variable x (no
//	                        bounds): `let (x, t) ← GoLib.hexDecodeInto x src` rebinds x with what Decode stored (the slice
//	                        exists only as this argument, so nothing else sees the store) and t = (n, err); none = the index
//	                        panic when more bytes are decoded than the array holds.  LIBRARY MEANING (GIV/GoLibCache.lean,
//	                        trusted, correspondence-tested): the loop of encoding/hex over the model's fromHexChar table
//	strconv.ParseInt(s, 10, 64)   LIBRARY MEANING `GoLib.strconvParseInt10_64` (only with exactly these two arguments): the model's
//	                        parseInt 10 64 — (value, nil) or (0, non-nil); Go's clamped value on ErrRange is not modelled
//	                        (no translated code reads the value when err != nil)
//	eid, entry := entry[3:3+hexSize], entry[3+hexSize:]   no rule of its own: parallel assignment evaluates both slices of the OLD
//	                        entry into temporaries, then declares eid and rebinds the parameter entry
package go2lean

import (
	"bytes"
	"fmt"
	"go/ast"
	"go/printer"
	"go/token"
	"sort"
	"strconv"
	"strings"
)

// ---------------------------------------------------------------- configuration

type Kind int

const (
	KInt Kind = iota
	KByte
	KBool
	KBytes
	KList
	KStruct
	KError
	KTuple
	KOpaque // a parameter the translation only passes along (Name = its Lean type)
	KMap    // map[string]bool that is only read: a predicate Bytes → Bool (a missing key reads false)
	KFunc   // a function-typed parameter `f func(A, …) R`: an opaque total Lean function A → … → R (Tup = parameters, Elem = result)
	KNil    // a local slice variable whose nil-ness the code observes: Option of Elem (none = nil), see the package comment
	KBuffer // a local `var buf bytes.Buffer` / `var sb strings.Builder`: the bytes written so far (Lean Bytes), used only through its methods and fmt.Fprintf(&buf, …)
	KReader // an `io.Reader` / `*bufio.Reader` (Config.Readers): the input that remains to be read (Lean Bytes); Name = the Go type
	KPtr    // a parameter `p *[]T` (Config.PtrParams): an in-out parameter, Option of Elem (none = the nil pointer), threaded through
	KIntMap // a local `m := make(map[string]int)`: a functional map (GoLib.StrIntMap, GIV/GoLibMap.lean), used only as m[k], m[k] = v, v, ok := m[k]
)

type Type struct {
	K    Kind
	Elem *Type   // KList: element type; KFunc: result type; KNil: the slice type
	Name string  // KStruct: Lean structure name
	Tup  []*Type // KTuple
	Str  bool    // KBytes: a Go string (same Lean type as []byte; `range` yields runes, not bytes)
	Arr  string  // KBytes: a byte ARRAY `[N]byte` (Config.ByteArrays): the Lean term of its length N; the value is a Bytes of that length
}

var (
	TInt   = &Type{K: KInt}
	TByte  = &Type{K: KByte}
	TBool  = &Type{K: KBool}
	TBytes = &Type{K: KBytes}
	TStr   = &Type{K: KBytes, Str: true}
	TMap   = &Type{K: KMap}
	TError = &Type{K: KError}
	// TIntMap: a local map[string]int (see KIntMap)
	TIntMap = &Type{K: KIntMap}
	// TBuffer: Name is the Go type, for messages only
	TBuffer = &Type{K: KBuffer, Name: "bytes.Buffer"}
)

func (t *Type) Lean() string {
	switch t.K {
	case KInt:
		return "Int"
	case KByte:
		return "UInt8"
	case KBool:
		return "Bool"
	case KBytes, KBuffer, KReader:
		return "Bytes"
	case KPtr:
		return "(Option " + t.Elem.Lean() + ")"
	case KList:
		return "(List " + t.Elem.Lean() + ")"
	case KStruct:
		return t.Name
	case KError:
		return "GoError"
	case KOpaque:
		return t.Name
	case KMap:
		return "(Bytes → Bool)"
	case KIntMap:
		return "GoLib.StrIntMap"
	case KFunc:
		parts := make([]string, 0, len(t.Tup)+1)
		for _, x := range t.Tup {
			parts = append(parts, x.Lean())
		}
		return "(" + strings.Join(append(parts, t.Elem.Lean()), " → ") + ")"
	case KNil:
		return "(Option " + t.Elem.Lean() + ")"
	case KTuple:
		parts := make([]string, len(t.Tup))
		for i, x := range t.Tup {
			parts[i] = x.Lean()
		}
		return "(" + strings.Join(parts, " × ") + ")"
	}
	return "?"
}

// LibFn is the Lean meaning of a library (or otherwise external) function.
type LibFn struct {
	Lean   string // Lean function applied to the translated arguments
	Ret    *Type
	Option bool // the Lean function returns Option Ret (it can panic)
	// FixedArgs: when non-nil, argument i must print (whitespace-free) exactly as FixedArgs[i] ("" = any)
	// and the arguments marked non-empty are dropped from the call (e.g. bytes.Replace(…, -1)).
	FixedArgs []string
}

type Field struct {
	Go   string
	Lean string
	T    *Type
}

type Struct struct {
	Lean   string
	Fields []Field
}

type Config struct {
	// ByteArrays: `[N]byte` (and a defined type `type T [N]byte`) is a Bytes of length N, see the package comment.
	ByteArrays bool
	// ArrayFill: functions `f(dst, src []byte) (…)` that store into dst, allowed only as `… := f(x[:], src)` for a local
	// byte array x.  The Lean function takes the array and the source and returns Option (array × Ret).
	ArrayFill map[string]LibFn
	Prefix    string             // prefix of generated definition names, e.g. "" (namespace is the caller's business)
	Lib       map[string]LibFn   // "bytes.HasPrefix" → …
	Globals   map[string]Global  // package-level identifiers → Lean term
	Structs   map[string]*Struct // Go type name → structure
	Fuel      map[string]string  // "<func>#<n>" → Lean Nat expression over the variables in scope; default: sum of the lengths of all Bytes variables + 2
	Rename    map[string]string  // Go function name → Lean name (default: the same)
	// ExtraParams are prepended to every generated definition (and passed along): what the receiver
	// or the environment contributes, e.g. `(env : Env)`; Lib entries may mention them by name.
	ExtraParams []Param
	// Abort: calls that never return and end the function with a reported failure rather than a
	// panic, e.g. "ts.Fatalf".  When non-empty every result is wrapped: `pure (.ok v)` for a return,
	// `pure (.fatal <first argument>)` for an abort; the result type becomes Option (GoLib.Res T).
	Abort map[string]bool
	// IgnoreAssign: assignments to these targets (printed without blanks, e.g. "ts.line") are dropped —
	// receiver fields the translated function only writes.
	IgnoreAssign map[string]bool
	// RuneFn: the Lean function Bytes → List Int giving the runes `for _, c := range s` yields for a Go
	// string s (utf8 decoding, RuneError for invalid bytes); range over a string is outside the subset without it.
	RuneFn string
	// RuneIdxFn: the Lean function Bytes → List (Int × Int) giving the (byte offset, rune) pairs
	// `for i, c := range s` yields for a Go string s; range over a string with the offset is outside the subset without it.
	RuneIdxFn string
	// ErrorTypes: struct types of the file that implement `error`; `&T{…}` is an opaque non-nil GoError (message = "T").
	ErrorTypes map[string]bool
	// OpaqueErrors: `fmt.Errorf(format, args…)` is the non-nil error with message `format` (the arguments are
	// evaluated and dropped).  For translations whose callers only test errors for nil.
	OpaqueErrors bool
	// Threaded: struct types (Go name, also in Structs) whose POINTER-receiver methods are translated with the
	// receiver threaded through: `func (r *T) m(args) R` is `m (r : T) (args) : Option (R × T)`.
	Threaded map[string]bool
	// PtrParams: a parameter `p *[]T` is an in-out parameter of type Option (List T), returned after the results.
	PtrParams bool
	// Readers: `io.Reader` and `*bufio.Reader` are the input that remains to be read (Bytes); ReadByte / Peek /
	// Discard / bufio.NewReader have the meanings of GIV/GoLibReader.lean (no I/O error other than io.EOF).
	Readers bool
	// Sentinels: package-qualified error values among Globals with their messages ("io.EOF" → "EOF"): the
	// package-level `errors.New` sentinels of the file must have messages different from these and from each other,
	// because `err == errX` on pointers becomes equality of messages.
	Sentinels map[string]string
	// DirectRange: a `for … range` loop inside another loop's body or inside a joined branch is translated in direct
	// style (rangeDirect).  Off for the older presets: their one such loop (imports.ShouldBuild) is the last statement
	// of its branch, where the continuation-passing rule happens to produce well-formed Lean, and stays as it is.
	DirectRange bool
	// NoStructDefs: StructDefs checks the configured structures against the file's type declarations but emits
	// nothing — the Lean structures are those of another generated module this one imports (the same Lean names).
	NoStructDefs bool
	// ReadOnlyRecv: a pointer-receiver method of a Threaded structure that never assigns to its receiver (no `r.f = e`,
	// `r.f++`, `r.f[i] = e`, `copy(r.f, …)`, no call of a method on r, r not used as a value) is translated WITHOUT
	// threading: `m (r : T) (args) : Option R`; a call reads the structure and rebinds nothing, so it may stand where a
	// rebinding call may not (the right operand of && / ||).
	ReadOnlyRecv bool
}

type Param struct {
	Lean string
	Type string
}

type Global struct {
	Lean string
	T    *Type
}

// ---------------------------------------------------------------- translation state

type varInfo struct {
	lean string
	t    *Type
}

type loopCtx struct {
	brk  func() string
	cont func() string
}

type funcSig struct {
	lean    string
	params  []*Type
	results []*Type
	recv    *Type // a threaded method: the receiver's structure (returned after the results, before the pointer parameters)
	roRecv  *Type // a READ-ONLY pointer-receiver method of a threaded structure (Config.ReadOnlyRecv): the receiver is the first parameter and is not returned
}

// threads: the call rebinds something (a threaded receiver or a pointer parameter).
func (s *funcSig) threads() bool {
	if s.recv != nil {
		return true
	}
	for _, p := range s.params {
		if p.K == KPtr {
			return true
		}
	}
	return false
}

type tr struct {
	cfg      *Config
	fset     *token.FileSet
	funcs    map[string]*funcSig // translated functions of the package
	out      []string            // auxiliary definitions, in dependency order
	fn       *ast.FuncDecl
	fnLean   string
	ret      *Type // result type (tuple or single)
	named    []string
	scopes   []map[string]*varInfo
	order    [][]string // declaration order per scope
	used     map[string]int
	loops    []*loopCtx
	nAux     int
	nTmp     int
	nLoop    int
	err      error
	file     *ast.File
	inGlobal map[string]bool
	selfRec  bool                // the function being translated calls itself: its body is defined by recursion on a fuel argument
	nilTest  map[string]bool     // names compared with nil somewhere in the function being translated
	iota     int                 // value of `iota` while a package-level constant is being inlined (-1 otherwise)
	deferred []ast.Stmt          // body of the `defer func() { … }()` that opens the function being translated (nil: none)
	inReturn bool                // the result expressions of a `return` are being translated (buf.Bytes() is allowed only there)
	methods  map[string]*funcSig // "<Lean structure>.<method>" → a translated threaded method
	thread   []*varInfo          // the threaded receiver and the pointer parameters of the function being translated (returned after its results)
	nGo      int                 // number of Go results of the function being translated
	nEff     int                 // number of rebinding calls emitted so far (evaluation-order checks)
	moved    map[*varInfo]bool   // reader variables that were handed on (bufio.NewReader(f), T{b: b}): any later use is rejected
	direct   int                 // > 0: inside a join branch or a direct-style loop — a loop here is translated in direct style
	peekOK   *ast.CallExpr       // the `b.Peek(n)` of the if-statement initializer being translated
}

// topLevel finds the initializer of a package-level `const`/`var name = <expr>`.
func (t *tr) topLevel(name string) ast.Expr {
	e, _ := t.topLevelIota(name)
	return e
}

// topLevelIota also gives the value `iota` has in that initializer: the index of the ConstSpec in its
// parenthesised `const ( … )` group; a ConstSpec without expressions repeats the expression list of the
// nearest preceding one (Go's implicit repetition).  -1 outside a const declaration.
func (t *tr) topLevelIota(name string) (ast.Expr, int) {
	if t.file == nil {
		return nil, -1
	}
	for _, d := range t.file.Decls {
		gd, ok := d.(*ast.GenDecl)
		if !ok || (gd.Tok != token.CONST && gd.Tok != token.VAR) {
			continue
		}
		var last []ast.Expr
		for si, sp := range gd.Specs {
			vs, ok := sp.(*ast.ValueSpec)
			if !ok {
				continue
			}
			values, iota := vs.Values, -1
			if gd.Tok == token.CONST {
				iota = si
				if len(values) == 0 {
					values = last
				} else {
					last = values
				}
			}
			for i, n := range vs.Names {
				if n.Name == name && i < len(values) {
					return values[i], iota
				}
			}
		}
	}
	return nil, -1
}

type bail struct{ err error }

func (t *tr) fail(n ast.Node, format string, a ...any) {
	pos := ""
	if n != nil {
		pos = t.fset.Position(n.Pos()).String() + ": "
	}
	panic(bail{fmt.Errorf(pos+format, a...)})
}

var leanKeywords = map[string]bool{"end": true, "at": true, "from": true, "fun": true, "do": true, "then": true, "else": true,
	"if": true, "let": true, "have": true, "show": true, "open": true, "in": true, "by": true, "prefix": true, "infix": true,
	"postfix": true, "notation": true, "local": true, "private": true, "protected": true, "instance": true, "class": true,
	"structure": true, "where": true, "with": true, "match": true, "return": true, "for": true, "mut": true, "namespace": true,
	"section": true, "variable": true, "universe": true, "example": true, "theorem": true, "def": true, "macro": true,
	"syntax": true, "deriving": true, "import": true, "export": true, "partial": true, "unsafe": true, "nomatch": true,
	"nofun": true, "Type": true, "Prop": true, "Sort": true, "some": true, "none": true, "pure": true, "fuel": true, "using": true,
	"extends": true, "mutual": true, "attribute": true, "set_option": true, "omit": true, "include": true, "calc": true, "suffices": true, "obtain": true,
	"matches": true, "is": true, "this": true, "unless": true, "try": true, "catch": true, "finally": true, "exists": true, "forall": true,
	"abbrev": true, "inductive": true, "opaque": true, "axiom": true, "noncomputable": true, "scoped": true, "termination_by": true,
	"decreasing_by": true, "generalizing": true, "only": true, "break": true, "continue": true, "assert": true, "dbg_trace": true,
	"elab": true, "initialize": true, "builtin_initialize": true, "declare_syntax_cat": true, "register_builtin_option": true,
	"nonrec": true, "rec": true, "open_locale": true, "renaming": true, "hiding": true, "exposing": true, "sorry": true, "admit": true,
	"native_decide": true, "implemented_by": true, "bv_decide": true}

// leanIdent spells a Go identifier so that it is not a Lean keyword or reserved token: a trailing underscore
// (`matches` ⇒ `matches_`, `end` ⇒ `end_`).  Variables go through declare (which also keeps the Lean names of one
// function distinct: a Go variable that is really called `matches_` then becomes `matches__1`); function names through
// function (a configured Rename is taken as it is).  Structure FIELD names are the preset's (Field.Lean).
func leanIdent(name string) string {
	if leanKeywords[name] {
		return name + "_"
	}
	return name
}

func (t *tr) push() {
	t.scopes = append(t.scopes, map[string]*varInfo{})
	t.order = append(t.order, nil)
}
func (t *tr) pop() {
	t.scopes = t.scopes[:len(t.scopes)-1]
	t.order = t.order[:len(t.order)-1]
}

func (t *tr) lookup(name string) *varInfo {
	for i := len(t.scopes) - 1; i >= 0; i-- {
		if v, ok := t.scopes[i][name]; ok {
			return v
		}
	}
	return nil
}

// declare introduces a Go variable in the innermost scope and returns its Lean name.
func (t *tr) declare(name string, ty *Type) *varInfo {
	top := t.scopes[len(t.scopes)-1]
	if v, ok := top[name]; ok { // redeclaration in the same scope (x, err := …): plain assignment
		return v
	}
	lean := leanIdent(name)
	if n := t.used[lean]; n > 0 {
		t.used[lean] = n + 1
		lean = fmt.Sprintf("%s_%d", lean, n)
	} else {
		t.used[lean] = 1
	}
	v := &varInfo{lean: lean, t: ty}
	top[name] = v
	t.order[len(t.order)-1] = append(t.order[len(t.order)-1], name)
	return v
}

// inScope lists every visible variable (outermost first, declaration order), innermost binding winning.
func (t *tr) inScope() []*varInfo {
	var res []*varInfo
	seen := map[string]bool{}
	var names []string
	for i := range t.scopes {
		names = append(names, t.order[i]...)
	}
	for _, n := range names {
		if seen[n] {
			continue
		}
		seen[n] = true
		res = append(res, t.lookup(n))
	}
	return res
}

func (t *tr) tmp() string {
	t.nTmp++
	return fmt.Sprintf("t%d", t.nTmp)
}

// ---------------------------------------------------------------- types

func (t *tr) typeExpr(e ast.Expr) *Type {
	switch v := e.(type) {
	case *ast.Ident:
		switch v.Name {
		case "int", "int64", "int32", "rune":
			return TInt
		case "byte", "uint8":
			return TByte
		case "bool":
			return TBool
		case "string":
			return TStr
		case "error":
			return TError
		}
		if s, ok := t.cfg.Structs[v.Name]; ok {
			return &Type{K: KStruct, Name: s.Lean}
		}
		if u := t.definedType(v.Name); u != nil { // `type pathKind int`: the underlying type
			return t.typeExpr(u)
		}
		if t.cfg.ByteArrays {
			if u := t.definedArrayType(v.Name); u != nil { // `type ActionID [HashSize]byte`
				return t.typeExpr(u)
			}
		}
	case *ast.ArrayType:
		if v.Len == nil {
			el := t.typeExpr(v.Elt)
			if el.K == KByte {
				return TBytes
			}
			return &Type{K: KList, Elem: el}
		}
		if el, ok := v.Elt.(*ast.Ident); ok && t.cfg.ByteArrays && (el.Name == "byte" || el.Name == "uint8") && t.lookup(el.Name) == nil {
			// [N]byte: a Bytes of length N (N a constant expression of the subset)
			n := t.expr(v.Len)
			if len(n.pre) == 0 && n.t != nil && n.t.K == KInt {
				return &Type{K: KBytes, Arr: paren(n.s)}
			}
		}
	case *ast.MapType:
		if k, ok := v.Key.(*ast.Ident); ok && k.Name == "string" {
			if e, ok := v.Value.(*ast.Ident); ok && e.Name == "bool" {
				return TMap
			}
			if e, ok := v.Value.(*ast.Ident); ok && e.Name == "int" && t.lookup("int") == nil && t.lookup("string") == nil {
				return TIntMap
			}
		}
	case *ast.SelectorExpr:
		if t.cfg.Readers && isPkgSel(v, "io", "Reader") && t.lookup("io") == nil {
			return &Type{K: KReader, Name: "io.Reader"}
		}
	case *ast.StarExpr: // *T for a struct T that does not alias (checked by the caller's choice of functions)
		if sel, ok := v.X.(*ast.SelectorExpr); ok && t.cfg.Readers && isPkgSel(sel, "bufio", "Reader") && t.lookup("bufio") == nil {
			return &Type{K: KReader, Name: "*bufio.Reader"}
		}
		if at, ok := v.X.(*ast.ArrayType); ok && t.cfg.PtrParams && at.Len == nil { // p *[]T: an in-out parameter
			return &Type{K: KPtr, Elem: t.typeExpr(v.X)}
		}
		return t.typeExpr(v.X)
	case *ast.FuncType: // a function value that is only called: an opaque total function of first-order arguments
		if v.TypeParams == nil && v.Results != nil && len(v.Results.List) == 1 && len(v.Results.List[0].Names) <= 1 && len(v.Params.List) > 0 {
			ft := &Type{K: KFunc, Elem: t.typeExpr(v.Results.List[0].Type)}
			for _, f := range v.Params.List {
				if _, variadic := f.Type.(*ast.Ellipsis); variadic {
					t.fail(e, "unsupported type %s", t.src(e))
				}
				pt := t.typeExpr(f.Type)
				n := len(f.Names)
				if n == 0 {
					n = 1
				}
				for i := 0; i < n; i++ {
					ft.Tup = append(ft.Tup, pt)
				}
			}
			ok := ft.Elem.K != KFunc && ft.Elem.K != KMap
			for _, pt := range ft.Tup {
				ok = ok && pt.K != KFunc && pt.K != KMap
			}
			if ok {
				return ft
			}
		}
	}
	t.fail(e, "unsupported type %s", t.src(e))
	return nil
}

func isPkgSel(e *ast.SelectorExpr, pkg, name string) bool {
	id, ok := e.X.(*ast.Ident)
	return ok && id.Name == pkg && e.Sel.Name == name
}

// threadedStruct: ty is a structure whose pointer-receiver methods thread it (Config.Threaded).
func (t *tr) threadedStruct(ty *Type) bool {
	if ty == nil || ty.K != KStruct {
		return false
	}
	for goName, s := range t.cfg.Structs {
		if s.Lean == ty.Name && t.cfg.Threaded[goName] {
			return true
		}
	}
	return false
}

// definedType finds the underlying type of a package-level `type name <basic type>` (not a struct, not an alias).
func (t *tr) definedType(name string) ast.Expr {
	if t.file == nil {
		return nil
	}
	for _, d := range t.file.Decls {
		gd, ok := d.(*ast.GenDecl)
		if !ok || gd.Tok != token.TYPE {
			continue
		}
		for _, sp := range gd.Specs {
			ts := sp.(*ast.TypeSpec)
			if id, ok := ts.Type.(*ast.Ident); ok && ts.Name.Name == name && !ts.Assign.IsValid() && ts.TypeParams == nil && id.Name != name {
				return id
			}
		}
	}
	return nil
}

// definedArrayType: the array type a file-level `type T [N]byte` declares (Config.ByteArrays).
func (t *tr) definedArrayType(name string) ast.Expr {
	if t.file == nil {
		return nil
	}
	for _, d := range t.file.Decls {
		gd, ok := d.(*ast.GenDecl)
		if !ok || gd.Tok != token.TYPE {
			continue
		}
		for _, sp := range gd.Specs {
			ts := sp.(*ast.TypeSpec)
			if at, ok := ts.Type.(*ast.ArrayType); ok && ts.Name.Name == name && !ts.Assign.IsValid() && ts.TypeParams == nil && at.Len != nil {
				return at
			}
		}
	}
	return nil
}

func (t *tr) zero(ty *Type) string {
	switch ty.K {
	case KInt, KByte:
		return "0"
	case KBool:
		return "false"
	case KBytes, KList, KBuffer, KReader:
		if ty.K == KBytes && ty.Arr != "" { // the zero array: N zero bytes
			return "(List.replicate (Int.toNat " + ty.Arr + ") (0 : UInt8))"
		}
		return "[]"
	case KError, KNil, KPtr:
		return "none"
	case KStruct:
		for _, s := range t.cfg.Structs {
			if s.Lean == ty.Name {
				parts := make([]string, len(s.Fields))
				for i, f := range s.Fields {
					parts[i] = f.Lean + " := " + t.zero(f.T)
				}
				return "{ " + strings.Join(parts, ", ") + " }"
			}
		}
	}
	return "default"
}

func (t *tr) structOf(ty *Type) *Struct {
	for _, s := range t.cfg.Structs {
		if s.Lean == ty.Name {
			return s
		}
	}
	return nil
}

func (t *tr) src(n ast.Node) string {
	var b bytes.Buffer
	printer.Fprint(&b, t.fset, n)
	return strings.Join(strings.Fields(b.String()), " ")
}

// withoutTop runs f with the innermost scope temporarily removed (f sees the enclosing scopes).
func (t *tr) withoutTop(f func() string) string {
	n := len(t.scopes) - 1
	sc, or := t.scopes[n], t.order[n]
	t.scopes, t.order = t.scopes[:n], t.order[:n]
	r := f()
	t.scopes, t.order = append(t.scopes, sc), append(t.order, or)
	return r
}

type snapshot struct {
	scopes []map[string]*varInfo
	order  [][]string
}

func (t *tr) snap() snapshot {
	var s snapshot
	for i := range t.scopes {
		m := map[string]*varInfo{}
		for k, v := range t.scopes[i] {
			m[k] = v
		}
		s.scopes = append(s.scopes, m)
		s.order = append(s.order, append([]string{}, t.order[i]...))
	}
	return s
}

func (t *tr) restore(s snapshot) { t.scopes, t.order = s.scopes, s.order }

// ---------------------------------------------------------------- expressions

// val is a translated expression: `pre` are `let x ← …` lines that must run first, `s` is a pure Lean term.
type val struct {
	pre []string
	s   string
	t   *Type
	// nonNil: a slice value known not to be nil (the result of make or of a composite literal); only such a
	// value, `nil`, an append to a KNil variable or a KNil variable may be assigned to a KNil variable
	nonNil bool
}

// expr translates an expression whose nil-ness is of no interest: a KNil variable is read as its contents.
func (t *tr) expr(e ast.Expr) val { return t.data(t.exprN(e)) }

// data reads a KNil value as the plain slice (nil = the empty slice).
func (t *tr) data(v val) val {
	if v.t != nil && v.t.K == KNil {
		return val{pre: v.pre, s: "GoLib.nilData " + paren(v.s), t: v.t.Elem}
	}
	return v
}

func paren(s string) string {
	if strings.HasPrefix(s, "-") || strings.HasPrefix(s, "!") {
		return "(" + s + ")"
	}
	if strings.ContainsAny(s, " ") && !(strings.HasPrefix(s, "(") && matchingParen(s)) && !(strings.HasPrefix(s, "[") && strings.HasSuffix(s, "]") && !strings.Contains(s[1:], "[")) {
		return "(" + s + ")"
	}
	return s
}

func matchingParen(s string) bool {
	d := 0
	for i, c := range s {
		if c == '(' {
			d++
		} else if c == ')' {
			d--
			if d == 0 && i != len(s)-1 {
				return false
			}
		}
	}
	return d == 0
}

func leanBytes(s string) string {
	parts := make([]string, len(s))
	for i := 0; i < len(s); i++ {
		parts[i] = strconv.Itoa(int(s[i]))
	}
	return "[" + strings.Join(parts, ", ") + "]"
}

func (t *tr) exprN(e ast.Expr) val {
	switch v := e.(type) {
	case *ast.ParenExpr:
		return t.exprN(v.X)
	case *ast.BasicLit:
		switch v.Kind {
		case token.INT:
			return val{s: v.Value, t: TInt}
		case token.CHAR:
			r, _, _, err := strconv.UnquoteChar(v.Value[1:len(v.Value)-1], '\'')
			if err != nil || r > 255 {
				t.fail(e, "unsupported rune literal %s", v.Value)
			}
			return val{s: strconv.Itoa(int(r)), t: TByte}
		case token.STRING:
			s, err := strconv.Unquote(v.Value)
			if err != nil {
				t.fail(e, "bad string literal")
			}
			return val{s: "(" + leanBytes(s) + " : Bytes)", t: TStr}
		}
	case *ast.Ident:
		switch v.Name {
		case "true", "false":
			return val{s: v.Name, t: TBool}
		case "nil":
			return val{s: "nil", t: nil} // resolved by the context (assignment / return / call argument)
		case "iota":
			if t.iota >= 0 && t.lookup("iota") == nil {
				return val{s: strconv.Itoa(t.iota), t: TInt}
			}
		}
		if vi := t.lookup(v.Name); vi != nil {
			if vi.t.K == KBuffer {
				t.fail(e, "%s is a %s: only its Write / WriteString / WriteByte statements, fmt.Fprintf(&%s, …), String(), Len() and Bytes() in a return are in the subset", v.Name, vi.t.Name, v.Name)
			}
			if vi.t.K == KReader {
				// a reader used as a VALUE is handed on (bufio.NewReader(f), T{b: b}): the variable must not be used again
				if t.moved[vi] {
					t.fail(e, "the reader %s is used after it was handed on (it would alias)", v.Name)
				}
				if len(t.loops) > 0 || t.direct > 0 {
					t.fail(e, "the reader %s is handed on inside a loop or a branch", v.Name)
				}
				t.moved[vi] = true
			}
			if t.threadedStruct(vi.t) {
				t.fail(e, "%s is a threaded structure: only its fields and methods are in the subset (as a value the pointer would alias)", v.Name)
			}
			if vi.t.K == KIntMap {
				t.fail(e, "%s is a map[string]int: only %s[k], %s[k] = v and v, ok := %s[k] are in the subset (as a value the map would alias; range over it has no fixed order)", v.Name, v.Name, v.Name, v.Name)
			}
			return val{s: vi.lean, t: vi.t}
		}
		if g, ok := t.cfg.Globals[v.Name]; ok {
			return val{s: g.Lean, t: g.T}
		}
		if init, iota := t.topLevelIota(v.Name); init != nil && !t.inGlobal[v.Name] {
			// a package-level constant or variable with a side-effect-free initializer: inline its value
			// (variables are assumed never to be reassigned — true of the literal tables this is used for)
			t.inGlobal[v.Name] = true
			saveS, saveO, saveI := t.scopes, t.order, t.iota
			t.scopes, t.order, t.iota = nil, nil, iota
			x := t.expr(init)
			t.scopes, t.order, t.iota = saveS, saveO, saveI
			delete(t.inGlobal, v.Name)
			if len(x.pre) > 0 || x.t == nil {
				t.fail(e, "package-level %s has an initializer outside the subset", v.Name)
			}
			return val{s: paren(x.s), t: x.t}
		}
		t.fail(e, "unknown identifier %s", v.Name)
	case *ast.UnaryExpr:
		if cl, ok := v.X.(*ast.CompositeLit); ok && v.Op == token.AND {
			if ev, ok := t.errorLit(cl); ok {
				return ev
			}
			if ty := t.litType(cl); t.threadedStruct(ty) { // r := &T{…}: the structure itself, r is threaded through the calls of its methods
				return t.exprN(cl)
			}
		}
		x := t.expr(v.X)
		switch v.Op {
		case token.NOT:
			return val{pre: x.pre, s: "!" + paren(x.s), t: TBool}
		case token.SUB:
			return val{pre: x.pre, s: "-" + paren(x.s), t: x.t}
		case token.ADD: // unary plus (`return +1`): the operand itself
			if x.t != nil && (x.t.K == KInt || x.t.K == KByte) {
				return x
			}
		}
	case *ast.BinaryExpr:
		return t.binary(v)
	case *ast.StarExpr: // *p for a pointer parameter p *[]T: the slice; a nil pointer panics
		if id, ok := v.X.(*ast.Ident); ok {
			if vi := t.lookup(id.Name); vi != nil && vi.t.K == KPtr {
				tmp := t.tmp()
				return val{pre: []string{fmt.Sprintf("let %s ← %s", tmp, vi.lean)}, s: tmp, t: vi.t.Elem}
			}
		}
	case *ast.IndexExpr:
		if vi := t.intMapVar(v.X); vi != nil { // m[k] of a local map[string]int: never panics, a missing key reads 0
			before := t.nEff
			i := t.expr(v.Index)
			t.noEffSince(before, e)
			if i.t == nil || i.t.K != KBytes {
				t.fail(e, "unsupported map index")
			}
			return val{pre: i.pre, s: "GoLib.mapGet " + vi.lean + " " + paren(i.s), t: TInt}
		}
		before := t.nEff
		x, i := t.expr(v.X), t.expr(v.Index)
		t.noEffSince(before, e)
		if x.t != nil && x.t.K == KMap { // read of a map[string]bool: never panics, a missing key reads false
			if len(x.pre) > 0 || i.t == nil || i.t.K != KBytes {
				t.fail(e, "unsupported map index")
			}
			return val{pre: i.pre, s: paren(x.s) + " " + paren(i.s), t: TBool}
		}
		if x.t == nil || (x.t.K != KBytes && x.t.K != KList) {
			t.fail(e, "index of a non-slice")
		}
		tmp := t.tmp()
		pre := append(append([]string{}, x.pre...), i.pre...)
		pre = append(pre, fmt.Sprintf("let %s ← GoLib.idx? %s %s", tmp, paren(x.s), paren(i.s)))
		et := TByte
		if x.t.K == KList {
			et = x.t.Elem
		}
		return val{pre: pre, s: tmp, t: et}
	case *ast.SliceExpr:
		if v.Slice3 {
			t.fail(e, "3-index slice")
		}
		before := t.nEff
		defer func() { t.noEffSince(before, e) }()
		x := t.expr(v.X)
		pre := append([]string{}, x.pre...)
		lo, hi := "0", "(GoLib.len "+paren(x.s)+")"
		if v.Low != nil {
			l := t.expr(v.Low)
			pre = append(pre, l.pre...)
			lo = paren(l.s)
		}
		if v.High != nil {
			h := t.expr(v.High)
			pre = append(pre, h.pre...)
			hi = paren(h.s)
		}
		tmp := t.tmp()
		pre = append(pre, fmt.Sprintf("let %s ← GoLib.slice? %s %s %s", tmp, paren(x.s), lo, hi))
		return val{pre: pre, s: tmp, t: x.t}
	case *ast.SelectorExpr:
		if id, ok := v.X.(*ast.Ident); ok && t.lookup(id.Name) == nil {
			if g, ok := t.cfg.Globals[id.Name+"."+v.Sel.Name]; ok { // a constant of another package (utf8.RuneSelf)
				return val{s: g.Lean, t: g.T}
			}
		}
		if id, ok := v.X.(*ast.Ident); ok && t.lookup(id.Name) != nil {
			x := t.lookup(id.Name)
			if x.t.K == KStruct {
				for _, f := range t.structOf(x.t).Fields {
					if f.Go == v.Sel.Name {
						if f.T.K == KReader {
							t.fail(e, "the reader %s as a value (it would alias): only its methods are in the subset", t.src(e))
						}
						return val{s: x.lean + "." + f.Lean, t: f.T}
					}
				}
			}
		}
		t.fail(e, "unsupported selector %s", t.src(e))
	case *ast.CompositeLit:
		if ev, ok := t.errorLit(v); ok {
			return ev
		}
		ty := t.typeExpr(v.Type)
		if ty.K == KStruct {
			s := t.structOf(ty)
			vals := map[string]string{}
			var pre []string
			before := t.nEff
			defer func() { t.noEffSince(before, e) }()
			for i, el := range v.Elts {
				if kv, ok := el.(*ast.KeyValueExpr); ok {
					x := t.coerce(t.expr(kv.Value), t.fieldType(s, kv.Key.(*ast.Ident).Name))
					pre = append(pre, x.pre...)
					vals[kv.Key.(*ast.Ident).Name] = x.s
				} else {
					x := t.coerce(t.expr(el), s.Fields[i].T)
					pre = append(pre, x.pre...)
					vals[s.Fields[i].Go] = x.s
				}
			}
			parts := make([]string, len(s.Fields))
			for i, f := range s.Fields {
				x, ok := vals[f.Go]
				if !ok {
					if f.T.K == KReader {
						t.fail(e, "%s without a value for the reader %s (a nil reader)", s.Lean, f.Go)
					}
					x = t.zero(f.T)
				}
				parts[i] = f.Lean + " := " + x
			}
			return val{pre: pre, s: "({ " + strings.Join(parts, ", ") + " } : " + s.Lean + ")", t: ty}
		}
		if ty.K == KBytes || ty.K == KList {
			var pre, parts []string
			et := TByte
			if ty.K == KList {
				et = ty.Elem
			}
			for _, el := range v.Elts {
				x := t.coerce(t.expr(el), et)
				pre = append(pre, x.pre...)
				parts = append(parts, x.s)
			}
			return val{pre: pre, s: "([" + strings.Join(parts, ", ") + "] : " + ty.Lean() + ")", t: ty, nonNil: true}
		}
	case *ast.CallExpr:
		return t.call(v)
	}
	t.fail(e, "unsupported expression %s", t.src(e))
	return val{}
}

// intMapVar: e is the name of a local map[string]int (KIntMap).
func (t *tr) intMapVar(e ast.Expr) *varInfo {
	if id, ok := e.(*ast.Ident); ok {
		if vi := t.lookup(id.Name); vi != nil && vi.t.K == KIntMap {
			return vi
		}
	}
	return nil
}

// litType is the type of a composite literal when it is a configured structure (nil otherwise).
func (t *tr) litType(cl *ast.CompositeLit) *Type {
	id, ok := cl.Type.(*ast.Ident)
	if !ok || t.lookup(id.Name) != nil {
		return nil
	}
	if s, ok := t.cfg.Structs[id.Name]; ok {
		return &Type{K: KStruct, Name: s.Lean}
	}
	return nil
}

// noEffSince rejects an expression some operand of which rebinds a variable (a threaded call, ReadByte): the pure
// parts of the other operands are Lean terms evaluated AFTER every `let` line, so the Go evaluation order would be lost.
func (t *tr) noEffSince(before int, n ast.Node) {
	if t.nEff != before {
		t.fail(n, "a call that modifies its receiver inside %s is outside the subset (evaluation order)", t.src(n))
	}
}

// pureConst: a Lean term that no rebinding can change (a temporary or a literal).
func pureConst(s string) bool {
	if isTmp(s) || s == "true" || s == "false" {
		return true
	}
	_, err := strconv.Atoi(s)
	return err == nil || (strings.HasPrefix(s, "([") && strings.HasSuffix(s, "] : Bytes)"))
}

// errorLit translates `T{…}` / `&T{…}` for a configured error type T (Config.ErrorTypes; the file must declare
// `func (e *T) Error() string` or `func (e T) Error() string`): an opaque non-nil error whose message is the
// type name.  The field values are evaluated (they may panic) and dropped.
func (t *tr) errorLit(cl *ast.CompositeLit) (val, bool) {
	id, ok := cl.Type.(*ast.Ident)
	if !ok || !t.cfg.ErrorTypes[id.Name] || t.lookup(id.Name) != nil {
		return val{}, false
	}
	hasMethod := false
	if t.file != nil {
		for _, d := range t.file.Decls {
			fd, ok := d.(*ast.FuncDecl)
			if !ok || fd.Recv == nil || len(fd.Recv.List) != 1 || fd.Name.Name != "Error" {
				continue
			}
			rt := fd.Recv.List[0].Type
			if st, ok := rt.(*ast.StarExpr); ok {
				rt = st.X
			}
			if rid, ok := rt.(*ast.Ident); ok && rid.Name == id.Name && len(fd.Type.Params.List) == 0 &&
				fd.Type.Results != nil && len(fd.Type.Results.List) == 1 && t.src(fd.Type.Results.List[0].Type) == "string" {
				hasMethod = true
			}
		}
	}
	if !hasMethod {
		t.fail(cl, "%s is configured as an error type but has no Error() string method", id.Name)
	}
	var pre []string
	for _, el := range cl.Elts {
		e := el
		if kv, ok := el.(*ast.KeyValueExpr); ok {
			e = kv.Value
		}
		x := t.expr(e)
		pre = append(pre, x.pre...)
	}
	return val{pre: pre, s: "(some " + leanBytes(id.Name) + " : GoError)", t: TError}, true
}

func (t *tr) fieldType(s *Struct, name string) *Type {
	for _, f := range s.Fields {
		if f.Go == name {
			return f.T
		}
	}
	return nil
}

// coerce resolves `nil` against the expected type.
func (t *tr) coerce(v val, want *Type) val {
	if v.t == nil && v.s == "nil" {
		if want == nil {
			panic(bail{fmt.Errorf("nil in a context without a type")})
		}
		return val{s: t.zero(want), t: want}
	}
	if want != nil && want.K == KNil {
		if v.t != nil && v.t.K == KNil {
			return v
		}
		if !v.nonNil {
			panic(bail{fmt.Errorf("assignment of %s to a slice variable that is tested for nil: only nil, make, a composite literal, an append to it, or another such variable", v.s)})
		}
		return val{pre: v.pre, s: "some " + paren(v.s), t: want}
	}
	if v.t != nil && v.t.K == KNil {
		return t.data(v)
	}
	return v
}

func (t *tr) binary(v *ast.BinaryExpr) val {
	switch v.Op {
	case token.LAND, token.LOR:
		x := t.expr(v.X)
		mid := t.nEff
		y := t.expr(v.Y)
		t.noEffSince(mid, v.Y) // the right operand is evaluated conditionally: a rebinding there could not escape
		op := " && "
		if v.Op == token.LOR {
			op = " || "
		}
		if len(y.pre) == 0 {
			return val{pre: x.pre, s: paren(x.s) + op + paren(y.s), t: TBool}
		}
		// short circuit: the right operand can panic
		tmp := t.tmp()
		inner := "(do\n" + indent(strings.Join(append(append([]string{}, y.pre...), "pure "+paren(y.s)), "\n"), 2) + ")"
		var line string
		if v.Op == token.LAND {
			line = fmt.Sprintf("let %s ← (if %s then %s else pure false)", tmp, x.s, inner)
		} else {
			line = fmt.Sprintf("let %s ← (if %s then pure true else %s)", tmp, x.s, inner)
		}
		return val{pre: append(append([]string{}, x.pre...), line), s: tmp, t: TBool}
	}
	x := t.exprN(v.X)
	mid := t.nEff
	y := t.exprN(v.Y)
	if t.nEff != mid && !pureConst(x.s) {
		t.noEffSince(mid, v) // `r.f == r.m()`: the left operand would be read after the call
	}
	if x.t == nil && y.t == nil {
		t.fail(v, "nil compared with nil")
	}
	if (x.t == nil || y.t == nil) && (v.Op == token.EQL || v.Op == token.NEQ) {
		other, ov := x.t, x
		if other == nil {
			other, ov = y.t, y
		}
		if other.K == KNil || other.K == KPtr { // the nil test of a variable whose nil-ness is tracked / of a pointer parameter
			if v.Op == token.EQL {
				return val{pre: ov.pre, s: "Option.isNone " + paren(ov.s), t: TBool}
			}
			return val{pre: ov.pre, s: "Option.isSome " + paren(ov.s), t: TBool}
		}
		if other.K != KError {
			t.fail(v, "nil test on a slice or pointer is outside the subset (nil and empty are identified)")
		}
	}
	x, y = t.data(x), t.data(y)
	x, y = t.coerce(x, y.t), t.coerce(y, x.t)
	pre := append(append([]string{}, x.pre...), y.pre...)
	a, b := paren(x.s), paren(y.s)
	if x.t != nil && y.t != nil && x.t.K == KByte && y.t.K == KInt {
		if _, err := strconv.Atoi(x.s); err == nil { // an untyped rune constant ('a' + r) takes the type of the other operand
			x.t = y.t
		}
	}
	switch v.Op {
	case token.ADD:
		if x.t.K == KBytes {
			return val{pre: pre, s: a + " ++ " + b, t: x.t}
		}
		return val{pre: pre, s: a + " + " + b, t: x.t}
	case token.SUB:
		return val{pre: pre, s: a + " - " + b, t: x.t}
	case token.MUL:
		return val{pre: pre, s: a + " * " + b, t: x.t}
	case token.EQL:
		return val{pre: pre, s: a + " == " + b, t: TBool}
	case token.NEQ:
		return val{pre: pre, s: a + " != " + b, t: TBool}
	case token.LSS:
		return val{pre: pre, s: "decide (" + x.s + " < " + y.s + ")", t: TBool}
	case token.LEQ:
		return val{pre: pre, s: "decide (" + x.s + " ≤ " + y.s + ")", t: TBool}
	case token.GTR:
		return val{pre: pre, s: "decide (" + x.s + " > " + y.s + ")", t: TBool}
	case token.GEQ:
		return val{pre: pre, s: "decide (" + x.s + " ≥ " + y.s + ")", t: TBool}
	}
	t.fail(v, "unsupported operator %s", v.Op)
	return val{}
}

func calleeName(e ast.Expr) string {
	switch v := e.(type) {
	case *ast.Ident:
		return v.Name
	case *ast.SelectorExpr:
		if id, ok := v.X.(*ast.Ident); ok {
			return id.Name + "." + v.Sel.Name
		}
	case *ast.ArrayType:
		if v.Len == nil {
			if id, ok := v.Elt.(*ast.Ident); ok {
				return "[]" + id.Name
			}
		}
	}
	return ""
}

func (t *tr) call(c *ast.CallExpr) val {
	name := calleeName(c.Fun)
	args := func() ([]string, []val) {
		var pre []string
		var vs []val
		for _, a := range c.Args {
			before := t.nEff
			x := t.expr(a)
			if t.nEff != before {
				for _, y := range vs {
					if !pureConst(y.s) {
						t.noEffSince(before, c) // an earlier argument would be read after this one's call
					}
				}
			}
			pre = append(pre, x.pre...)
			vs = append(vs, x)
		}
		return pre, vs
	}
	if sel, ok := c.Fun.(*ast.SelectorExpr); ok {
		if get, set := t.readerPlace(sel.X); get != "" {
			return t.readerCall(c, sel.Sel.Name, get, set)
		}
		if id, ok := sel.X.(*ast.Ident); ok {
			if vi := t.lookup(id.Name); vi != nil && t.threadedStruct(vi.t) {
				sig := t.methods[vi.t.Name+"."+sel.Sel.Name]
				if sig == nil {
					t.fail(c, "method %s of %s is not among the translated functions (it must come before its callers)", sel.Sel.Name, vi.t.Name)
				}
				if sig.roRecv != nil {
					// a read-only method: an ordinary call with the structure as first argument; nothing is rebound
					if c.Ellipsis.IsValid() || len(c.Args) != len(sig.params) {
						t.fail(c, "call of %s with %d arguments", sig.lean, len(c.Args))
					}
					pre, vs := args()
					var parts []string
					for _, ep := range t.cfg.ExtraParams {
						if evi := t.lookup(ep.Lean); evi != nil {
							parts = append(parts, evi.lean)
						} else {
							parts = append(parts, ep.Lean)
						}
					}
					parts = append(parts, vi.lean)
					for i, x := range vs {
						parts = append(parts, paren(t.coerce(x, sig.params[i]).s))
					}
					var rt *Type
					if len(sig.results) == 1 {
						rt = sig.results[0]
					} else {
						rt = &Type{K: KTuple, Tup: sig.results}
					}
					tmp := t.tmp()
					return val{pre: append(pre, fmt.Sprintf("let %s ← %s %s", tmp, sig.lean, strings.Join(parts, " "))), s: tmp, t: rt}
				}
				return t.threadedCall(c, vi, sig)
			}
		}
	}
	if name == "bufio.NewReader" && t.cfg.Readers && t.lookup("bufio") == nil {
		// bufio.NewReader(f): the same remaining input; f is handed on (exprN marks it moved)
		if len(c.Args) != 1 {
			t.fail(c, "bufio.NewReader with %d arguments", len(c.Args))
		}
		x := t.expr(c.Args[0])
		if x.t == nil || x.t.K != KReader {
			t.fail(c, "bufio.NewReader of something other than a reader variable")
		}
		return val{pre: x.pre, s: x.s, t: &Type{K: KReader, Name: "*bufio.Reader"}}
	}
	if id, ok := c.Fun.(*ast.Ident); ok {
		if vi := t.lookup(id.Name); vi != nil && vi.t.K == KFunc {
			// a call of a function-typed parameter: application of the opaque function (it cannot panic)
			pre, vs := args()
			if len(vs) != len(vi.t.Tup) || c.Ellipsis.IsValid() {
				t.fail(c, "call of %s with %d arguments", id.Name, len(vs))
			}
			parts := []string{vi.lean}
			for i, x := range vs {
				parts = append(parts, paren(t.coerce(x, vi.t.Tup[i]).s))
			}
			return val{pre: pre, s: strings.Join(parts, " "), t: vi.t.Elem}
		}
	}
	if vi, method := t.bufferMethod(c); vi != nil {
		// reading an accumulator (`var buf bytes.Buffer`): the bytes written so far
		if len(c.Args) != 0 {
			t.fail(c, "%s.%s in an expression is outside the subset (the writes are statements)", vi.lean, method)
		}
		switch method {
		case "String":
			return val{s: vi.lean, t: TStr}
		case "Len":
			return val{s: "GoLib.len " + vi.lean, t: TInt}
		case "Bytes":
			if vi.t.Name != "bytes.Buffer" {
				t.fail(c, "%s has no method Bytes", vi.t.Name)
			}
			if !t.inReturn {
				t.fail(c, "%s.Bytes() aliases the buffer: it is in the subset only inside a return statement", vi.lean)
			}
			return val{s: vi.lean, t: TBytes}
		}
		t.fail(c, "method %s of a %s is outside the subset", method, vi.t.Name)
	}
	if (name == "min" || name == "max") && t.lookup(name) == nil && t.funcs[name] == nil && t.topLevel(name) == nil && len(c.Args) >= 1 && !c.Ellipsis.IsValid() {
		// the builtins min / max (Go 1.21) on ints: Lean's min / max on Int, folded from the left
		pre, vs := args()
		s := ""
		for i, x := range vs {
			if x.t == nil || x.t.K != KInt {
				t.fail(c, "%s of something other than ints", name)
			}
			if i == 0 {
				s = x.s
			} else {
				s = name + " " + paren(s) + " " + paren(x.s)
			}
		}
		return val{pre: pre, s: s, t: TInt}
	}
	if name == "sort.Search" && t.lookup("sort") == nil && len(c.Args) == 2 && !c.Ellipsis.IsValid() {
		if fl, ok := c.Args[1].(*ast.FuncLit); ok {
			return t.sortSearch(c, fl)
		}
		t.fail(c, "sort.Search with a predicate that is not a function literal")
	}
	switch name {
	case "len":
		pre, vs := args()
		return val{pre: pre, s: "GoLib.len " + paren(vs[0].s), t: TInt}
	case "string", "[]byte":
		pre, vs := args()
		if name == "string" && len(vs) == 1 && vs[0].t != nil && (vs[0].t.K == KInt || vs[0].t.K == KByte) {
			// string(c) of an integer CONSTANT below utf8.RuneSelf (`string(filepath.Separator)`): the one-byte string
			if n, err := strconv.Atoi(vs[0].s); err == nil && n >= 0 && n < 128 && len(vs[0].pre) == 0 {
				return val{pre: pre, s: "([" + strconv.Itoa(n) + "] : Bytes)", t: TStr}
			}
		}
		if vs[0].t == nil || vs[0].t.K != KBytes {
			t.fail(c, "conversion %s of a non-string", name)
		}
		if name == "string" {
			return val{pre: pre, s: vs[0].s, t: TStr}
		}
		return val{pre: pre, s: vs[0].s, t: TBytes}
	case "byte", "int":
		pre, vs := args()
		ty := TByte
		if name == "int" {
			ty = TInt
		}
		if vs[0].t != nil && vs[0].t.K != ty.K {
			if _, err := strconv.Atoi(vs[0].s); err != nil {
				if name == "byte" && vs[0].t.K == KInt { // byte(r) of an int / rune: the low eight bits
					return val{pre: pre, s: "GoLib.byteOfInt " + paren(vs[0].s), t: TByte}
				}
				t.fail(c, "numeric conversion between different types is outside the subset")
			}
		}
		return val{pre: pre, s: "(" + vs[0].s + " : " + ty.Lean() + ")", t: ty}
	case "new":
		ty := t.typeExpr(c.Args[0])
		return val{s: "(" + t.zero(ty) + " : " + ty.Lean() + ")", t: ty}
	case "make":
		ty := t.typeExpr(c.Args[0])
		if ty.K == KIntMap && len(c.Args) == 1 { // make(map[string]int): the empty map
			return val{s: "GoLib.mapEmpty", t: ty, nonNil: true}
		}
		if (len(c.Args) != 2 && len(c.Args) != 3) || (ty.K != KBytes && ty.K != KList) {
			t.fail(c, "unsupported make")
		}
		et := TByte
		if ty.K == KList {
			et = ty.Elem
		}
		if len(c.Args) == 3 {
			// make([]T, 0, c): the capacity is not observable (slices are checked against len); what remains is
			// the panic on a negative capacity, kept by building (and dropping) a slice of that length
			if lit, ok := c.Args[1].(*ast.BasicLit); !ok || lit.Value != "0" {
				t.fail(c, "unsupported make: with a capacity only length 0 is in the subset")
			}
			n := t.expr(c.Args[2])
			tmp := t.tmp()
			return val{pre: append(n.pre, fmt.Sprintf("let %s ← GoLib.make? (%s : %s) %s", tmp, t.zero(et), et.Lean(), paren(n.s))), s: "([] : " + ty.Lean() + ")", t: ty, nonNil: true}
		}
		n := t.expr(c.Args[1])
		tmp := t.tmp()
		return val{pre: append(n.pre, fmt.Sprintf("let %s ← GoLib.make? (%s : %s) %s", tmp, t.zero(et), et.Lean(), paren(n.s))), s: tmp, t: ty, nonNil: true}
	case "append":
		if id, ok := c.Args[0].(*ast.Ident); ok && t.lookup(id.Name) != nil && t.lookup(id.Name).t.K == KNil {
			{
				first := t.exprN(id)
				// append to a slice variable whose nil-ness is tracked: nil stays nil only when nothing is appended
				pre := append([]string{}, first.pre...)
				var vs []val
				for _, a := range c.Args[1:] {
					x := t.expr(a)
					pre = append(pre, x.pre...)
					vs = append(vs, x)
				}
				if len(vs) == 0 {
					return val{pre: pre, s: first.s, t: first.t}
				}
				if c.Ellipsis.IsValid() {
					if len(vs) != 1 || vs[0].t == nil {
						t.fail(c, "unsupported append")
					}
					return val{pre: pre, s: "GoLib.nilAppend " + paren(first.s) + " " + paren(vs[0].s), t: first.t}
				}
				et := TByte
				if first.t.Elem.K == KList {
					et = first.t.Elem.Elem
				}
				parts := []string{}
				for _, x := range vs {
					parts = append(parts, t.coerce(x, et).s)
				}
				return val{pre: pre, s: "GoLib.nilAppend " + paren(first.s) + " [" + strings.Join(parts, ", ") + "]", t: first.t}
			}
		}
		pre, vs := args()
		if vs[0].t == nil || (vs[0].t.K != KBytes && vs[0].t.K != KList) {
			t.fail(c, "append to a non-slice")
		}
		if c.Ellipsis.IsValid() {
			return val{pre: pre, s: paren(vs[0].s) + " ++ " + paren(vs[1].s), t: vs[0].t}
		}
		et := TByte
		if vs[0].t.K == KList {
			et = vs[0].t.Elem
		}
		parts := []string{}
		for _, x := range vs[1:] {
			parts = append(parts, t.coerce(x, et).s)
		}
		return val{pre: pre, s: paren(vs[0].s) + " ++ [" + strings.Join(parts, ", ") + "]", t: vs[0].t}
	case "errors.New", "fmt.Errorf":
		if len(c.Args) == 0 || (len(c.Args) != 1 && (name != "fmt.Errorf" || !t.cfg.OpaqueErrors)) {
			t.fail(c, "%s with arguments", name)
		}
		x := t.expr(c.Args[0])
		pre := append([]string{}, x.pre...)
		for _, a := range c.Args[1:] {
			// OpaqueErrors: the message is the format string, unformatted; the operands are evaluated (they may
			// panic) and dropped — only nil / non-nil of an error is meaningful in such a translation
			y := t.expr(a)
			pre = append(pre, y.pre...)
		}
		return val{pre: pre, s: "(some " + paren(x.s) + " : GoError)", t: TError}
	}
	if lf, ok := t.cfg.Lib[name]; ok {
		pre, vs := args()
		var parts []string
		for i, x := range vs {
			if lf.FixedArgs != nil && i < len(lf.FixedArgs) && lf.FixedArgs[i] != "" {
				if got := strings.Join(strings.Fields(t.src(c.Args[i])), ""); got != lf.FixedArgs[i] {
					t.fail(c, "%s: argument %d is %s, only %s is modelled", name, i, got, lf.FixedArgs[i])
				}
				continue
			}
			if x.t == nil {
				t.fail(c, "nil argument to %s", name)
			}
			parts = append(parts, paren(x.s))
		}
		s := lf.Lean + " " + strings.Join(parts, " ")
		if lf.Option {
			tmp := t.tmp()
			return val{pre: append(pre, fmt.Sprintf("let %s ← %s", tmp, s)), s: tmp, t: lf.Ret}
		}
		return val{pre: pre, s: s, t: lf.Ret}
	}
	if sig, ok := t.funcs[name]; ok && sig.threads() {
		return t.threadedCall(c, nil, sig)
	}
	if sig, ok := t.funcs[name]; ok {
		pre, vs := args()
		var parts []string
		for _, ep := range t.cfg.ExtraParams {
			if vi := t.lookup(ep.Lean); vi != nil {
				parts = append(parts, vi.lean)
			} else {
				parts = append(parts, ep.Lean)
			}
		}
		for i, x := range vs {
			parts = append(parts, paren(t.coerce(x, sig.params[i]).s))
		}
		if t.selfRec && t.fn != nil && t.fn.Recv == nil && name == t.fn.Name.Name {
			// a self-call: one unit of the recursion budget
			var rt *Type
			if len(sig.results) == 1 {
				rt = sig.results[0]
			} else {
				rt = &Type{K: KTuple, Tup: sig.results}
			}
			tmp := t.tmp()
			return val{pre: append(pre, fmt.Sprintf("let %s ← %s_rec fuel %s", tmp, sig.lean, strings.Join(parts, " "))), s: tmp, t: rt}
		}
		var rt *Type
		if len(sig.results) == 1 {
			rt = sig.results[0]
		} else {
			rt = &Type{K: KTuple, Tup: sig.results}
		}
		tmp := t.tmp()
		return val{pre: append(pre, fmt.Sprintf("let %s ← %s %s", tmp, sig.lean, strings.Join(parts, " "))), s: tmp, t: rt}
	}
	t.fail(c, "call of %s is outside the subset", name)
	return val{}
}

// sortSearch translates `sort.Search(n, func(k int) bool { return e })`: `GoLib.sortSearch n (fun k => do …; pure e)`
// (GIV/GoLibSort.lean: Go's binary search loop, also for a predicate that is not monotone).  The closure must have one
// int parameter, the result bool and a body that is a single `return e`; e may read the variables of the enclosing
// function (their values at the call: sort.Search does not keep the closure) and may panic (`T[k]`), so the predicate
// is a function Int → Option Bool.  It cannot assign, and a call that rebinds a receiver inside e is rejected.
func (t *tr) sortSearch(c *ast.CallExpr, fl *ast.FuncLit) val {
	bad := func() { t.fail(c, "sort.Search: only `func(k int) bool { return e }` is in the subset") }
	if fl.Type.TypeParams != nil || len(fl.Type.Params.List) != 1 || len(fl.Type.Params.List[0].Names) != 1 ||
		fl.Type.Results == nil || len(fl.Type.Results.List) != 1 || len(fl.Type.Results.List[0].Names) != 0 || len(fl.Body.List) != 1 {
		bad()
	}
	ret, ok := fl.Body.List[0].(*ast.ReturnStmt)
	if !ok || len(ret.Results) != 1 {
		bad()
	}
	n := t.expr(c.Args[0])
	if n.t == nil || n.t.K != KInt {
		bad()
	}
	t.push()
	if pt, rt := t.typeExpr(fl.Type.Params.List[0].Type), t.typeExpr(fl.Type.Results.List[0].Type); pt.K != KInt || rt.K != KBool {
		bad()
	}
	pname := fl.Type.Params.List[0].Names[0].Name
	saveUsed := map[string]int{}
	for k, v := range t.used {
		saveUsed[k] = v
	}
	k := t.declare(pname, TInt)
	before := t.nEff
	saveRet, saveLoops := t.inReturn, t.loops
	t.inReturn, t.loops = false, nil
	e := t.expr(ret.Results[0])
	t.inReturn, t.loops = saveRet, saveLoops
	t.noEffSince(before, c)
	t.pop()
	t.used = saveUsed // the parameter's name is free again after the closure
	if e.t == nil || e.t.K != KBool {
		bad()
	}
	tmp := t.tmp()
	line := fmt.Sprintf("let %s ← GoLib.sortSearch %s (fun %s => do\n%s)", tmp, paren(n.s), k.lean, indent(join(e.pre, "pure "+paren(e.s)), 4))
	return val{pre: append(append([]string{}, n.pre...), line), s: tmp, t: TInt}
}

// ---------------------------------------------------------------- threaded receivers, pointer parameters, readers

// threadedCall translates `x.m(args)` for a threaded method m of the structure variable x (recv = x), or `f(args)`
// for a function with pointer parameters (recv = nil): `let (t1, …, x, p, …) ← m x args`, which REBINDS x and the
// pointer arguments (same Lean names: everything translated afterwards reads the new values).
func (t *tr) threadedCall(c *ast.CallExpr, recv *varInfo, sig *funcSig) val {
	if c.Ellipsis.IsValid() || len(c.Args) != len(sig.params) {
		t.fail(c, "call of %s with %d arguments", sig.lean, len(c.Args))
	}
	var pre, parts, ptrOuts []string
	for _, ep := range t.cfg.ExtraParams {
		if vi := t.lookup(ep.Lean); vi != nil {
			parts = append(parts, vi.lean)
		} else {
			parts = append(parts, ep.Lean)
		}
	}
	if recv != nil {
		parts = append(parts, recv.lean)
	}
	seen := map[*varInfo]bool{recv: true}
	var pures []string
	for i, a := range c.Args {
		if sig.params[i].K == KPtr {
			id, ok := a.(*ast.Ident)
			var vi *varInfo
			if ok {
				vi = t.lookup(id.Name)
			}
			if vi == nil || vi.t.K != KPtr || vi.t.Lean() != sig.params[i].Lean() || seen[vi] {
				t.fail(a, "the argument for a pointer parameter must be a pointer parameter of the caller (passed once)")
			}
			seen[vi] = true
			parts = append(parts, vi.lean)
			ptrOuts = append(ptrOuts, vi.lean)
			continue
		}
		before := t.nEff
		x := t.coerce(t.expr(a), sig.params[i])
		if x.t != nil && (x.t.K == KPtr || x.t.K == KReader) {
			t.fail(a, "a pointer or reader argument for a value parameter")
		}
		if t.nEff != before {
			for _, y := range pures {
				if !pureConst(y) {
					t.noEffSince(before, c)
				}
			}
		}
		pre = append(pre, x.pre...)
		pures = append(pures, x.s)
		parts = append(parts, paren(x.s))
	}
	var pat []string
	var tmps []string
	for range sig.results {
		tmp := t.tmp()
		pat = append(pat, tmp)
		tmps = append(tmps, tmp)
	}
	if recv != nil {
		pat = append(pat, recv.lean)
	}
	pat = append(pat, ptrOuts...)
	lhs := pat[0]
	if len(pat) > 1 {
		lhs = "(" + strings.Join(pat, ", ") + ")"
	}
	pre = append(pre, fmt.Sprintf("let %s ← %s %s", lhs, sig.lean, strings.Join(parts, " ")))
	t.nEff++
	switch len(tmps) {
	case 0:
		return val{pre: pre, s: "()", t: &Type{K: KTuple}}
	case 1:
		return val{pre: pre, s: tmps[0], t: sig.results[0]}
	}
	return val{pre: pre, s: "(" + strings.Join(tmps, ", ") + ")", t: &Type{K: KTuple, Tup: sig.results}}
}

// readerPlace recognises a `*bufio.Reader` that can be read from: a local variable b (get = "b") or the field of a
// structure variable r.b (get = "r.b"); set(v) is the `let` line that stores the remaining input v back.
func (t *tr) readerPlace(e ast.Expr) (get string, set func(string) string) {
	switch v := e.(type) {
	case *ast.Ident:
		if vi := t.lookup(v.Name); vi != nil && vi.t.K == KReader && vi.t.Name == "*bufio.Reader" {
			if t.moved[vi] {
				t.fail(e, "the reader %s is used after it was handed on (it would alias)", v.Name)
			}
			return vi.lean, func(x string) string { return fmt.Sprintf("let %s : Bytes := %s", vi.lean, x) }
		}
	case *ast.SelectorExpr:
		if id, ok := v.X.(*ast.Ident); ok {
			if vi := t.lookup(id.Name); vi != nil && vi.t.K == KStruct {
				for _, f := range t.structOf(vi.t).Fields {
					if f.Go == v.Sel.Name && f.T.K == KReader {
						return vi.lean + "." + f.Lean, func(x string) string {
							return fmt.Sprintf("let %s : %s := { %s with %s := %s }", vi.lean, vi.t.Lean(), vi.lean, f.Lean, x)
						}
					}
				}
			}
		}
	}
	return "", nil
}

// readerCall: the methods of *bufio.Reader in the subset, in an expression.  The reader is the remaining input and
// never fails other than by running out (GIV/GoLibReader.lean).
func (t *tr) readerCall(c *ast.CallExpr, method, get string, set func(string) string) val {
	switch method {
	case "ReadByte": // (c, nil) and one byte consumed, or (0, io.EOF)
		if len(c.Args) != 0 {
			t.fail(c, "ReadByte with arguments")
		}
		b, e, rest := t.tmp(), t.tmp(), t.tmp()
		t.nEff++
		return val{pre: []string{fmt.Sprintf("let (%s, %s, %s) := GoLib.readerReadByte %s", b, e, rest, get), set(rest)},
			s: "(" + b + ", " + e + ")", t: &Type{K: KTuple, Tup: []*Type{TByte, TError}}}
	case "Peek": // the next n bytes, not consumed; fewer (and io.EOF) at the end of the input
		if t.peekOK != c {
			t.fail(c, "Peek is in the subset only as `if x, err := b.Peek(n); cond { … }` with x used in cond alone (the slice aliases the reader's buffer)")
		}
		return val{s: fmt.Sprintf("GoLib.readerPeek %s %s", get, t.smallLit(c)), t: &Type{K: KTuple, Tup: []*Type{TBytes, TError}}}
	}
	t.fail(c, "method %s of a *bufio.Reader in an expression is outside the subset", method)
	return val{}
}

// smallLit: the single argument of Peek / Discard must be an integer literal 0 … 16 (16 = the smallest buffer a
// bufio.Reader can have, so ErrBufferFull and ErrNegativeCount cannot occur).
func (t *tr) smallLit(c *ast.CallExpr) string {
	if len(c.Args) == 1 {
		if lit, ok := c.Args[0].(*ast.BasicLit); ok && lit.Kind == token.INT {
			if n, err := strconv.Atoi(lit.Value); err == nil && n >= 0 && n <= 16 {
				return strconv.Itoa(n)
			}
		}
	}
	t.fail(c, "%s: the count must be an integer literal 0 … 16", t.src(c))
	return ""
}

// effectStmt translates an expression statement that is a rebinding call whose results are dropped:
// `r.m(x)`, `f(p)`, `r.b.ReadByte()`, `b.Discard(n)`.  ok = false: not such a statement.
func (t *tr) effectStmt(c *ast.CallExpr) (lines []string, ok bool) {
	if sel, isSel := c.Fun.(*ast.SelectorExpr); isSel {
		if get, set := t.readerPlace(sel.X); get != "" {
			if sel.Sel.Name == "Discard" { // the next n bytes are skipped (fewer at the end of the input); results dropped
				t.nEff++
				return []string{set(fmt.Sprintf("GoLib.readerDiscard %s %s", get, t.smallLit(c)))}, true
			}
			if sel.Sel.Name == "ReadByte" {
				return t.expr(c).pre, true
			}
			return nil, false
		}
		if id, isId := sel.X.(*ast.Ident); isId {
			if vi := t.lookup(id.Name); vi != nil && t.threadedStruct(vi.t) {
				return t.expr(c).pre, true
			}
		}
	}
	if sig, isFn := t.funcs[calleeName(c.Fun)]; isFn && sig.threads() {
		return t.expr(c).pre, true
	}
	return nil, false
}

// rebound lists the Go names a call rebinds: the receiver of a threaded method or of a reader method, the
// structure holding the reader, the pointer arguments.
func (t *tr) rebound(c *ast.CallExpr, note func(string)) {
	if sel, ok := c.Fun.(*ast.SelectorExpr); ok {
		switch x := sel.X.(type) {
		case *ast.Ident:
			if vi := t.lookup(x.Name); vi != nil && (t.threadedStruct(vi.t) || vi.t.K == KReader) {
				note(x.Name)
			}
		case *ast.SelectorExpr:
			if id, ok := x.X.(*ast.Ident); ok {
				if get, _ := t.readerPlace(x); get != "" {
					note(id.Name)
				}
			}
		}
	}
	for _, a := range c.Args {
		if id, ok := a.(*ast.Ident); ok {
			if vi := t.lookup(id.Name); vi != nil && vi.t.K == KPtr {
				note(id.Name)
			}
		}
	}
}

// ---------------------------------------------------------------- accumulators (bytes.Buffer, strings.Builder)

// bufferType recognises the types `bytes.Buffer` and `strings.Builder` (the package names not shadowed).
func (t *tr) bufferType(e ast.Expr) *Type {
	sel, ok := e.(*ast.SelectorExpr)
	if !ok {
		return nil
	}
	id, ok := sel.X.(*ast.Ident)
	if !ok || t.lookup(id.Name) != nil {
		return nil
	}
	switch id.Name + "." + sel.Sel.Name {
	case "bytes.Buffer":
		return TBuffer
	case "strings.Builder":
		return &Type{K: KBuffer, Name: "strings.Builder"}
	}
	return nil
}

// bufferMethod recognises `buf.M(…)` for a local accumulator buf.
func (t *tr) bufferMethod(c *ast.CallExpr) (*varInfo, string) {
	sel, ok := c.Fun.(*ast.SelectorExpr)
	if !ok {
		return nil, ""
	}
	id, ok := sel.X.(*ast.Ident)
	if !ok {
		return nil, ""
	}
	if vi := t.lookup(id.Name); vi != nil && vi.t.K == KBuffer {
		return vi, sel.Sel.Name
	}
	return nil, ""
}

// bufferWritten names the accumulator an expression statement writes to: `buf.Write(p)`, `buf.WriteString(s)`,
// `buf.WriteByte(c)` or `fmt.Fprintf(&buf, …)`; nil when the statement is none of these.
func (t *tr) bufferWritten(c *ast.CallExpr) *varInfo {
	if vi, m := t.bufferMethod(c); vi != nil {
		if m == "Write" || m == "WriteString" || m == "WriteByte" {
			return vi
		}
		return nil
	}
	if calleeName(c.Fun) == "fmt.Fprintf" && t.lookup("fmt") == nil && len(c.Args) >= 1 {
		if u, ok := c.Args[0].(*ast.UnaryExpr); ok && u.Op == token.AND {
			if id, ok := u.X.(*ast.Ident); ok {
				if vi := t.lookup(id.Name); vi != nil && vi.t.K == KBuffer {
					return vi
				}
			}
		}
	}
	return nil
}

// bufferWrite translates a statement that writes to an accumulator (see bufferWritten) into `let` lines.
func (t *tr) bufferWrite(c *ast.CallExpr, vi *varInfo) []string {
	if _, m := t.bufferMethod(c); m != "" {
		if len(c.Args) != 1 || c.Ellipsis.IsValid() {
			t.fail(c, "%s with %d arguments", m, len(c.Args))
		}
		x := t.expr(c.Args[0])
		if m == "WriteByte" {
			x = t.coerce(x, TByte)
			if _, err := strconv.Atoi(x.s); err == nil && x.t != nil && x.t.K == KInt { // an untyped constant
				x.t = TByte
			}
			if x.t == nil || x.t.K != KByte {
				t.fail(c, "WriteByte of a non-byte")
			}
			return append(x.pre, fmt.Sprintf("let %s : Bytes := %s ++ [%s]", vi.lean, vi.lean, x.s))
		}
		if x.t == nil || x.t.K != KBytes {
			t.fail(c, "%s of something other than a string or []byte", m)
		}
		return append(x.pre, fmt.Sprintf("let %s : Bytes := %s ++ %s", vi.lean, vi.lean, paren(x.s)))
	}
	// fmt.Fprintf(&buf, "literal with %s verbs only", args…)
	if len(c.Args) < 2 || c.Ellipsis.IsValid() {
		t.fail(c, "fmt.Fprintf without a format")
	}
	lit, ok := c.Args[1].(*ast.BasicLit)
	if !ok || lit.Kind != token.STRING {
		t.fail(c, "fmt.Fprintf with a format that is not a string literal")
	}
	format, err := strconv.Unquote(lit.Value)
	if err != nil {
		t.fail(c, "bad string literal")
	}
	var pre, parts []string
	args := c.Args[2:]
	piece := ""
	flush := func() {
		if piece != "" {
			parts = append(parts, "("+leanBytes(piece)+" : Bytes)")
			piece = ""
		}
	}
	for i := 0; i < len(format); i++ {
		if format[i] != '%' {
			piece += format[i : i+1]
			continue
		}
		i++
		switch {
		case i < len(format) && format[i] == '%':
			piece += "%"
		case i < len(format) && format[i] == 's':
			if len(args) == 0 {
				t.fail(c, "fmt.Fprintf: more %%s verbs than arguments")
			}
			x := t.expr(args[0])
			args = args[1:]
			if x.t == nil || x.t.K != KBytes {
				t.fail(c, "fmt.Fprintf: the argument of %%s is not a string or []byte")
			}
			flush()
			pre = append(pre, x.pre...)
			parts = append(parts, paren(x.s))
		case i < len(format) && format[i] == 'd':
			if len(args) == 0 {
				t.fail(c, "fmt.Fprintf: more verbs than arguments")
			}
			x := t.expr(args[0])
			args = args[1:]
			if x.t == nil || x.t.K != KInt {
				t.fail(c, "fmt.Fprintf: the argument of %%d is not an int")
			}
			flush()
			pre = append(pre, x.pre...)
			parts = append(parts, "(GoLib.fmtInt "+paren(x.s)+")")
		default:
			t.fail(c, "fmt.Fprintf: only plain %%s and %%d verbs (and %%%%) are in the subset, the format is %s", lit.Value)
		}
	}
	flush()
	if len(args) != 0 {
		t.fail(c, "fmt.Fprintf: more arguments than %%s verbs")
	}
	if len(parts) == 0 {
		return pre
	}
	return append(pre, fmt.Sprintf("let %s : Bytes := %s ++ %s", vi.lean, vi.lean, strings.Join(parts, " ++ ")))
}

// ---------------------------------------------------------------- statements

func indent(s string, n int) string {
	pad := strings.Repeat(" ", n)
	lines := strings.Split(s, "\n")
	for i, l := range lines {
		if l != "" {
			lines[i] = pad + l
		}
	}
	return strings.Join(lines, "\n")
}

func join(lines []string, rest string) string {
	if len(lines) == 0 {
		return rest
	}
	return strings.Join(lines, "\n") + "\n" + rest
}

// abortCalls is set for the duration of one Translate call (calls that never return).
var abortCalls map[string]bool

// terminates: control never falls out of the end of the statement list.
func terminates(list []ast.Stmt) bool {
	if len(list) == 0 {
		return false
	}
	switch s := list[len(list)-1].(type) {
	case *ast.ReturnStmt:
		return true
	case *ast.BranchStmt:
		return s.Tok == token.BREAK || s.Tok == token.CONTINUE
	case *ast.BlockStmt:
		return terminates(s.List)
	case *ast.IfStmt:
		if s.Else == nil {
			return false
		}
		var el []ast.Stmt
		switch e := s.Else.(type) {
		case *ast.BlockStmt:
			el = e.List
		default:
			el = []ast.Stmt{e}
		}
		return terminates(s.Body.List) && terminates(el)
	case *ast.ForStmt:
		return s.Cond == nil && !hasBreak(s.Body)
	case *ast.SwitchStmt:
		if d, _ := desugarSwitch(s); d != nil {
			return terminates([]ast.Stmt{d})
		}
	case *ast.ExprStmt:
		if c, ok := s.X.(*ast.CallExpr); ok {
			if id, ok := c.Fun.(*ast.Ident); ok && id.Name == "panic" {
				return true
			}
			if abortCalls[calleeName(c.Fun)] {
				return true
			}
		}
	}
	return false
}

func hasBreak(n ast.Node) bool {
	found := false
	ast.Inspect(n, func(x ast.Node) bool {
		switch v := x.(type) {
		case *ast.ForStmt, *ast.RangeStmt, *ast.SwitchStmt, *ast.SelectStmt:
			if x != n {
				return false
			}
		case *ast.BranchStmt:
			if v.Tok == token.BREAK {
				found = true
			}
		}
		return true
	})
	return found
}

// desugarSwitch rewrites an expression switch as the if-chain it abbreviates:
//
//	switch init; tag { case a, b: A; default: D; case c: C }
//	  ⇒  { init; if tag == a || tag == b { A } else if tag == c { C } else { D } }
//
// (no tag: the case expressions themselves are the conditions).  The case expressions are evaluated top
// to bottom, left to right, until one matches — the order of the `||` chain, whose short circuit the
// translation keeps; `default` runs when none matches, wherever it is written.  A tag that is not an
// identifier or a literal is evaluated once into a fresh variable.  `fallthrough`, an unlabelled
// `break` that leaves the switch, and type switches are outside the subset.  The original tree is not
// modified.
func desugarSwitch(s *ast.SwitchStmt) (ast.Stmt, string) {
	var pre []ast.Stmt
	if s.Init != nil {
		pre = append(pre, s.Init)
	}
	tag := s.Tag
	if tag != nil {
		switch tag.(type) {
		case *ast.Ident, *ast.BasicLit:
		default:
			id := ast.NewIdent("switchTag")
			pre = append(pre, &ast.AssignStmt{Lhs: []ast.Expr{id}, Tok: token.DEFINE, Rhs: []ast.Expr{tag}, TokPos: tag.Pos()})
			tag = id
		}
	}
	var chain, last *ast.IfStmt
	var deflt *ast.BlockStmt
	for _, st := range s.Body.List {
		cc, ok := st.(*ast.CaseClause)
		if !ok {
			return nil, "unsupported switch"
		}
		bad := ""
		for _, b := range cc.Body {
			ast.Inspect(b, func(x ast.Node) bool {
				switch v := x.(type) {
				case *ast.ForStmt, *ast.RangeStmt, *ast.SwitchStmt, *ast.TypeSwitchStmt, *ast.SelectStmt:
					return false // a break in there leaves that statement
				case *ast.FuncLit:
					return false
				case *ast.BranchStmt:
					if v.Tok == token.FALLTHROUGH || (v.Tok == token.BREAK && v.Label == nil) {
						bad = "switch with " + v.Tok.String()
					}
				}
				return true
			})
		}
		if bad != "" {
			return nil, bad
		}
		body := &ast.BlockStmt{Lbrace: cc.Colon, List: cc.Body, Rbrace: cc.End()}
		if cc.List == nil {
			if deflt != nil {
				return nil, "switch with two defaults"
			}
			deflt = body
			continue
		}
		var cond ast.Expr
		for _, e := range cc.List {
			c := e
			if tag != nil {
				c = &ast.BinaryExpr{X: tag, OpPos: e.Pos(), Op: token.EQL, Y: e}
			}
			if cond == nil {
				cond = c
			} else {
				cond = &ast.BinaryExpr{X: cond, OpPos: e.Pos(), Op: token.LOR, Y: c}
			}
		}
		is := &ast.IfStmt{If: cc.Case, Cond: cond, Body: body}
		if chain == nil {
			chain = is
		} else {
			last.Else = is
		}
		last = is
	}
	var res ast.Stmt
	switch {
	case chain == nil && deflt == nil:
		res = &ast.BlockStmt{Lbrace: s.Switch}
	case chain == nil:
		res = deflt
	default:
		if deflt != nil {
			last.Else = deflt
		}
		res = chain
	}
	if len(pre) > 0 {
		res = &ast.BlockStmt{Lbrace: s.Switch, List: append(pre, res), Rbrace: s.End()}
	}
	return res, ""
}

// jumps: the statements contain a return, break or continue (that leaves them).
func jumps(list []ast.Stmt) bool {
	found := false
	for _, s := range list {
		ast.Inspect(s, func(x ast.Node) bool {
			switch v := x.(type) {
			case *ast.ReturnStmt:
				found = true
			case *ast.BranchStmt:
				found = true
				_ = v
			case *ast.CallExpr:
				if abortCalls[calleeName(v.Fun)] || calleeName(v.Fun) == "panic" {
					found = true
				}
			case *ast.FuncLit:
				return false
			}
			return true
		})
	}
	return found
}

// assigned lists the Go names assigned (=, op=, ++, --, or := of an already visible name in the same
// scope is handled by declare) anywhere inside the statements, restricted to variables visible now.
func (t *tr) assigned(list []ast.Stmt) []*varInfo {
	names := map[string]bool{}
	note := func(e ast.Expr) {
		switch v := e.(type) {
		case *ast.Ident:
			names[v.Name] = true
		case *ast.SelectorExpr:
			if id, ok := v.X.(*ast.Ident); ok {
				names[id.Name] = true
			}
		case *ast.IndexExpr:
			if id, ok := v.X.(*ast.Ident); ok {
				names[id.Name] = true
			}
			if sel, ok := v.X.(*ast.SelectorExpr); ok { // r.f[i] = …
				if id, ok := sel.X.(*ast.Ident); ok {
					names[id.Name] = true
				}
			}
		case *ast.StarExpr: // *p = … through a pointer parameter
			if id, ok := v.X.(*ast.Ident); ok {
				names[id.Name] = true
			}
		}
	}
	for _, s := range list {
		ast.Inspect(s, func(x ast.Node) bool {
			switch v := x.(type) {
			case *ast.AssignStmt:
				// := may also assign to a visible variable of the same scope; over-approximate
				for _, l := range v.Lhs {
					note(l)
				}
			case *ast.IncDecStmt:
				note(v.X)
			case *ast.CallExpr: // a threaded method, a reader method, a pointer argument: the call rebinds
				t.rebound(v, func(n string) { names[n] = true })
			case *ast.RangeStmt:
				if v.Tok == token.ASSIGN {
					if v.Key != nil {
						note(v.Key)
					}
					if v.Value != nil {
						note(v.Value)
					}
				}
			case *ast.ExprStmt:
				if c, ok := v.X.(*ast.CallExpr); ok && calleeName(c.Fun) == "copy" {
					note(c.Args[0])
				}
				if c, ok := v.X.(*ast.CallExpr); ok {
					if vi := t.bufferWritten(c); vi != nil { // a write to an accumulator visible now
						for i := range t.scopes {
							for n, w := range t.scopes[i] {
								if w == vi {
									names[n] = true
								}
							}
						}
					}
				}
			}
			return true
		})
	}
	var res []*varInfo
	for _, v := range t.inScope() {
		for n := range names {
			if vi := t.lookup(n); vi == v {
				res = append(res, v)
				break
			}
		}
	}
	return res
}

func tuple(vs []*varInfo) string {
	if len(vs) == 0 {
		return "()"
	}
	parts := make([]string, len(vs))
	for i, v := range vs {
		parts[i] = v.lean
	}
	if len(parts) == 1 {
		return parts[0]
	}
	return "(" + strings.Join(parts, ", ") + ")"
}

func (t *tr) retLean() string {
	if len(t.cfg.Abort) > 0 {
		return "Option (GoLib.Res " + t.ret.Lean() + ")"
	}
	return "Option " + t.ret.Lean()
}

func (t *tr) wrapRet(v string) string {
	if len(t.cfg.Abort) > 0 {
		return "pure (GoLib.Res.ok " + paren(v) + ")"
	}
	return "pure " + paren(v)
}

func (t *tr) isAbort(s ast.Stmt) *ast.CallExpr {
	es, ok := s.(*ast.ExprStmt)
	if !ok {
		return nil
	}
	c, ok := es.X.(*ast.CallExpr)
	if !ok || !t.cfg.Abort[calleeName(c.Fun)] {
		return nil
	}
	return c
}

// auxDef emits `def <name> (params…) : Option R := do <body>` and returns the call text.
func (t *tr) auxDef(kind string, body func() string) string {
	t.nAux++
	name := fmt.Sprintf("%s_%s%d", t.fnLean, kind, t.nAux)
	vars := t.inScope()
	var ps, as []string
	for _, v := range vars {
		ps = append(ps, fmt.Sprintf("(%s : %s)", v.lean, v.t.Lean()))
		as = append(as, v.lean)
	}
	sn := t.snap()
	b := body()
	t.restore(sn)
	t.out = append(t.out, fmt.Sprintf("def %s %s : %s := do\n%s\n", name, strings.Join(ps, " "), t.retLean(), indent(b, 2)))
	return strings.TrimSpace(name + " " + strings.Join(as, " "))
}

func (t *tr) block(list []ast.Stmt, k func() string) string {
	if len(list) == 0 {
		return k()
	}
	s := list[0]
	rest := func() string { return t.block(list[1:], k) }
	switch v := s.(type) {
	case *ast.EmptyStmt:
		return rest()
	case *ast.ReturnStmt:
		return t.returnStmt(v)
	case *ast.BranchStmt:
		if len(t.loops) == 0 || v.Label != nil {
			t.fail(v, "unsupported branch statement")
		}
		l := t.loops[len(t.loops)-1]
		if v.Tok == token.BREAK {
			return l.brk()
		}
		if v.Tok == token.CONTINUE {
			return l.cont()
		}
		t.fail(v, "unsupported branch statement")
	case *ast.BlockStmt:
		t.push()
		r := t.block(v.List, func() string { return t.withoutTop(rest) })
		t.pop()
		return r
	case *ast.IfStmt:
		return t.ifStmt(v, rest)
	case *ast.ForStmt:
		return t.forStmt(v, rest)
	case *ast.RangeStmt:
		return t.rangeStmt(v, rest)
	case *ast.SwitchStmt:
		d, why := desugarSwitch(v)
		if d == nil {
			t.fail(v, "%s is outside the subset", why)
		}
		return t.block(append([]ast.Stmt{d}, list[1:]...), k)
	case *ast.ExprStmt:
		if c := t.isAbort(v); c != nil {
			if len(c.Args) == 0 {
				t.fail(v, "abort call without a message")
			}
			m := t.expr(c.Args[0])
			return join(m.pre, "pure (GoLib.Res.fatal "+paren(m.s)+")")
		}
		if c, ok := v.X.(*ast.CallExpr); ok {
			if vi := t.bufferWritten(c); vi != nil { // a write to an accumulator (`var buf bytes.Buffer`)
				return join(t.bufferWrite(c, vi), rest())
			}
			if lines, ok := t.effectStmt(c); ok { // r.m(x) / b.Discard(n) as a statement: the results are dropped
				return join(lines, rest())
			}
			if id, isId := c.Fun.(*ast.Ident); isId && t.lookup(id.Name) == nil && t.funcs[id.Name] == nil {
				// f(x, &y) for a package-level function of the file without results and with an EMPTY body
				// (filepathlite's `func postClean(out *lazybuf) {}` outside Windows): nothing happens; the arguments
				// must be variables or their addresses (nothing to evaluate)
				for _, d := range t.file.Decls {
					fd, isFn := d.(*ast.FuncDecl)
					if !isFn || fd.Recv != nil || fd.Name.Name != id.Name || fd.Body == nil || len(fd.Body.List) != 0 || fd.Type.Results != nil {
						continue
					}
					plain := !c.Ellipsis.IsValid()
					for _, a := range c.Args {
						if u, isU := a.(*ast.UnaryExpr); isU && u.Op == token.AND {
							a = u.X
						}
						if aid, isA := a.(*ast.Ident); !isA || t.lookup(aid.Name) == nil {
							plain = false
						}
					}
					if plain {
						return rest()
					}
				}
			}
			switch calleeName(c.Fun) {
			case "panic":
				return "none"
			case "copy":
				if sel, isSel := c.Args[0].(*ast.SelectorExpr); isSel {
					// copy(r.f, src) into a slice field of a structure variable; for a field whose nil-ness is tracked a nil
					// destination has length 0 — nothing is copied and it stays nil (Option.map)
					if id, isId := sel.X.(*ast.Ident); isId && t.lookup(id.Name) != nil && t.lookup(id.Name).t.K == KStruct {
						vi := t.lookup(id.Name)
						if ft := t.fieldType(t.structOf(vi.t), sel.Sel.Name); ft != nil && (ft.K == KBytes || ft.K == KNil && ft.Elem.K == KBytes) {
							src := t.expr(c.Args[1])
							if src.t == nil || src.t.K != KBytes {
								t.fail(v, "copy from something other than a byte slice or string")
							}
							var line string
							if ft.K == KNil {
								line = fmt.Sprintf("let %s : %s := { %s with %s := Option.map (fun d_ => GoLib.copyInto d_ %s) %s.%s }", vi.lean, vi.t.Lean(), vi.lean, sel.Sel.Name, paren(src.s), vi.lean, sel.Sel.Name)
							} else {
								line = fmt.Sprintf("let %s : %s := { %s with %s := GoLib.copyInto %s.%s %s }", vi.lean, vi.t.Lean(), vi.lean, sel.Sel.Name, vi.lean, sel.Sel.Name, paren(src.s))
							}
							return join(append(src.pre, line), rest())
						}
					}
				}
				dst, ok := c.Args[0].(*ast.Ident)
				if !ok || t.lookup(dst.Name) == nil {
					t.fail(v, "copy into something other than a local variable")
				}
				d := t.lookup(dst.Name)
				src := t.expr(c.Args[1])
				return join(append(src.pre, fmt.Sprintf("let %s := GoLib.copyInto %s %s", d.lean, d.lean, paren(src.s))), rest())
			}
		}
		t.fail(v, "unsupported expression statement %s", t.src(v))
	default:
		lines := t.simple(s)
		return join(lines, rest())
	}
	return ""
}

func (t *tr) returnStmt(r *ast.ReturnStmt) string {
	saveRet := t.inReturn
	t.inReturn = true
	defer func() { t.inReturn = saveRet }()
	var want []*Type
	if t.ret.K == KTuple {
		want = t.ret.Tup
	} else {
		want = []*Type{t.ret}
	}
	var pre, parts []string
	if t.deferred != nil {
		if len(t.thread) > 0 {
			t.fail(r, "a deferred call in a function with a threaded receiver or pointer parameters")
		}
		return t.returnDeferred(r, want)
	}
	if len(t.thread) > 0 {
		// the threaded receiver and the pointer parameters are returned after the results, with their current values
		want = want[:t.nGo]
	}
	if len(r.Results) == 0 {
		for _, n := range t.named {
			parts = append(parts, t.lookup(n).lean)
		}
	} else if len(r.Results) == 1 && len(want) > 1 { // return f(x)
		if len(t.thread) > 0 {
			t.fail(r, "return f(x) of several results in a function with a threaded receiver or pointer parameters")
		}
		x := t.expr(r.Results[0])
		return join(x.pre, t.wrapRet(x.s))
	} else {
		for i, e := range r.Results {
			x := t.coerce(t.expr(e), want[i])
			pre = append(pre, x.pre...)
			parts = append(parts, x.s)
		}
	}
	for _, vi := range t.thread {
		parts = append(parts, vi.lean)
	}
	res := parts[0]
	if len(parts) > 1 {
		res = "(" + strings.Join(parts, ", ") + ")"
	}
	return join(pre, t.wrapRet(res))
}

// returnDeferred is `return` in a function that opens with `defer func() { … }()`: the result expressions are
// evaluated and assigned to the named results, then the deferred body runs — in the scope of the function's
// parameters and named results, whose current values it reads and may replace — and the named results are returned.
func (t *tr) returnDeferred(r *ast.ReturnStmt, want []*Type) string {
	var lines []string
	named := func() []*varInfo {
		var vs []*varInfo
		for _, n := range t.named {
			vs = append(vs, t.scopes[0][n])
		}
		return vs
	}()
	if len(r.Results) != 0 {
		if len(r.Results) != len(want) {
			t.fail(r, "return f(x) in a function with a deferred call")
		}
		var xs []val
		for i, e := range r.Results {
			x := t.coerce(t.expr(e), want[i])
			lines = append(lines, x.pre...)
			if len(r.Results) > 1 && !isTmp(x.s) {
				tmp := t.tmp()
				lines = append(lines, fmt.Sprintf("let %s : %s := %s", tmp, want[i].Lean(), x.s))
				x = val{s: tmp, t: want[i]}
			}
			xs = append(xs, x)
		}
		for i, x := range xs {
			if x.s != named[i].lean {
				lines = append(lines, fmt.Sprintf("let %s : %s := %s", named[i].lean, named[i].t.Lean(), x.s))
			}
		}
	}
	saveS, saveO, saveL, saveD := t.scopes, t.order, t.loops, t.deferred
	t.scopes, t.order, t.loops, t.deferred = append([]map[string]*varInfo{}, t.scopes[:1]...), append([][]string{}, t.order[:1]...), nil, nil
	t.push()
	body := t.block(saveD, func() string { return t.wrapRet(tuple(named)) })
	t.scopes, t.order, t.loops, t.deferred = saveS, saveO, saveL, saveD
	return join(lines, body)
}

// deferredBody recognises `defer func() { … }()` (no parameters, no results, no arguments; the body free of
// return, defer, go, recover and function literals).
func deferredBody(s ast.Stmt) []ast.Stmt {
	d, ok := s.(*ast.DeferStmt)
	if !ok || len(d.Call.Args) != 0 {
		return nil
	}
	fl, ok := d.Call.Fun.(*ast.FuncLit)
	if !ok || len(fl.Type.Params.List) != 0 || (fl.Type.Results != nil && len(fl.Type.Results.List) != 0) || len(fl.Body.List) == 0 {
		return nil
	}
	bad := false
	ast.Inspect(fl.Body, func(x ast.Node) bool {
		switch v := x.(type) {
		case *ast.ReturnStmt, *ast.DeferStmt, *ast.GoStmt, *ast.FuncLit, *ast.BranchStmt:
			bad = true
		case *ast.CallExpr:
			if calleeName(v.Fun) == "recover" || calleeName(v.Fun) == "panic" {
				bad = true
			}
		}
		return true
	})
	if bad {
		return nil
	}
	return fl.Body.List
}

// simple translates a statement without control flow into `let` lines.
func (t *tr) simple(s ast.Stmt) []string {
	switch v := s.(type) {
	case *ast.DeclStmt:
		gd, ok := v.Decl.(*ast.GenDecl)
		if !ok || (gd.Tok != token.VAR && gd.Tok != token.CONST) { // a local `const x = …` is a variable that is never assigned
			t.fail(s, "unsupported declaration")
		}
		var lines []string
		for _, sp := range gd.Specs {
			vs := sp.(*ast.ValueSpec)
			for i, n := range vs.Names {
				var ty *Type
				if bt := t.bufferType(vs.Type); vs.Type != nil && bt != nil {
					// `var buf bytes.Buffer`: an accumulator, the bytes written so far (empty at first)
					if len(vs.Values) != 0 || gd.Tok != token.VAR {
						t.fail(s, "a %s with an initializer is outside the subset", bt.Name)
					}
					vi := t.declare(n.Name, bt)
					lines = append(lines, fmt.Sprintf("let %s : %s := %s", vi.lean, bt.Lean(), t.zero(bt)))
					continue
				}
				if vs.Type != nil {
					ty = t.typeExpr(vs.Type)
					if ty.K == KIntMap && i >= len(vs.Values) {
						t.fail(s, "a nil map[string]int (an assignment to it panics) is outside the subset: use make")
					}
					if t.nilTest[n.Name] && (ty.K == KBytes || ty.K == KList) {
						ty = &Type{K: KNil, Elem: ty} // `var x []T` of a variable that is compared with nil
					}
				}
				if i < len(vs.Values) {
					x := t.coerce(t.exprN(vs.Values[i]), ty)
					if ty == nil {
						ty = x.t
					}
					lines = append(lines, x.pre...)
					vi := t.declare(n.Name, ty)
					lines = append(lines, fmt.Sprintf("let %s : %s := %s", vi.lean, ty.Lean(), x.s))
				} else {
					vi := t.declare(n.Name, ty)
					lines = append(lines, fmt.Sprintf("let %s : %s := %s", vi.lean, ty.Lean(), t.zero(ty)))
				}
			}
		}
		return lines
	case *ast.IncDecStmt:
		if _, isSel := v.X.(*ast.SelectorExpr); isSel { // r.f++ : r.f = r.f + 1
			op := token.ADD
			if v.Tok == token.DEC {
				op = token.SUB
			}
			x := t.binary(&ast.BinaryExpr{X: v.X, Op: op, Y: &ast.BasicLit{Kind: token.INT, Value: "1", ValuePos: v.Pos()}, OpPos: v.Pos()})
			return append(x.pre, t.assignTo(v.X, val{s: x.s, t: x.t}, false)...)
		}
		id, ok := v.X.(*ast.Ident)
		if !ok || t.lookup(id.Name) == nil {
			t.fail(s, "unsupported ++/--")
		}
		x := t.lookup(id.Name)
		op := "+"
		if v.Tok == token.DEC {
			op = "-"
		}
		return []string{fmt.Sprintf("let %s := %s %s 1", x.lean, x.lean, op)}
	case *ast.AssignStmt:
		if len(v.Lhs) == 1 && t.cfg.IgnoreAssign[strings.Join(strings.Fields(t.src(v.Lhs[0])), "")] {
			x := t.expr(v.Rhs[0]) // still evaluated (it could panic)
			return x.pre
		}
		return t.assign(v)
	}
	t.fail(s, "unsupported statement %s", t.src(s))
	return nil
}

func (t *tr) assignTo(lhs ast.Expr, x val, define bool) []string {
	if x.t != nil && x.t.K == KPtr {
		t.fail(lhs, "a pointer parameter assigned to %s (it would alias)", t.src(lhs))
	}
	switch l := lhs.(type) {
	case *ast.StarExpr: // *p = x for a pointer parameter p *[]T: a nil pointer panics
		if id, ok := l.X.(*ast.Ident); ok {
			if vi := t.lookup(id.Name); vi != nil && vi.t.K == KPtr {
				x = t.coerce(x, vi.t.Elem)
				return []string{fmt.Sprintf("let _ ← %s", vi.lean), fmt.Sprintf("let %s : %s := some %s", vi.lean, vi.t.Lean(), paren(x.s))}
			}
		}
	case *ast.Ident:
		if l.Name == "_" {
			return nil
		}
		var vi *varInfo
		if define {
			if x.t == nil {
				t.fail(lhs, "cannot infer the type of %s", l.Name)
			}
			vi = t.declare(l.Name, x.t)
		} else {
			vi = t.lookup(l.Name)
			if vi == nil {
				t.fail(lhs, "assignment to unknown variable %s", l.Name)
			}
		}
		x = t.coerce(x, vi.t)
		if x.s == vi.lean {
			return nil
		}
		return []string{fmt.Sprintf("let %s : %s := %s", vi.lean, vi.t.Lean(), x.s)}
	case *ast.SelectorExpr:
		id, ok := l.X.(*ast.Ident)
		if ok && t.lookup(id.Name) != nil && t.lookup(id.Name).t.K == KStruct {
			vi := t.lookup(id.Name)
			for _, f := range t.structOf(vi.t).Fields {
				if f.Go == l.Sel.Name {
					x = t.coerce(x, f.T)
					return []string{fmt.Sprintf("let %s : %s := { %s with %s := %s }", vi.lean, vi.t.Lean(), vi.lean, f.Lean, x.s)}
				}
			}
		}
	case *ast.IndexExpr:
		if vi := t.intMapVar(l.X); vi != nil { // m[k] = v on a local map[string]int: the newest binding wins
			i := t.expr(l.Index)
			x = t.coerce(x, TInt)
			if i.t == nil || i.t.K != KBytes || x.t == nil || x.t.K != KInt {
				t.fail(lhs, "unsupported map assignment")
			}
			return append(i.pre, fmt.Sprintf("let %s : %s := GoLib.mapSet %s %s %s", vi.lean, vi.t.Lean(), vi.lean, paren(i.s), paren(x.s)))
		}
		if sel, isSel := l.X.(*ast.SelectorExpr); isSel {
			// r.f[i] = x for a byte-slice field of a structure variable (a field whose nil-ness is tracked: a nil slice
			// has length 0, so the store panics; otherwise the field stays non-nil)
			if id, isId := sel.X.(*ast.Ident); isId && t.lookup(id.Name) != nil && t.lookup(id.Name).t.K == KStruct {
				vi := t.lookup(id.Name)
				if ft := t.fieldType(t.structOf(vi.t), sel.Sel.Name); ft != nil && (ft.K == KBytes || ft.K == KNil && ft.Elem.K == KBytes) {
					i := t.expr(l.Index)
					x = t.coerce(x, TByte)
					tmp := t.tmp()
					cur, wrap := vi.lean+"."+sel.Sel.Name, tmp
					if ft.K == KNil {
						cur, wrap = "(GoLib.nilData "+cur+")", "some "+tmp
					}
					return append(i.pre, fmt.Sprintf("let %s ← GoLib.setIdx? %s %s %s", tmp, cur, paren(i.s), paren(x.s)),
						fmt.Sprintf("let %s : %s := { %s with %s := %s }", vi.lean, vi.t.Lean(), vi.lean, sel.Sel.Name, wrap))
				}
			}
		}
		id, ok := l.X.(*ast.Ident)
		if ok && t.lookup(id.Name) != nil {
			vi := t.lookup(id.Name)
			i := t.expr(l.Index)
			et := TByte
			if vi.t.K == KList {
				et = vi.t.Elem
			}
			x = t.coerce(x, et)
			return append(i.pre, fmt.Sprintf("let %s ← GoLib.setIdx? %s %s %s", vi.lean, vi.lean, paren(i.s), paren(x.s)))
		}
	}
	t.fail(lhs, "unsupported assignment target %s", t.src(lhs))
	return nil
}

func (t *tr) assign(a *ast.AssignStmt) []string {
	define := a.Tok == token.DEFINE
	switch a.Tok {
	case token.ASSIGN, token.DEFINE:
	case token.ADD_ASSIGN, token.SUB_ASSIGN:
		op := token.ADD
		if a.Tok == token.SUB_ASSIGN {
			op = token.SUB
		}
		x := t.binary(&ast.BinaryExpr{X: a.Lhs[0], Op: op, Y: a.Rhs[0], OpPos: a.Pos()})
		return append(x.pre, t.assignTo(a.Lhs[0], val{s: x.s, t: x.t}, false)...)
	default:
		t.fail(a, "unsupported assignment operator")
	}
	if len(a.Lhs) == len(a.Rhs) {
		if len(a.Lhs) == 1 {
			x := t.exprN(a.Rhs[0])
			return append(x.pre, t.assignTo(a.Lhs[0], val{s: x.s, t: x.t, nonNil: x.nonNil}, define)...)
		}
		// parallel assignment: evaluate all right-hand sides first
		var lines []string
		var tmps []val
		for _, r := range a.Rhs {
			x := t.exprN(r)
			lines = append(lines, x.pre...)
			if x.t == nil {
				tmps = append(tmps, x)
				continue
			}
			if isTmp(x.s) {
				tmps = append(tmps, x)
				continue
			}
			tmp := t.tmp()
			lines = append(lines, fmt.Sprintf("let %s := %s", tmp, x.s))
			tmps = append(tmps, val{s: tmp, t: x.t, nonNil: x.nonNil})
		}
		for i, l := range a.Lhs {
			lines = append(lines, t.assignTo(l, tmps[i], define)...)
		}
		return lines
	}
	if len(a.Rhs) != 1 {
		t.fail(a, "unsupported assignment shape")
	}
	var x val
	if ie, ok := a.Rhs[0].(*ast.IndexExpr); ok && len(a.Lhs) == 2 && t.intMapVar(ie.X) != nil {
		// v, ok := m[k] on a local map[string]int: the value (0 for a missing key) and whether the key is present
		vi := t.intMapVar(ie.X)
		i := t.expr(ie.Index)
		if i.t == nil || i.t.K != KBytes {
			t.fail(a, "unsupported map index")
		}
		x = val{pre: i.pre, s: fmt.Sprintf("(GoLib.mapGet %s %s, GoLib.mapHas %s %s)", vi.lean, paren(i.s), vi.lean, paren(i.s)), t: &Type{K: KTuple, Tup: []*Type{TInt, TBool}}}
	} else if vi, src := t.arrayFill(a.Rhs[0]); vi != nil {
		// n, err := hex.Decode(buf[:], src) into a local byte array: the array is rebound with what Decode stored
		y := t.expr(src)
		tmp := t.tmp()
		pre := append(append([]string{}, y.pre...), fmt.Sprintf("let (%s, %s) ← %s %s %s", vi.lean, tmp, t.cfg.ArrayFill[calleeName(a.Rhs[0].(*ast.CallExpr).Fun)].Lean, vi.lean, paren(y.s)))
		x = val{pre: pre, s: tmp, t: t.cfg.ArrayFill[calleeName(a.Rhs[0].(*ast.CallExpr).Fun)].Ret}
	} else {
		x = t.expr(a.Rhs[0])
	}
	if x.t == nil || x.t.K != KTuple || len(x.t.Tup) != len(a.Lhs) {
		t.fail(a, "multi-value assignment from a non-tuple")
	}
	lines := x.pre
	var names []string
	var tmps []val
	for _, et := range x.t.Tup {
		tmp := t.tmp()
		names = append(names, tmp)
		tmps = append(tmps, val{s: tmp, t: et})
	}
	lines = append(lines, fmt.Sprintf("let (%s) := %s", strings.Join(names, ", "), x.s))
	for i, l := range a.Lhs {
		lines = append(lines, t.assignTo(l, tmps[i], define)...)
	}
	return lines
}

// arrayFill: e is a call `f(x[:], src)` of a configured function that stores into its first argument
// (Config.ArrayFill: hex.Decode) and x is a LOCAL byte-array variable (`var x [N]byte`): the variable and the
// source expression.  The slice `x[:]` exists only as this argument, so nothing else can see the store.
func (t *tr) arrayFill(e ast.Expr) (*varInfo, ast.Expr) {
	c, ok := e.(*ast.CallExpr)
	if !ok || len(c.Args) != 2 || t.cfg.ArrayFill == nil {
		return nil, nil
	}
	name := calleeName(c.Fun)
	if _, ok := t.cfg.ArrayFill[name]; !ok {
		return nil, nil
	}
	if sel, ok := c.Fun.(*ast.SelectorExpr); ok {
		if id, ok := sel.X.(*ast.Ident); ok && t.lookup(id.Name) != nil {
			return nil, nil // the package name is shadowed
		}
	}
	se, ok := c.Args[0].(*ast.SliceExpr)
	if !ok || se.Low != nil || se.High != nil || se.Slice3 {
		return nil, nil
	}
	id, ok := se.X.(*ast.Ident)
	if !ok {
		return nil, nil
	}
	vi := t.lookup(id.Name)
	if vi == nil || vi.t == nil || vi.t.K != KBytes || vi.t.Arr == "" {
		return nil, nil
	}
	return vi, c.Args[1]
}

func isTmp(s string) bool {
	if len(s) < 2 || s[0] != 't' {
		return false
	}
	_, err := strconv.Atoi(s[1:])
	return err == nil
}

func stmtList(s ast.Stmt) []ast.Stmt {
	switch v := s.(type) {
	case nil:
		return nil
	case *ast.BlockStmt:
		return v.List
	}
	return []ast.Stmt{s}
}

func (t *tr) ifStmt(v *ast.IfStmt, rest func() string) string {
	t.push() // scope of the init statement and of both branches
	var lines []string
	if v.Init != nil {
		t.peekOK = t.peekInit(v)
		lines = t.simple(v.Init)
		t.peekOK = nil
	}
	c := t.expr(v.Cond)
	lines = append(lines, c.pre...)
	thenL, elseL := v.Body.List, stmtList(v.Else)
	popRest := func() string { return t.withoutTop(rest) }
	branch := func(list []ast.Stmt, k func() string) string {
		t.push()
		r := t.block(list, func() string { return t.withoutTop(k) })
		t.pop()
		return r
	}
	var body string
	switch {
	case terminates(thenL):
		th := branch(thenL, func() string { return "none" })
		el := branch(elseL, popRest)
		body = fmt.Sprintf("if %s then do\n%s\nelse\n%s", c.s, indent(th, 2), el)
	case len(elseL) > 0 && terminates(elseL):
		el := branch(elseL, func() string { return "none" })
		th := branch(thenL, popRest)
		body = fmt.Sprintf("if !%s then do\n%s\nelse\n%s", paren(c.s), indent(el, 2), th)
	case !jumps(thenL) && !jumps(elseL):
		// both branches fall through: join on the variables they assign (visible outside the if)
		// (variables declared by the init statement are not visible after the if: look from outside)
		var outer []*varInfo
		t.withoutTop(func() string {
			outer = t.assigned(append(append([]ast.Stmt{}, thenL...), elseL...))
			return ""
		})
		tp := tuple(outer)
		t.direct++ // the value of a branch is the tuple, not the function's result: a loop in there is direct style
		th := branch(thenL, func() string { return "pure " + tp })
		el := branch(elseL, func() string { return "pure " + tp })
		t.direct--
		if len(outer) == 0 {
			body = fmt.Sprintf("let _ ← (if %s then do\n%s\n  else do\n%s)\n%s", c.s, indent(th, 4), indent(el, 4), popRest())
		} else {
			var tys []string
			for _, o := range outer {
				tys = append(tys, o.t.Lean())
			}
			body = fmt.Sprintf("let %s ← (show Option (%s) from if %s then do\n%s\n  else do\n%s)\n%s", tp, strings.Join(tys, " × "), c.s, indent(th, 4), indent(el, 4), popRest())
		}
	case len(t.loops) > 0:
		// mixed, inside a loop body: what follows ends in the loop's recursive call, which only the loop
		// definition itself can make (structural recursion on its fuel), so it cannot move into a definition
		// of its own — it is copied into both branches instead
		th := branch(thenL, popRest)
		el := branch(elseL, popRest)
		body = fmt.Sprintf("if %s then do\n%s\nelse do\n%s", c.s, indent(th, 2), indent(el, 2))
	default:
		// mixed: what follows becomes a definition of its own
		var call string
		t.withoutTop(func() string { call = t.auxDef("k", rest); return "" })
		kcall := func() string { return call }
		th := branch(thenL, kcall)
		el := branch(elseL, kcall)
		body = fmt.Sprintf("if %s then do\n%s\nelse do\n%s", c.s, indent(th, 2), indent(el, 2))
	}
	t.pop()
	return join(lines, body)
}

// peekInit recognises `if x, err := b.Peek(n); cond { … }` with x mentioned neither in the body nor in the else
// branch (the slice Peek returns is only valid until the next read: it may be used in the condition alone).
func (t *tr) peekInit(v *ast.IfStmt) *ast.CallExpr {
	as, ok := v.Init.(*ast.AssignStmt)
	if !ok || as.Tok != token.DEFINE || len(as.Lhs) != 2 || len(as.Rhs) != 1 {
		return nil
	}
	c, ok := as.Rhs[0].(*ast.CallExpr)
	if !ok {
		return nil
	}
	sel, ok := c.Fun.(*ast.SelectorExpr)
	x, isId := as.Lhs[0].(*ast.Ident)
	if !ok || !isId || sel.Sel.Name != "Peek" {
		return nil
	}
	used := false
	check := func(n ast.Node) {
		ast.Inspect(n, func(y ast.Node) bool {
			if id, ok := y.(*ast.Ident); ok && id.Name == x.Name && x.Name != "_" {
				used = true
			}
			return true
		})
	}
	check(v.Body)
	if v.Else != nil {
		check(v.Else)
	}
	if used {
		return nil
	}
	return c
}

func (t *tr) fuelFor(n int) string {
	key := fmt.Sprintf("%s#%d", t.fn.Name.Name, n)
	if f, ok := t.cfg.Fuel[key]; ok {
		return f
	}
	var parts []string
	for _, v := range t.inScope() {
		if v.t.K == KBytes || v.t.K == KList {
			parts = append(parts, v.lean+".length")
		}
		if v.t.K == KReader && !t.moved[v] { // what a reader still holds
			parts = append(parts, v.lean+".length")
		}
		if v.t.K == KStruct && len(t.cfg.Threaded) > 0 {
			for _, f := range t.structOf(v.t).Fields {
				if f.T.K == KReader {
					parts = append(parts, v.lean+"."+f.Lean+".length")
				}
			}
		}
	}
	parts = append(parts, "2")
	return strings.Join(parts, " + ")
}

func (t *tr) forStmt(v *ast.ForStmt, rest func() string) string {
	t.push() // scope of the init statement
	var lines []string
	if v.Init != nil {
		lines = t.simple(v.Init)
	}
	t.nLoop++
	nLoop := t.nLoop
	fuel := t.fuelFor(nLoop)
	if len(t.loops) > 0 || t.direct > 0 {
		r := t.forDirect(v, nLoop, fuel, lines, rest)
		t.pop()
		return r
	}
	// what follows the loop (the init-scope variables are passed along, unused)
	after := t.auxDef("after", func() string { return t.withoutTop(rest) })
	afterName := strings.Fields(after)[0]
	afterArgs := strings.Fields(after)[1:]
	vars := t.inScope()
	body := append([]ast.Stmt{}, v.Body.List...)
	modSrc := body
	if v.Post != nil {
		modSrc = append(append([]ast.Stmt{}, body...), v.Post)
	}
	if v.Cond != nil && len(t.cfg.Threaded) > 0 { // a condition like `r.peekByte(true) == 'i'` rebinds r
		modSrc = append(append([]ast.Stmt{}, modSrc...), &ast.ExprStmt{X: v.Cond})
	}
	mod := t.assigned(modSrc)
	isMod := map[*varInfo]bool{}
	for _, m := range mod {
		isMod[m] = true
	}
	var fixed []*varInfo
	for _, x := range vars {
		if !isMod[x] {
			fixed = append(fixed, x)
		}
	}
	name := fmt.Sprintf("%s_loop%d", t.fnLean, nLoop)
	var fps, fas, mts, mas []string
	for _, x := range fixed {
		fps = append(fps, fmt.Sprintf("(%s : %s)", x.lean, x.t.Lean()))
		fas = append(fas, x.lean)
	}
	for _, x := range mod {
		mts = append(mts, x.t.Lean())
		mas = append(mas, x.lean)
	}
	recur := func() string {
		return strings.TrimSpace(fmt.Sprintf("%s %s fuel %s", name, strings.Join(fas, " "), strings.Join(mas, " ")))
	}
	afterCall := func() string { return strings.TrimSpace(afterName + " " + strings.Join(afterArgs, " ")) }
	cont := recur
	if v.Post != nil {
		cont = func() string { return join(t.simple(v.Post), recur()) }
	}
	t.loops = append(t.loops, &loopCtx{brk: afterCall, cont: cont})
	t.push()
	var inner string
	if v.Cond != nil {
		c := t.expr(v.Cond)
		b := t.block(body, cont)
		inner = join(c.pre, fmt.Sprintf("if !%s then do\n%s\nelse\n%s", paren(c.s), indent(afterCall(), 2), b))
	} else {
		inner = t.block(body, cont)
	}
	t.pop()
	t.loops = t.loops[:len(t.loops)-1]
	sig := fmt.Sprintf("def %s %s : Nat → %s%s", name, strings.Join(fps, " "), strings.Join(append(mts, ""), " → "), t.retLean())
	zeroPat := "  | 0" + strings.Repeat(", _", len(mod)) + " => none"
	succPat := "  | fuel + 1" + prefixEach(mas, ", ") + " => do"
	t.out = append(t.out, fmt.Sprintf("%s\n%s\n%s\n%s\n", sig, zeroPat, succPat, indent(inner, 4)))
	call := strings.TrimSpace(fmt.Sprintf("%s %s (%s) %s", name, strings.Join(fas, " "), fuel, strings.Join(mas, " ")))
	t.pop()
	return join(lines, call)
}

// forDirect translates a loop that stands inside another loop's body or inside a joined branch — where what
// follows cannot become a definition of its own (it ends in the enclosing loop's recursive call, or its value is
// the tuple of a join and not the function's result).  DIRECT STYLE: the loop definition returns the tuple of
// the variables it modifies,
//
//	f_loop<n> : fixed variables → fuel → modified variables → Option (modified variables)
//
// `break` and a false condition return the current values, `continue` and the end of the body recurse, and the
// caller rebinds the variables: `let (c, r) ← f_loop<n> … (fuel) c r`.  A `return` (or an abort) inside such a
// loop is outside the subset.
func (t *tr) forDirect(v *ast.ForStmt, nLoop int, fuel string, lines []string, rest func() string) string {
	bad := false
	ast.Inspect(v.Body, func(x ast.Node) bool {
		switch y := x.(type) {
		case *ast.ReturnStmt:
			bad = true
		case *ast.FuncLit:
			return false
		case *ast.CallExpr:
			if abortCalls[calleeName(y.Fun)] {
				bad = true
			}
		}
		return true
	})
	if bad {
		t.fail(v, "a loop inside a loop body or a joined branch that returns is outside the subset")
	}
	vars := t.inScope()
	body := append([]ast.Stmt{}, v.Body.List...)
	modSrc := body
	if v.Post != nil {
		modSrc = append(append([]ast.Stmt{}, body...), v.Post)
	}
	if v.Cond != nil {
		modSrc = append(append([]ast.Stmt{}, modSrc...), &ast.ExprStmt{X: v.Cond})
	}
	mod := t.assigned(modSrc)
	isMod := map[*varInfo]bool{}
	for _, m := range mod {
		isMod[m] = true
	}
	var fps, fas, mts, mas []string
	for _, x := range vars {
		if !isMod[x] {
			fps = append(fps, fmt.Sprintf("(%s : %s)", x.lean, x.t.Lean()))
			fas = append(fas, x.lean)
		}
	}
	for _, x := range mod {
		mts = append(mts, x.t.Lean())
		mas = append(mas, x.lean)
	}
	name := fmt.Sprintf("%s_loop%d", t.fnLean, nLoop)
	resTy := "Unit"
	if len(mts) > 0 {
		resTy = "(" + strings.Join(mts, " × ") + ")"
	}
	done := func() string { return "pure " + tuple(mod) }
	recur := func() string {
		return strings.TrimSpace(fmt.Sprintf("%s %s fuel %s", name, strings.Join(fas, " "), strings.Join(mas, " ")))
	}
	cont := recur
	if v.Post != nil {
		cont = func() string { return join(t.simple(v.Post), recur()) }
	}
	saveLoops := t.loops
	t.loops = append(t.loops, &loopCtx{brk: done, cont: cont})
	t.direct++
	t.push()
	var inner string
	if v.Cond != nil {
		c := t.expr(v.Cond)
		b := t.block(body, cont)
		inner = join(c.pre, fmt.Sprintf("if !%s then do\n%s\nelse\n%s", paren(c.s), indent(done(), 2), b))
	} else {
		inner = t.block(body, cont)
	}
	t.pop()
	t.direct--
	t.loops = saveLoops
	sig := fmt.Sprintf("def %s %s : Nat → %sOption %s", name, strings.Join(fps, " "), strings.Join(append(mts, ""), " → "), resTy)
	zeroPat := "  | 0" + strings.Repeat(", _", len(mod)) + " => none"
	succPat := "  | fuel + 1" + prefixEach(mas, ", ") + " => do"
	t.out = append(t.out, fmt.Sprintf("%s\n%s\n%s\n%s\n", sig, zeroPat, succPat, indent(inner, 4)))
	call := strings.TrimSpace(fmt.Sprintf("%s %s (%s) %s", name, strings.Join(fas, " "), fuel, strings.Join(mas, " ")))
	bind := "let _ ← " + call
	if len(mod) > 0 {
		bind = "let " + tuple(mod) + " ← " + call
	}
	return join(append(lines, bind), t.withoutTop(rest))
}

func prefixEach(xs []string, p string) string {
	var b strings.Builder
	for _, x := range xs {
		b.WriteString(p + x)
	}
	return b.String()
}

func (t *tr) rangeStmt(v *ast.RangeStmt, rest func() string) string {
	if v.Tok != token.DEFINE && !(v.Key == nil && v.Value == nil) {
		t.fail(v, "range with assignment to existing variables")
	}
	x := t.expr(v.X)
	if x.t != nil && x.t.K == KInt {
		// `for i := range n` (Go 1.22): i = 0 … n-1; the index plays the role of the element of `GoLib.rangeInt n`
		if v.Value != nil {
			t.fail(v, "range over an integer with two variables")
		}
		x = val{pre: x.pre, s: "GoLib.rangeInt " + paren(x.s), t: &Type{K: KList, Elem: TInt}}
		v = &ast.RangeStmt{For: v.For, Key: nil, Value: v.Key, Tok: v.Tok, X: v.X, Body: v.Body}
	}
	if x.t == nil || (x.t.K != KBytes && x.t.K != KList) {
		t.fail(v, "range over a non-slice")
	}
	et := TByte
	if x.t.K == KList {
		et = x.t.Elem
	}
	strPair := false
	if x.t.K == KBytes && x.t.Str {
		// range over a Go string yields runes (and byte offsets: RuneIdxFn)
		if t.cfg.RuneFn == "" {
			t.fail(v, "range over a string")
		}
		if id, ok := v.Key.(*ast.Ident); v.Key != nil && !(ok && id.Name == "_") {
			// `for i, r := range s`: the list of (byte offset, rune) pairs; the pair is the element
			if t.cfg.RuneIdxFn == "" || !ok {
				t.fail(v, "range over a string with the byte offset")
			}
			strPair = true
			x = val{pre: x.pre, s: t.cfg.RuneIdxFn + " " + paren(x.s), t: &Type{K: KList, Elem: &Type{K: KTuple, Tup: []*Type{TInt, TInt}}}}
		} else {
			x = val{pre: x.pre, s: t.cfg.RuneFn + " " + paren(x.s), t: &Type{K: KList, Elem: TInt}}
		}
		et = TInt
	}
	t.nLoop++
	nLoop := t.nLoop
	if (len(t.loops) > 0 || t.direct > 0) && t.cfg.DirectRange {
		return t.rangeDirect(v, x, et, strPair, nLoop, rest)
	}
	after := t.auxDef("after", rest)
	afterName := strings.Fields(after)[0]
	afterArgs := strings.Fields(after)[1:]
	outerVars := t.inScope()
	mod := t.assigned(v.Body.List)
	isMod := map[*varInfo]bool{}
	for _, m := range mod {
		isMod[m] = true
	}
	var fixed []*varInfo
	for _, o := range outerVars {
		if !isMod[o] {
			fixed = append(fixed, o)
		}
	}
	t.push()
	keyName, valName := "", ""
	if id, ok := v.Key.(*ast.Ident); ok && id.Name != "_" {
		keyName = t.declare(id.Name, TInt).lean
	}
	if id, ok := v.Value.(*ast.Ident); ok && id.Name != "_" {
		valName = t.declare(id.Name, et).lean
	}
	name := fmt.Sprintf("%s_loop%d", t.fnLean, nLoop)
	var fps, fas, mts, mas []string
	for _, o := range fixed {
		fps = append(fps, fmt.Sprintf("(%s : %s)", o.lean, o.t.Lean()))
		fas = append(fas, o.lean)
	}
	for _, o := range mod {
		mts = append(mts, o.t.Lean())
		mas = append(mas, o.lean)
	}
	idxT, idxA, idxNext := "", "", ""
	if keyName != "" && !strPair {
		idxT, idxA, idxNext = "Int → ", ", "+keyName, " ("+keyName+" + 1)"
	}
	recur := func() string {
		return strings.TrimSpace(fmt.Sprintf("%s %s rest_%s %s", name, strings.Join(fas, " "), idxNext, strings.Join(mas, " ")))
	}
	afterCall := func() string { return strings.TrimSpace(afterName + " " + strings.Join(afterArgs, " ")) }
	t.loops = append(t.loops, &loopCtx{brk: afterCall, cont: recur})
	t.push()
	inner := t.block(v.Body.List, recur)
	t.pop()
	t.loops = t.loops[:len(t.loops)-1]
	t.pop()
	hd := valName
	if hd == "" {
		hd = "_"
	}
	if strPair {
		hd = "(" + keyName + ", " + hd + ")"
	}
	sig := fmt.Sprintf("def %s %s : %s → %s%s%s", name, strings.Join(fps, " "), x.t.Lean(), idxT, strings.Join(append(mts, ""), " → "), t.retLean())
	nilPat := "  | []" + idxA + prefixEach(mas, ", ") + " => do\n" + indent(afterCall(), 4)
	consPat := "  | " + hd + " :: rest_" + idxA + prefixEach(mas, ", ") + " => do"
	t.out = append(t.out, fmt.Sprintf("%s\n%s\n%s\n%s\n", sig, nilPat, consPat, indent(inner, 4)))
	start := ""
	if keyName != "" && !strPair {
		start = " 0"
	}
	call := strings.TrimSpace(fmt.Sprintf("%s %s %s%s %s", name, strings.Join(fas, " "), paren(x.s), start, strings.Join(mas, " ")))
	return join(x.pre, call)
}

// rangeDirect is the DIRECT STYLE (see forDirect) for a `for … range` loop that stands inside another loop's body
// or inside a joined branch: the loop definition recurses on the list and returns the variables its body modifies,
//
//	f_loop<n> : fixed variables → List T → [index →] modified variables → Option (modified variables)
//
// the end of the list and `break` return the current values, `continue` and the end of the body recurse on the
// rest, and the caller rebinds the variables: `let (ctext, count) ← f_loop<n> … t1 ctext count`.  The range
// expression is evaluated once, before the loop (x.pre), as in Go.  A `return` inside such a loop is rejected.
func (t *tr) rangeDirect(v *ast.RangeStmt, x val, et *Type, strPair bool, nLoop int, rest func() string) string {
	bad := false
	ast.Inspect(v.Body, func(n ast.Node) bool {
		switch y := n.(type) {
		case *ast.ReturnStmt:
			bad = true
		case *ast.FuncLit:
			return false
		case *ast.CallExpr:
			if abortCalls[calleeName(y.Fun)] {
				bad = true
			}
		}
		return true
	})
	if bad {
		t.fail(v, "a loop inside a loop body or a joined branch that returns is outside the subset")
	}
	outerVars := t.inScope()
	mod := t.assigned(v.Body.List)
	isMod := map[*varInfo]bool{}
	for _, m := range mod {
		isMod[m] = true
	}
	t.push()
	keyName, valName := "", ""
	if id, ok := v.Key.(*ast.Ident); ok && id.Name != "_" {
		keyName = t.declare(id.Name, TInt).lean
	}
	if id, ok := v.Value.(*ast.Ident); ok && id.Name != "_" {
		valName = t.declare(id.Name, et).lean
	}
	name := fmt.Sprintf("%s_loop%d", t.fnLean, nLoop)
	var fps, fas, mts, mas []string
	for _, o := range outerVars {
		if !isMod[o] {
			fps = append(fps, fmt.Sprintf("(%s : %s)", o.lean, o.t.Lean()))
			fas = append(fas, o.lean)
		}
	}
	for _, o := range mod {
		mts = append(mts, o.t.Lean())
		mas = append(mas, o.lean)
	}
	resTy := "Unit"
	if len(mts) > 0 {
		resTy = "(" + strings.Join(mts, " × ") + ")"
	}
	idxT, idxA, idxNext := "", "", ""
	if keyName != "" && !strPair {
		idxT, idxA, idxNext = "Int → ", ", "+keyName, " ("+keyName+" + 1)"
	}
	done := func() string { return "pure " + tuple(mod) }
	recur := func() string {
		return strings.TrimSpace(fmt.Sprintf("%s %s rest_%s %s", name, strings.Join(fas, " "), idxNext, strings.Join(mas, " ")))
	}
	saveLoops := t.loops
	t.loops = append(t.loops, &loopCtx{brk: done, cont: recur})
	t.direct++
	t.push()
	inner := t.block(v.Body.List, recur)
	t.pop()
	t.direct--
	t.loops = saveLoops
	t.pop()
	hd := valName
	if hd == "" {
		hd = "_"
	}
	if strPair {
		hd = "(" + keyName + ", " + hd + ")"
	}
	sig := fmt.Sprintf("def %s %s : %s → %s%sOption %s", name, strings.Join(fps, " "), x.t.Lean(), idxT, strings.Join(append(mts, ""), " → "), resTy)
	nilPat := "  | []" + idxA + prefixEach(mas, ", ") + " => do\n" + indent(done(), 4)
	consPat := "  | " + hd + " :: rest_" + idxA + prefixEach(mas, ", ") + " => do"
	t.out = append(t.out, fmt.Sprintf("%s\n%s\n%s\n%s\n", sig, nilPat, consPat, indent(inner, 4)))
	start := ""
	if keyName != "" && !strPair {
		start = " 0"
	}
	call := strings.TrimSpace(fmt.Sprintf("%s %s %s%s %s", name, strings.Join(fas, " "), paren(x.s), start, strings.Join(mas, " ")))
	bind := "let _ ← " + call
	if len(mod) > 0 {
		bind = "let " + tuple(mod) + " ← " + call
	}
	return join(append(append([]string{}, x.pre...), bind), rest())
}

// checkSliceAliases rejects a function in which a slice that is written through (`a[i] = v`, `a[i] += v`, `a[i]++`) is
// also copied under another name (`b := a`, `b = a[i:j]`, `b = append(a, …)`, either direction): slices are VALUES in
// the translation, in Go the two names would share their elements.  (`l = l[:n]`, `xs = append(xs, x)` rebind the same
// name and are fine; `J := inv` of two slices that are only read is fine.)
func (t *tr) checkSliceAliases(fd *ast.FuncDecl) {
	written := map[string]bool{}
	noteW := func(e ast.Expr) {
		if ix, ok := e.(*ast.IndexExpr); ok {
			if id, ok := ix.X.(*ast.Ident); ok {
				written[id.Name] = true
			}
		}
	}
	ast.Inspect(fd.Body, func(n ast.Node) bool {
		switch v := n.(type) {
		case *ast.AssignStmt:
			for _, l := range v.Lhs {
				noteW(l)
			}
		case *ast.IncDecStmt:
			noteW(v.X)
		}
		return true
	})
	base := func(e ast.Expr) string {
		for {
			switch v := e.(type) {
			case *ast.ParenExpr:
				e = v.X
			case *ast.SliceExpr:
				e = v.X
			case *ast.CallExpr:
				if id, ok := v.Fun.(*ast.Ident); ok && id.Name == "append" && len(v.Args) > 0 {
					e = v.Args[0]
					continue
				}
				return ""
			case *ast.Ident:
				return v.Name
			default:
				return ""
			}
		}
	}
	check := func(n ast.Node, l ast.Expr, r ast.Expr) {
		a, ok := l.(*ast.Ident)
		b := base(r)
		if !ok || b == "" || a.Name == b || a.Name == "_" {
			return
		}
		if written[a.Name] || written[b] {
			t.fail(n, "%s and %s would share their elements and one of them is assigned through an index: outside the subset (slices are values)", a.Name, b)
		}
	}
	ast.Inspect(fd.Body, func(n ast.Node) bool {
		switch v := n.(type) {
		case *ast.AssignStmt:
			if len(v.Lhs) == len(v.Rhs) && (v.Tok == token.ASSIGN || v.Tok == token.DEFINE) {
				for i := range v.Lhs {
					check(v, v.Lhs[i], v.Rhs[i])
				}
			}
		case *ast.ValueSpec:
			for i := range v.Values {
				if i < len(v.Names) {
					check(v, v.Names[i], v.Values[i])
				}
			}
		}
		return true
	})
}

// ---------------------------------------------------------------- functions

// Translate translates the named top-level functions of one file (in the given order: a function
// must come after the functions it calls) and returns the Lean text of all definitions.
func Translate(fset *token.FileSet, file *ast.File, names []string, cfg *Config) (text string, err error) {
	t := &tr{cfg: cfg, fset: fset, funcs: map[string]*funcSig{}, methods: map[string]*funcSig{}, file: file, inGlobal: map[string]bool{}, iota: -1}
	defer func() {
		if r := recover(); r != nil {
			if b, ok := r.(bail); ok {
				err = b.err
				return
			}
			panic(r)
		}
	}()
	abortCalls = cfg.Abort
	defer func() { abortCalls = nil }()
	if err := checkSentinels(file, cfg); err != nil {
		return "", err
	}
	decls := map[string]*ast.FuncDecl{}
	for _, d := range file.Decls {
		fd, ok := d.(*ast.FuncDecl)
		if !ok {
			continue
		}
		if fd.Recv == nil {
			decls[fd.Name.Name] = fd
		} else if len(fd.Recv.List) == 1 { // methods are named Recv.name
			rt := fd.Recv.List[0].Type
			if st, ok := rt.(*ast.StarExpr); ok {
				rt = st.X
			}
			if id, ok := rt.(*ast.Ident); ok {
				decls[id.Name+"."+fd.Name.Name] = fd
			}
		}
	}
	var b strings.Builder
	for _, n := range names {
		fd := decls[n]
		if i := strings.Index(n, "/func"); i > 0 {
			// "<function>/func<k>": the k-th function literal inside <function> (a closure that only reads the
			// receiver through configured library calls), translated as a function of its own named <function>_func<k>
			base := decls[n[:i]]
			k, _ := strconv.Atoi(n[i+len("/func"):])
			fd = nil
			if base != nil && base.Body != nil && k > 0 {
				cnt := 0
				ast.Inspect(base.Body, func(x ast.Node) bool {
					if lit, ok := x.(*ast.FuncLit); ok {
						cnt++
						if cnt == k && fd == nil {
							fd = &ast.FuncDecl{Name: ast.NewIdent(base.Name.Name + "_func" + strconv.Itoa(k)), Type: lit.Type, Body: lit.Body}
						}
					}
					return true
				})
			}
		}
		if fd == nil || fd.Body == nil {
			return "", fmt.Errorf("function %s not found", n)
		}
		b.WriteString(t.function(fd))
	}
	return b.String(), nil
}

// checkSentinels: with Config.Sentinels, `err == errX` compares messages where Go compares pointers, so the
// package-level `var errX = errors.New("…")` of the file and the configured library sentinels (io.EOF) must all
// have different messages.
func checkSentinels(file *ast.File, cfg *Config) error {
	if cfg.Sentinels == nil {
		return nil
	}
	seen := map[string]string{}
	for n, m := range cfg.Sentinels {
		if o, dup := seen[m]; dup {
			return fmt.Errorf("the error values %s and %s have the same message", o, n)
		}
		seen[m] = n
	}
	for _, d := range file.Decls {
		gd, ok := d.(*ast.GenDecl)
		if !ok || gd.Tok != token.VAR {
			continue
		}
		for _, sp := range gd.Specs {
			vs := sp.(*ast.ValueSpec)
			for i, v := range vs.Values {
				c, ok := v.(*ast.CallExpr)
				if !ok || calleeName(c.Fun) != "errors.New" || len(c.Args) != 1 || i >= len(vs.Names) {
					continue
				}
				lit, ok := c.Args[0].(*ast.BasicLit)
				if !ok || lit.Kind != token.STRING {
					return fmt.Errorf("%s: errors.New of something other than a string literal", vs.Names[i].Name)
				}
				m, _ := strconv.Unquote(lit.Value)
				if o, dup := seen[m]; dup {
					return fmt.Errorf("the error values %s and %s have the same message", o, vs.Names[i].Name)
				}
				seen[m] = vs.Names[i].Name
			}
		}
	}
	return nil
}

// recvReadOnly: the pointer-receiver method fd never changes *r — no assignment, ++/-- or range assignment whose
// target is rooted at r, no method call on r, r only used as `r.f`, and (so that no alias of a field can be written
// through) no store through an index, no copy and no function literal anywhere in the body.
func recvReadOnly(fd *ast.FuncDecl) bool {
	name := fd.Recv.List[0].Names[0].Name
	root := func(e ast.Expr) string {
		for {
			switch v := e.(type) {
			case *ast.SelectorExpr:
				e = v.X
			case *ast.IndexExpr:
				e = v.X
			case *ast.SliceExpr:
				e = v.X
			case *ast.ParenExpr:
				e = v.X
			case *ast.StarExpr:
				e = v.X
			case *ast.Ident:
				return v.Name
			default:
				return ""
			}
		}
	}
	ok, fields, total := true, 0, 0
	ast.Inspect(fd.Body, func(x ast.Node) bool {
		switch v := x.(type) {
		case *ast.AssignStmt:
			for _, l := range v.Lhs {
				if _, isIdx := l.(*ast.IndexExpr); isIdx || root(l) == name {
					ok = false
				}
			}
		case *ast.IncDecStmt:
			if _, isIdx := v.X.(*ast.IndexExpr); isIdx || root(v.X) == name {
				ok = false
			}
		case *ast.RangeStmt:
			if v.Key != nil && root(v.Key) == name || v.Value != nil && root(v.Value) == name {
				ok = false
			}
		case *ast.CallExpr:
			if sel, isSel := v.Fun.(*ast.SelectorExpr); isSel {
				if id, isId := sel.X.(*ast.Ident); isId && id.Name == name {
					ok = false
				}
			}
			if id, isId := v.Fun.(*ast.Ident); isId && id.Name == "copy" {
				ok = false
			}
		case *ast.SelectorExpr:
			if id, isId := v.X.(*ast.Ident); isId && id.Name == name {
				fields++
			}
		case *ast.Ident:
			if v.Name == name {
				total++
			}
		case *ast.FuncLit, *ast.GoStmt, *ast.DeferStmt:
			ok = false
		}
		return true
	})
	return ok && fields == total
}

func (t *tr) function(fd *ast.FuncDecl) string {
	t.fn = fd
	t.fnLean = t.cfg.Prefix + leanIdent(fd.Name.Name)
	if r, ok := t.cfg.Rename[fd.Name.Name]; ok {
		t.fnLean = r
	}
	t.out = nil
	t.scopes, t.order, t.used, t.loops = nil, nil, map[string]int{}, nil
	t.nAux, t.nTmp, t.nLoop = 0, 0, 0
	t.named = nil
	t.nilTest = map[string]bool{}
	ast.Inspect(fd.Body, func(x ast.Node) bool {
		if b, ok := x.(*ast.BinaryExpr); ok && (b.Op == token.EQL || b.Op == token.NEQ) {
			l, lok := b.X.(*ast.Ident)
			r, rok := b.Y.(*ast.Ident)
			if lok && rok && r.Name == "nil" {
				t.nilTest[l.Name] = true
			}
			if lok && rok && l.Name == "nil" {
				t.nilTest[r.Name] = true
			}
		}
		return true
	})
	t.checkSliceAliases(fd)
	t.push()
	sig := &funcSig{lean: t.fnLean}
	var ps []string
	for _, ep := range t.cfg.ExtraParams {
		vi := t.declare(ep.Lean, &Type{K: KOpaque, Name: ep.Type})
		ps = append(ps, fmt.Sprintf("(%s : %s)", vi.lean, ep.Type))
	}
	t.thread, t.moved, t.direct, t.peekOK = nil, map[*varInfo]bool{}, 0, nil
	if fd.Recv != nil && len(fd.Recv.List) == 1 && len(fd.Recv.List[0].Names) == 1 {
		// a POINTER receiver of a threaded structure: the first parameter, returned (with its final value) after the results
		if st, ok := fd.Recv.List[0].Type.(*ast.StarExpr); ok {
			if id, ok := st.X.(*ast.Ident); ok && t.cfg.Threaded[id.Name] {
				ty := t.typeExpr(id)
				vi := t.declare(fd.Recv.List[0].Names[0].Name, ty)
				ps = append(ps, fmt.Sprintf("(%s : %s)", vi.lean, ty.Lean()))
				if t.cfg.ReadOnlyRecv && recvReadOnly(fd) {
					sig.roRecv = ty // the method only reads *r: nothing to return
				} else {
					sig.recv = ty
					t.thread = append(t.thread, vi)
				}
			}
		}
	}
	for _, f := range fd.Type.Params.List {
		ty := t.typeExpr(f.Type)
		for _, n := range f.Names {
			vi := t.declare(n.Name, ty)
			ps = append(ps, fmt.Sprintf("(%s : %s)", vi.lean, ty.Lean()))
			sig.params = append(sig.params, ty)
			if ty.K == KPtr {
				t.thread = append(t.thread, vi)
			}
		}
	}
	var pre []string
	if fd.Type.Results != nil {
		for _, f := range fd.Type.Results.List {
			ty := t.typeExpr(f.Type)
			if len(f.Names) == 0 {
				sig.results = append(sig.results, ty)
			}
			for _, n := range f.Names {
				sig.results = append(sig.results, ty)
				t.named = append(t.named, n.Name)
			}
		}
	}
	if len(sig.results) == 0 && len(t.thread) == 0 {
		t.fail(fd, "function without results")
	}
	t.nGo = len(sig.results)
	all := append([]*Type{}, sig.results...)
	for _, vi := range t.thread {
		all = append(all, vi.t)
	}
	if len(all) == 1 {
		t.ret = all[0]
	} else {
		t.ret = &Type{K: KTuple, Tup: all}
	}
	// named results are variables with zero values
	if len(t.named) > 0 {
		i := 0
		for _, f := range fd.Type.Results.List {
			for _, n := range f.Names {
				vi := t.declare(n.Name, sig.results[i])
				pre = append(pre, fmt.Sprintf("let %s : %s := %s", vi.lean, vi.t.Lean(), t.zero(vi.t)))
				i++
			}
		}
	}
	if sig.recv != nil {
		t.methods[sig.recv.Name+"."+fd.Name.Name] = sig
	} else if sig.roRecv != nil {
		t.methods[sig.roRecv.Name+"."+fd.Name.Name] = sig
	} else {
		t.funcs[fd.Name.Name] = sig
	}
	// direct self-recursion (f calls f): the body is defined by structural recursion on a budget
	t.selfRec = false
	if fd.Recv == nil {
		ast.Inspect(fd.Body, func(x ast.Node) bool {
			if c, ok := x.(*ast.CallExpr); ok && calleeName(c.Fun) == fd.Name.Name {
				t.selfRec = true
			}
			return true
		})
	}
	recFuel := ""
	if t.selfRec {
		if f, ok := t.cfg.Fuel[fd.Name.Name+"#rec"]; ok {
			recFuel = f
		} else {
			recFuel = t.fuelFor(0)
		}
	}
	stmts := fd.Body.List
	t.deferred = nil
	if len(stmts) > 0 {
		if _, isDefer := stmts[0].(*ast.DeferStmt); isDefer {
			// `defer func() { … }()` as the FIRST statement of a function with named results (no recover): its body
			// runs at every return, after the results have been assigned (returnDeferred).  A panic stays a panic.
			if t.deferred = deferredBody(stmts[0]); t.deferred == nil || len(t.named) == 0 || len(t.named) != len(sig.results) || t.selfRec {
				t.fail(stmts[0], "unsupported defer")
			}
			stmts = stmts[1:]
		}
	}
	body := t.block(stmts, func() string {
		if len(t.named) > 0 || t.nGo == 0 { // the end of a function without results is a plain return
			return t.returnStmt(&ast.ReturnStmt{})
		}
		return "none"
	})
	t.deferred = nil
	if fd.Recv != nil && sig.recv == nil && sig.roRecv == nil {
		t.funcs[fd.Recv.List[0].Names[0].Name+"."+fd.Name.Name] = sig
	}
	doc := fmt.Sprintf("/-- translated from `func %s` (%s) -/\n", fd.Name.Name, t.fset.Position(fd.Pos()).Filename)
	var main string
	if t.selfRec {
		if len(t.out) > 0 || len(t.named) > 0 {
			t.fail(fd, "a recursive function with loops, joins or named results is outside the subset")
		}
		var tys, pats, args []string
		for _, p := range ps { // "(name : Type)"
			p = strings.TrimSuffix(strings.TrimPrefix(p, "("), ")")
			i := strings.Index(p, " : ")
			pats = append(pats, p[:i])
			args = append(args, p[:i])
			ty := p[i+3:]
			if strings.Contains(ty, " ") && !(strings.HasPrefix(ty, "(") && matchingParen(ty)) {
				ty = "(" + ty + ")"
			}
			tys = append(tys, ty)
		}
		rec := fmt.Sprintf("def %s_rec : Nat → %s → %s\n  | 0%s => none\n  | fuel + 1%s => do\n%s\n", t.fnLean,
			strings.Join(tys, " → "), t.retLean(), strings.Repeat(", _", len(pats)), prefixEach(pats, ", "), indent(join(pre, body), 4))
		main = fmt.Sprintf("%s\n%sdef %s %s : %s :=\n  %s_rec (%s) %s\n", rec, doc, t.fnLean, strings.Join(ps, " "), t.retLean(), t.fnLean, recFuel, strings.Join(args, " "))
		t.selfRec = false
	} else {
		main = fmt.Sprintf("%sdef %s %s : %s := do\n%s\n", doc, t.fnLean, strings.Join(ps, " "), t.retLean(), indent(join(pre, body), 2))
	}
	var b strings.Builder
	for _, o := range t.out {
		b.WriteString(o + "\n")
	}
	b.WriteString(main + "\n")
	return b.String()
}

// StructDefs emits the Lean structures of the configuration after checking them against the Go
// type declarations of the file (same fields, same order, same types).
func StructDefs(fset *token.FileSet, file *ast.File, cfg *Config) (text string, err error) {
	t := &tr{cfg: cfg, fset: fset}
	defer func() {
		if r := recover(); r != nil {
			if b, ok := r.(bail); ok {
				err = b.err
				return
			}
			panic(r)
		}
	}()
	var names []string
	for n := range cfg.Structs {
		names = append(names, n)
	}
	// dependency order: a structure after the structures its fields mention
	sort.Slice(names, func(i, j int) bool {
		a, b := cfg.Structs[names[i]], cfg.Structs[names[j]]
		uses := func(x, y *Struct) bool {
			for _, f := range x.Fields {
				if strings.Contains(f.T.Lean(), y.Lean) {
					return true
				}
			}
			return false
		}
		if uses(b, a) != uses(a, b) {
			return uses(b, a)
		}
		return names[i] < names[j]
	})
	var sb strings.Builder
	for _, n := range names {
		s := cfg.Structs[n]
		var decl *ast.StructType
		alias := false
		for _, d := range file.Decls {
			gd, ok := d.(*ast.GenDecl)
			if !ok || gd.Tok != token.TYPE {
				continue
			}
			for _, sp := range gd.Specs {
				ts := sp.(*ast.TypeSpec)
				if st, ok := ts.Type.(*ast.StructType); ok && ts.Name.Name == n {
					decl = st
				}
				if ts.Name.Name == n && ts.Assign.IsValid() { // alias of a type of another package: fields as configured
					alias = true
				}
			}
		}
		if decl == nil && !alias {
			return "", fmt.Errorf("type %s struct not found", n)
		}
		var got []Field
		if alias {
			got = s.Fields
			decl = &ast.StructType{Fields: &ast.FieldList{}}
		}
		for _, f := range decl.Fields.List {
			ty := t.typeExpr(f.Type)
			for _, fn := range f.Names {
				got = append(got, Field{Go: fn.Name, T: ty})
			}
		}
		if len(got) != len(s.Fields) {
			return "", fmt.Errorf("type %s has %d fields, the configuration %d", n, len(got), len(s.Fields))
		}
		fmt.Fprintf(&sb, "structure %s where\n", s.Lean)
		for i, f := range s.Fields {
			if f.T.K == KNil && got[i].Go == f.Go && got[i].T.Lean() == f.T.Elem.Lean() {
				// a slice field whose nil-ness the methods observe (`b.buf == nil`): Option of the slice
				fmt.Fprintf(&sb, "  %s : %s\n", f.Lean, strings.TrimSuffix(strings.TrimPrefix(f.T.Lean(), "("), ")"))
				continue
			}
			if got[i].Go != f.Go || got[i].T.Lean() != f.T.Lean() {
				return "", fmt.Errorf("type %s field %d is %s %s, the configuration says %s %s", n, i, got[i].Go, got[i].T.Lean(), f.Go, f.T.Lean())
			}
			fmt.Fprintf(&sb, "  %s : %s\n", f.Lean, f.T.Lean())
		}
		sb.WriteString("deriving Repr, DecidableEq\n\n")
	}
	if cfg.NoStructDefs {
		return "", nil
	}
	return sb.String(), nil
}

// Names lists the definitions generated for a function (for reports).
func Names(text string) []string {
	var res []string
	for _, l := range strings.Split(text, "\n") {
		if strings.HasPrefix(l, "def ") {
			res = append(res, strings.Fields(l)[1])
		}
	}
	sort.Strings(res)
	return res
}
