// Package fact — shared part of factgen, which regenerates lean/GIV/Gen/*.lean from /repo's working tree.
//
// For every modelled decision point it extracts, by function name and syntactic shape
// (never by line number), the constants, tables and the shape of the deciding expression,
// and writes them as Lean definitions.  The models use these definitions, so the theorems
// are re-checked against what the source says now.  An anchor that cannot be located is
// reported as "lost": the last pinned value is emitted and the check falls back on the
// correspondence run for that fact.
package fact

import (
	"bytes"
	"encoding/json"
	"flag"
	"fmt"
	"go/ast"
	"go/parser"
	"go/printer"
	"go/token"
	"os"
	"path/filepath"
	"strconv"
	"strings"
)

// Report is written as JSON on stdout.
type Report struct {
	Groups map[string]*GroupReport `json:"groups"`
}

type GroupReport struct {
	File    string            `json:"file"`
	Changed bool              `json:"changed"`
	Anchors map[string]string `json:"anchors"` // name -> "found: <value>" | "lost: <why>"
}

type Gen struct {
	OutDir string
	Repo   string
	Fset   *token.FileSet
	files  map[string]*ast.File
	Report *GroupReport
	Buf    bytes.Buffer
}

func (g *Gen) Parse(rel string) *ast.File {
	if f, ok := g.files[rel]; ok {
		return f
	}
	f, err := parser.ParseFile(g.Fset, filepath.Join(g.Repo, rel), nil, parser.ParseComments)
	if err != nil {
		g.files[rel] = nil
		return nil
	}
	g.files[rel] = f
	return f
}

func (g *Gen) FuncDecl(rel, name string) *ast.FuncDecl {
	f := g.Parse(rel)
	if f == nil {
		return nil
	}
	for _, d := range f.Decls {
		if fd, ok := d.(*ast.FuncDecl); ok && fd.Name.Name == name && fd.Recv == nil {
			return fd
		}
	}
	return nil
}

func (g *Gen) Method(rel, recv, name string) *ast.FuncDecl {
	f := g.Parse(rel)
	if f == nil {
		return nil
	}
	for _, d := range f.Decls {
		fd, ok := d.(*ast.FuncDecl)
		if !ok || fd.Name.Name != name || fd.Recv == nil || len(fd.Recv.List) != 1 {
			continue
		}
		t := fd.Recv.List[0].Type
		if s, ok := t.(*ast.StarExpr); ok {
			t = s.X
		}
		if id, ok := t.(*ast.Ident); ok && id.Name == recv {
			return fd
		}
	}
	return nil
}

// src prints a node and removes all white space: the "shape" used for matching.
func (g *Gen) Src(n ast.Node) string {
	if n == nil || (fmt.Sprintf("%v", n) == "<nil>") {
		return ""
	}
	var b bytes.Buffer
	printer.Fprint(&b, g.Fset, n)
	return strings.Join(strings.Fields(b.String()), "")
}

// pretty prints a node on one line (for comments in the generated file).
func (g *Gen) Pretty(n ast.Node) string {
	var b bytes.Buffer
	printer.Fprint(&b, g.Fset, n)
	return strings.Join(strings.Fields(b.String()), " ")
}

// topLevelValue finds `name = <expr>` in a var or const declaration at file level.
func (g *Gen) TopLevelValue(rel, name string) ast.Expr {
	f := g.Parse(rel)
	if f == nil {
		return nil
	}
	for _, d := range f.Decls {
		gd, ok := d.(*ast.GenDecl)
		if !ok {
			continue
		}
		for _, s := range gd.Specs {
			vs, ok := s.(*ast.ValueSpec)
			if !ok {
				continue
			}
			for i, n := range vs.Names {
				if n.Name == name && i < len(vs.Values) {
					return vs.Values[i]
				}
			}
		}
	}
	return nil
}

// stringLit extracts the string from "..." / `...` or from []byte("...") / string("...").
func StringLit(e ast.Expr) (string, bool) {
	switch v := e.(type) {
	case *ast.BasicLit:
		if v.Kind == token.STRING {
			s, err := strconv.Unquote(v.Value)
			return s, err == nil
		}
	case *ast.CallExpr:
		if len(v.Args) == 1 {
			return StringLit(v.Args[0])
		}
	case *ast.ParenExpr:
		return StringLit(v.X)
	}
	return "", false
}

func LeanBytes(s string) string {
	parts := make([]string, len(s))
	for i := 0; i < len(s); i++ {
		parts[i] = strconv.Itoa(int(s[i]))
	}
	return "[" + strings.Join(parts, ", ") + "]"
}

func LeanStrList(ss []string) string {
	q := make([]string, len(ss))
	for i, s := range ss {
		q[i] = strconv.Quote(s)
	}
	return "[" + strings.Join(q, ", ") + "]"
}

func (g *Gen) Found(anchor, val string) { g.Report.Anchors[anchor] = "found: " + val }
func (g *Gen) Lost(anchor, why string)  { g.Report.Anchors[anchor] = "lost: " + why }

func (g *Gen) Emit(format string, a ...any) { fmt.Fprintf(&g.Buf, format, a...) }

// emitBool emits `def name : Bool := v` where v is decided by `decide`, which returns
// (value, ok); on !ok the pinned value is used and the anchor reported lost.
func (g *Gen) EmitBool(name, doc string, pinned bool, decide func() (bool, bool, string)) {
	v, ok, why := decide()
	if !ok {
		v = pinned
		g.Lost(name, why)
	} else {
		g.Found(name, strconv.FormatBool(v))
	}
	g.Emit("/-- %s -/\ndef %s : Bool := %v\n", doc, name, v)
}

func (g *Gen) EmitBytesVar(rel, goName, leanName, pinned string) {
	v := g.TopLevelValue(rel, goName)
	s, ok := "", false
	if v != nil {
		s, ok = StringLit(v)
	}
	if !ok {
		s = pinned
		g.Lost(leanName, "no string value for "+goName+" in "+rel)
	} else {
		g.Found(leanName, strconv.Quote(s))
	}
	g.Emit("def %s : GIV.Bytes := %s\n", leanName, LeanBytes(s))
}

// Main implements `<group> factgen -repo R -out DIR`: runs fn and writes GIV/Gen/<module>.lean
// (only when its content changed), then prints the report as JSON.
func Main(args []string, group, module string, fn func(g *Gen)) {
	fs := flag.NewFlagSet("factgen", flag.ExitOnError)
	repo := fs.String("repo", "/repo", "repository root")
	out := fs.String("out", "/verif/lean/GIV/Gen", "output directory")
	fs.Parse(args)
	rep := &Report{Groups: map[string]*GroupReport{}}
	g := &Gen{Repo: *repo, OutDir: *out, Fset: token.NewFileSet(), files: map[string]*ast.File{}}
	g.Report = &GroupReport{Anchors: map[string]string{}}
	g.Emit("/- GENERATED by factgen from /repo's working tree — do not edit; regenerated on every check run. -/\nimport GIV.Basic\nnamespace GIV.Gen.%s\n", module)
	fn(g)
	g.Emit("end GIV.Gen.%s\n", module)
	path := filepath.Join(*out, module+".lean")
	g.Report.File = path
	old, _ := os.ReadFile(path)
	if !bytes.Equal(old, g.Buf.Bytes()) {
		g.Report.Changed = true
		if err := os.WriteFile(path, g.Buf.Bytes(), 0o666); err != nil {
			fmt.Fprintln(os.Stderr, err)
			os.Exit(2)
		}
	}
	rep.Groups[group] = g.Report
	data, _ := json.MarshalIndent(rep, "", " ")
	os.Stdout.Write(data)
	fmt.Println()
}

// WriteModule writes GIV/Gen/<module>.lean next to the main module (only when its content changed).
func (g *Gen) WriteModule(module, text string) {
	path := filepath.Join(g.OutDir, module+".lean")
	old, _ := os.ReadFile(path)
	if string(old) != text {
		g.Report.Changed = true
		if err := os.WriteFile(path, []byte(text), 0o666); err != nil {
			fmt.Fprintln(os.Stderr, err)
			os.Exit(2)
		}
	}
}

// SrcInlined is Src with every identifier that names a package-level constant (or a package-level
// variable initialised with a basic literal) of the same file replaced by that literal: "introduce a
// named constant for a literal" then does not change the shape a fact is matched against.
func (g *Gen) SrcInlined(rel string, n ast.Node) string {
	s := g.Src(n)
	f := g.Parse(rel)
	if f == nil {
		return s
	}
	for _, d := range f.Decls {
		gd, ok := d.(*ast.GenDecl)
		if !ok || (gd.Tok != token.CONST && gd.Tok != token.VAR) {
			continue
		}
		for _, sp := range gd.Specs {
			vs, ok := sp.(*ast.ValueSpec)
			if !ok {
				continue
			}
			for i, name := range vs.Names {
				if i >= len(vs.Values) {
					continue
				}
				lit, ok := vs.Values[i].(*ast.BasicLit)
				if !ok {
					continue
				}
				s = replaceIdent(s, name.Name, lit.Value)
			}
		}
	}
	return s
}

func isIdentByte(b byte) bool {
	return b == '_' || b >= '0' && b <= '9' || b >= 'a' && b <= 'z' || b >= 'A' && b <= 'Z' || b >= 0x80
}

// replaceIdent replaces whole-identifier occurrences of name (not preceded by '.', not inside a
// string or rune literal) in white-space-free source text.
func replaceIdent(s, name, by string) string {
	var b strings.Builder
	inStr := byte(0)
	for i := 0; i < len(s); {
		c := s[i]
		if inStr != 0 {
			b.WriteByte(c)
			if c == '\\' && i+1 < len(s) && inStr != '`' {
				b.WriteByte(s[i+1])
				i += 2
				continue
			}
			if c == inStr {
				inStr = 0
			}
			i++
			continue
		}
		if c == '"' || c == '\'' || c == '`' {
			inStr = c
			b.WriteByte(c)
			i++
			continue
		}
		if strings.HasPrefix(s[i:], name) && (i == 0 || (!isIdentByte(s[i-1]) && s[i-1] != '.')) &&
			(i+len(name) == len(s) || !isIdentByte(s[i+len(name)])) {
			b.WriteString(by)
			i += len(name)
			continue
		}
		b.WriteByte(c)
		i++
	}
	return b.String()
}
