// Package shimkit builds an instrumented variant of go-internal packages OUTSIDE /repo:
// the working tree is copied to a scratch directory, selected source files are rewritten so
// that sync / sync/atomic / math/rand / os / syscall / time identifiers and `go` statements go
// through package vshim (copied into the scratch tree as github.com/rogpeppe/go-internal/vshim),
// and a driver program (package main from harness/shimcmd/<group>) is compiled against the
// scratch tree.  Everything lives under one temp directory that Cleanup removes.
package shimkit

import (
	"bytes"
	"fmt"
	"go/ast"
	"go/format"
	"go/parser"
	"go/token"
	"io/fs"
	"os"
	"os/exec"
	"path/filepath"
	"strconv"
	"strings"

	"golang.org/x/tools/go/ast/astutil"
)

type Spec struct {
	Repo      string   // e.g. /repo
	Files     []string // files to rewrite, relative to Repo (non-test Go files)
	DriverDir string   // directory with the driver's package main sources
	VshimDir  string   // directory with package vshim
	// ExtraFiles are written into the scratch repo (path relative to repo root -> content),
	// e.g. an export_verif.go exposing unexported functions of a package to the driver.
	ExtraFiles map[string]string
}

type Built struct {
	Dir     string // scratch root
	Bin     string // compiled driver
	Rewrote map[string]int
}

func (b *Built) Cleanup() { os.RemoveAll(b.Dir) }

var prefixOf = map[string]string{
	"sync": "Sync", "sync/atomic": "Atomic", "math/rand": "Rand", "os": "Os", "syscall": "Syscall", "time": "Time",
}

const vshimPath = "github.com/rogpeppe/go-internal/vshim"

func exportedNames(dir string) (map[string]bool, error) {
	fset := token.NewFileSet()
	pkgs, err := parser.ParseDir(fset, dir, func(fi fs.FileInfo) bool { return !strings.HasSuffix(fi.Name(), "_test.go") }, 0)
	if err != nil {
		return nil, err
	}
	names := map[string]bool{}
	for _, p := range pkgs {
		for _, f := range p.Files {
			for _, d := range f.Decls {
				switch d := d.(type) {
				case *ast.FuncDecl:
					if d.Recv == nil {
						names[d.Name.Name] = true
					}
				case *ast.GenDecl:
					for _, s := range d.Specs {
						switch s := s.(type) {
						case *ast.TypeSpec:
							names[s.Name.Name] = true
						case *ast.ValueSpec:
							for _, n := range s.Names {
								names[n.Name] = true
							}
						}
					}
				}
			}
		}
	}
	return names, nil
}

// RewriteFile rewrites one Go source file; it returns the new source and the number of
// replaced identifiers / go statements.
func RewriteFile(src []byte, filename string, shimNames map[string]bool) ([]byte, int, error) {
	fset := token.NewFileSet()
	f, err := parser.ParseFile(fset, filename, src, parser.ParseComments)
	if err != nil {
		return nil, 0, err
	}
	local := map[string]string{} // local package name -> import path
	for _, im := range f.Imports {
		p, _ := strconv.Unquote(im.Path.Value)
		name := filepath.Base(p)
		if im.Name != nil {
			name = im.Name.Name
		}
		local[name] = p
	}
	n := 0
	astutil.Apply(f, func(c *astutil.Cursor) bool {
		switch x := c.Node().(type) {
		case *ast.Field:
			// Embedded field `os.File` / `*os.File`: the field name is the type name, and code may
			// refer to it (f.File), so use the alias vshim.<Sel> (= vshim.<Prefix><Sel>) to keep it.
			if len(x.Names) == 0 {
				t := x.Type
				star, isStar := t.(*ast.StarExpr)
				if isStar {
					t = star.X
				}
				if se, ok := t.(*ast.SelectorExpr); ok {
					if id, ok := se.X.(*ast.Ident); ok && id.Obj == nil {
						if pfx, ok := prefixOf[local[id.Name]]; ok && shimNames[pfx+se.Sel.Name] && shimNames[se.Sel.Name] {
							n++
							var nt ast.Expr = &ast.SelectorExpr{X: ast.NewIdent("vshim"), Sel: ast.NewIdent(se.Sel.Name)}
							if isStar {
								nt = &ast.StarExpr{X: nt}
							}
							x.Type = nt
							return false
						}
					}
				}
			}
			return true
		case *ast.SelectorExpr:
			id, ok := x.X.(*ast.Ident)
			if !ok || id.Obj != nil {
				return true
			}
			pfx, ok := prefixOf[local[id.Name]]
			if !ok {
				return true
			}
			cand := pfx + x.Sel.Name
			if !shimNames[cand] {
				return true
			}
			n++
			c.Replace(&ast.SelectorExpr{X: ast.NewIdent("vshim"), Sel: ast.NewIdent(cand)})
			return false
		case *ast.GoStmt:
			n++
			c.Replace(&ast.ExprStmt{X: &ast.CallExpr{
				Fun:  &ast.SelectorExpr{X: ast.NewIdent("vshim"), Sel: ast.NewIdent("Go")},
				Args: []ast.Expr{&ast.FuncLit{Type: &ast.FuncType{Params: &ast.FieldList{}}, Body: &ast.BlockStmt{List: []ast.Stmt{&ast.ExprStmt{X: x.Call}}}}},
			}})
			return true
		}
		return true
	}, nil)
	if n == 0 {
		return src, 0, nil
	}
	// which imported packages are still used?
	used := map[string]bool{}
	ast.Inspect(f, func(node ast.Node) bool {
		if se, ok := node.(*ast.SelectorExpr); ok {
			if id, ok := se.X.(*ast.Ident); ok && id.Obj == nil {
				used[id.Name] = true
			}
		}
		return true
	})
	// rebuild import declarations
	var specs []ast.Spec
	for _, d := range f.Decls {
		gd, ok := d.(*ast.GenDecl)
		if !ok || gd.Tok != token.IMPORT {
			continue
		}
		for _, s := range gd.Specs {
			im := s.(*ast.ImportSpec)
			p, _ := strconv.Unquote(im.Path.Value)
			name := filepath.Base(p)
			if im.Name != nil {
				name = im.Name.Name
			}
			if name == "_" || name == "." || used[name] {
				specs = append(specs, im)
			}
		}
	}
	specs = append(specs, &ast.ImportSpec{Path: &ast.BasicLit{Kind: token.STRING, Value: strconv.Quote(vshimPath)}})
	var decls []ast.Decl
	first := true
	for _, d := range f.Decls {
		if gd, ok := d.(*ast.GenDecl); ok && gd.Tok == token.IMPORT {
			if first {
				first = false
				decls = append(decls, &ast.GenDecl{Tok: token.IMPORT, Lparen: 1, Specs: specs, Rparen: 1})
			}
			continue
		}
		decls = append(decls, d)
	}
	if first {
		decls = append([]ast.Decl{&ast.GenDecl{Tok: token.IMPORT, Lparen: 1, Specs: specs, Rparen: 1}}, decls...)
	}
	f.Decls = decls
	f.Imports = nil
	var buf bytes.Buffer
	if err := format.Node(&buf, fset, f); err != nil {
		return nil, 0, err
	}
	return buf.Bytes(), n, nil
}

func copyTree(src, dst string, skip func(rel string, d fs.DirEntry) bool) error {
	return filepath.WalkDir(src, func(p string, d fs.DirEntry, err error) error {
		if err != nil {
			return err
		}
		rel, _ := filepath.Rel(src, p)
		if rel != "." && skip != nil && skip(rel, d) {
			if d.IsDir() {
				return filepath.SkipDir
			}
			return nil
		}
		target := filepath.Join(dst, rel)
		if d.IsDir() {
			return os.MkdirAll(target, 0o777)
		}
		if !d.Type().IsRegular() {
			return nil
		}
		data, err := os.ReadFile(p)
		if err != nil {
			return err
		}
		return os.WriteFile(target, data, 0o666)
	})
}

// Build makes the scratch tree and compiles the driver.
func Build(spec Spec) (*Built, error) {
	dir, err := os.MkdirTemp("", "giv-shim-")
	if err != nil {
		return nil, err
	}
	b := &Built{Dir: dir, Rewrote: map[string]int{}}
	fail := func(err error) (*Built, error) {
		os.RemoveAll(dir)
		return nil, err
	}
	repo := filepath.Join(dir, "repo")
	if err := copyTree(spec.Repo, repo, func(rel string, d fs.DirEntry) bool {
		return rel == ".git" || (d.IsDir() && filepath.Base(rel) == "testdata") || strings.HasSuffix(rel, "_test.go")
	}); err != nil {
		return fail(err)
	}
	if err := copyTree(spec.VshimDir, filepath.Join(repo, "vshim"), func(rel string, d fs.DirEntry) bool { return strings.HasSuffix(rel, "_test.go") }); err != nil {
		return fail(err)
	}
	names, err := exportedNames(spec.VshimDir)
	if err != nil {
		return fail(err)
	}
	for _, rel := range spec.Files {
		p := filepath.Join(repo, rel)
		src, err := os.ReadFile(p)
		if err != nil {
			return fail(err)
		}
		out, n, err := RewriteFile(src, rel, names)
		if err != nil {
			return fail(fmt.Errorf("rewrite %s: %v", rel, err))
		}
		b.Rewrote[rel] = n
		if err := os.WriteFile(p, out, 0o666); err != nil {
			return fail(err)
		}
	}
	for rel, content := range spec.ExtraFiles {
		if err := os.WriteFile(filepath.Join(repo, rel), []byte(content), 0o666); err != nil {
			return fail(err)
		}
	}
	h := filepath.Join(dir, "h")
	if err := copyTree(spec.DriverDir, h, nil); err != nil {
		return fail(err)
	}
	gomod := "module verif/shimh\n\ngo 1.23\n\nrequire github.com/rogpeppe/go-internal v0.0.0\n\nreplace github.com/rogpeppe/go-internal => ../repo\n"
	if err := os.WriteFile(filepath.Join(h, "go.mod"), []byte(gomod), 0o666); err != nil {
		return fail(err)
	}
	if sum, err := os.ReadFile(filepath.Join(spec.Repo, "go.sum")); err == nil {
		os.WriteFile(filepath.Join(h, "go.sum"), sum, 0o666)
	}
	b.Bin = filepath.Join(dir, "drv")
	cmd := exec.Command("go", "build", "-o", b.Bin, ".")
	cmd.Dir = h
	cmd.Env = append(os.Environ(), "GOFLAGS=-mod=mod", "GOPROXY=off", "GOSUMDB=off", "GOTOOLCHAIN=local", "CGO_ENABLED=0")
	if out, err := cmd.CombinedOutput(); err != nil {
		// keep nothing behind
		msg := fmt.Errorf("building instrumented driver: %v\n%s", err, out)
		return fail(msg)
	}
	return b, nil
}
