// Package corr is the shared part of the correspondence harness: each group binary
// (cmd/<group>) runs the real go-internal packages and a Lean model driver on the same
// cases, reports every difference, and runs model-independent property oracles on the
// implementation.
package corr

import (
	"encoding/hex"
	"encoding/json"
	"flag"
	"fmt"
	"os"
	"strconv"
)

// Disagreement is one case where model and implementation differ.
type Disagreement struct {
	Case  string `json:"case"`
	Impl  string `json:"impl"`
	Model string `json:"model"`
	// Properties the differing observable belongs to (empty = every property of the group).
	Properties []string `json:"properties,omitempty"`
}

// Violation is a failure of a property oracle on the implementation itself.
type Violation struct {
	Property string `json:"property"`
	Input    string `json:"input"` // the concrete failing case, replayable
	What     string `json:"what"`
	Class    string `json:"class"` // stable key used by known_findings.json
}

// Result is what a sub-command reports to ./check.
type Result struct {
	Group              string            `json:"group"`
	Tier               string            `json:"tier"`
	Seed               int64             `json:"seed"`
	Evaluations        int               `json:"evaluations"`
	DistinctNontrivial int               `json:"distinct_nontrivial"`
	Rule               string            `json:"rule"`
	Exhaustive         bool              `json:"exhaustive"`
	Samples            []any             `json:"samples"`
	NDisagreements     int               `json:"n_disagreements"`
	DisagreementsBy    map[string]int    `json:"disagreements_by,omitempty"` // property id (or "*" = all) -> count
	Disagreements      []Disagreement    `json:"disagreements"`
	Violations         []Violation       `json:"violations"`
	OracleChecked      map[string]int    `json:"oracle_checked"`
	Distribution       map[string]int    `json:"distribution"`
	Observations       []string          `json:"observations"`
	Extra              map[string]any    `json:"extra,omitempty"`
	PerProperty        map[string]string `json:"per_property,omitempty"`
}

func NewResult(group, tier string, seed int64) *Result {
	return &Result{Group: group, Tier: tier, Seed: seed, OracleChecked: map[string]int{}, Distribution: map[string]int{}, Extra: map[string]any{}}
}

func (r *Result) Disagree(c, impl, model string) {
	r.DisagreeFor(nil, c, impl, model)
}

// DisagreeFor records a model/implementation difference that concerns only the given
// properties (a group serving several properties compares several observables per case;
// a difference in an observable of one property must not raise an alarm for its siblings).
func (r *Result) DisagreeFor(props []string, c, impl, model string) {
	r.NDisagreements++
	if r.DisagreementsBy == nil {
		r.DisagreementsBy = map[string]int{}
	}
	if len(props) == 0 {
		r.DisagreementsBy["*"]++
	}
	keep := len(r.Disagreements) < 20
	for _, p := range props {
		r.DisagreementsBy[p]++
		if r.DisagreementsBy[p] <= 5 {
			keep = true
		}
	}
	if keep && len(r.Disagreements) < 200 {
		r.Disagreements = append(r.Disagreements, Disagreement{c, impl, model, props})
	}
}

func (r *Result) Violate(prop, input, what, class string) {
	r.Distribution["violation:"+prop+":"+class]++
	if r.Distribution["violation:"+prop+":"+class] <= 5 {
		r.Violations = append(r.Violations, Violation{prop, input, what, class})
	}
}

func Hx(b []byte) string {
	if len(b) == 0 {
		return "-"
	}
	return hex.EncodeToString(b)
}

func Unhx(s string) []byte {
	if s == "-" {
		return nil
	}
	b, err := hex.DecodeString(s)
	if err != nil {
		panic(err)
	}
	return b
}

// RunFunc runs one group's correspondence + oracle pass.
// replay, when non-empty, is a single case in the group's own encoding.
type RunFunc func(tier string, seed int64, model string, replay string) *Result

// Main parses the common flags of `<group> corr ...` and writes the Result as JSON.
func Main(args []string, run RunFunc) {
	fs := flag.NewFlagSet("corr", flag.ExitOnError)
	tier := fs.String("tier", "quick", "quick|thorough")
	seed := fs.Int64("seed", 1, "PRNG seed")
	model := fs.String("model", "", "path of the Lean model driver")
	out := fs.String("out", "", "result JSON path")
	replay := fs.String("replay", "", "replay a single case (group specific encoding)")
	fs.Parse(args)
	if s := os.Getenv("VERIF_SEED"); s != "" && *seed == 1 {
		if v, err := strconv.ParseInt(s, 10, 64); err == nil {
			*seed = v
		}
	}
	res := run(*tier, *seed, *model, *replay)
	data, _ := json.MarshalIndent(res, "", " ")
	if *out != "" {
		if err := os.WriteFile(*out, data, 0o666); err != nil {
			fmt.Fprintln(os.Stderr, err)
			os.Exit(2)
		}
	} else {
		os.Stdout.Write(data)
	}
}
