package vshim

import (
	"fmt"
	"sync"
)

// SyncLocker is sync.Locker.
type SyncLocker = sync.Locker

// SyncMutex replaces sync.Mutex: Lock is enabled only while the mutex is free.
type SyncMutex struct {
	locked bool
	owner  int
	real   sync.Mutex
}

func (m *SyncMutex) Lock() {
	s := cur
	if s == nil {
		m.real.Lock()
		return
	}
	s.step("lock", []string{s.Name("m", m)}, func() bool { return !m.locked }, func() string {
		m.locked = true
		m.owner = s.cur.id
		return ""
	})
}

func (m *SyncMutex) Unlock() {
	s := cur
	if s == nil {
		m.real.Unlock()
		return
	}
	s.step("unlock", []string{s.Name("m", m)}, nil, func() string {
		if !m.locked {
			panic("vshim: unlock of unlocked mutex")
		}
		m.locked = false
		return ""
	})
}

// SyncCond replaces sync.Cond.  Wait = (atomically) unlock + join the wait set; the waiter
// becomes runnable only after a Signal/Broadcast selected it, and then re-acquires L.
// Signal wakes the longest waiting task (as sync.Cond does); there are no spurious wake-ups.
type SyncCond struct {
	L       SyncLocker
	waiters []*condWaiter
}

type condWaiter struct {
	task  int
	woken bool
}

func (c *SyncCond) Wait() {
	s := cur
	if s == nil {
		panic("vshim: SyncCond.Wait outside a controlled execution")
	}
	m, ok := c.L.(*SyncMutex)
	if !ok {
		panic("vshim: SyncCond.L must be a *SyncMutex")
	}
	w := &condWaiter{task: s.cur.id}
	s.step("wait", []string{s.Name("c", c), s.Name("m", m)}, nil, func() string {
		if !m.locked {
			panic("vshim: Wait with unlocked mutex")
		}
		m.locked = false
		c.waiters = append(c.waiters, w)
		return ""
	})
	s.step("wake", []string{s.Name("c", c), s.Name("m", m)}, func() bool { return w.woken && !m.locked }, func() string {
		m.locked = true
		m.owner = s.cur.id
		return ""
	})
}

func (c *SyncCond) Signal() {
	s := cur
	if s == nil {
		return
	}
	s.step("signal", []string{s.Name("c", c)}, nil, func() string {
		for i, w := range c.waiters {
			if !w.woken {
				w.woken = true
				c.waiters = append(c.waiters[:i:i], c.waiters[i+1:]...)
				return fmt.Sprintf("t%d", w.task)
			}
		}
		return "none"
	})
}

func (c *SyncCond) Broadcast() {
	s := cur
	if s == nil {
		return
	}
	s.step("broadcast", []string{s.Name("c", c)}, nil, func() string {
		n := len(c.waiters)
		for _, w := range c.waiters {
			w.woken = true
		}
		c.waiters = nil
		return fmt.Sprintf("%d", n)
	})
}

// SyncMap replaces sync.Map (only the methods go-internal uses); each call is one atomic step.
type SyncMap struct {
	m    map[any]any
	real sync.Map
}

func (m *SyncMap) Load(key any) (any, bool) {
	s := cur
	if s == nil {
		return m.real.Load(key)
	}
	var v any
	var ok bool
	s.step("map.load", []string{s.Name("M", m), fmt.Sprint(key)}, nil, func() string {
		v, ok = m.m[key]
		if ok {
			return "hit"
		}
		return "miss"
	})
	return v, ok
}

func (m *SyncMap) LoadOrStore(key, value any) (any, bool) {
	s := cur
	if s == nil {
		return m.real.LoadOrStore(key, value)
	}
	var v any
	var loaded bool
	s.step("map.loadOrStore", []string{s.Name("M", m), fmt.Sprint(key)}, nil, func() string {
		if m.m == nil {
			m.m = map[any]any{}
		}
		if old, ok := m.m[key]; ok {
			v, loaded = old, true
			return "loaded"
		}
		m.m[key] = value
		v, loaded = value, false
		return "stored"
	})
	return v, loaded
}

func (m *SyncMap) Store(key, value any) {
	s := cur
	if s == nil {
		m.real.Store(key, value)
		return
	}
	s.step("map.store", []string{s.Name("M", m), fmt.Sprint(key)}, nil, func() string {
		if m.m == nil {
			m.m = map[any]any{}
		}
		m.m[key] = value
		return ""
	})
}

func (m *SyncMap) Range(f func(key, value any) bool) {
	s := cur
	if s == nil {
		m.real.Range(f)
		return
	}
	var snap [][2]any
	s.step("map.range", []string{s.Name("M", m)}, nil, func() string {
		for k, v := range m.m {
			snap = append(snap, [2]any{k, v})
		}
		return fmt.Sprint(len(snap))
	})
	for _, kv := range snap {
		if !f(kv[0], kv[1]) {
			return
		}
	}
}

// SyncOnce replaces sync.Once.
type SyncOnce struct {
	done bool
	m    SyncMutex
	real sync.Once
}

func (o *SyncOnce) Do(f func()) {
	if cur == nil {
		o.real.Do(f)
		return
	}
	o.m.Lock()
	defer o.m.Unlock()
	if !o.done {
		defer func() { o.done = true }()
		f()
	}
}

// ---- sync/atomic (sequentially consistent, one step each)

func AtomicLoadUint32(p *uint32) uint32 {
	s := cur
	if s == nil {
		return *p
	}
	var v uint32
	s.step("atomic.load", []string{s.Name("a", p)}, nil, func() string { v = *p; return fmt.Sprint(v) })
	return v
}

func AtomicStoreUint32(p *uint32, v uint32) {
	s := cur
	if s == nil {
		*p = v
		return
	}
	s.step("atomic.store", []string{s.Name("a", p), fmt.Sprint(v)}, nil, func() string { *p = v; return "" })
}

func AtomicAddInt32(p *int32, d int32) int32 {
	s := cur
	if s == nil {
		*p += d
		return *p
	}
	var v int32
	s.step("atomic.add", []string{s.Name("a", p), fmt.Sprint(d)}, nil, func() string { *p += d; v = *p; return fmt.Sprint(v) })
	return v
}

// ---- math/rand: a schedule-controlled choice

// RandChoose is consulted by RandIntn; default 0.
var RandChoose func(n int) int

func RandIntn(n int) int {
	s := cur
	k := 0
	if RandChoose != nil {
		k = RandChoose(n) % n
	}
	if s != nil {
		s.log(Event{Proc: s.cur.proc, Task: s.cur.id, Op: "rand", Args: []string{fmt.Sprint(n)}, Res: fmt.Sprint(k)})
	}
	return k
}
