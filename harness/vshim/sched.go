// Package vshim is the instrumentation layer used on SCRATCH COPIES of go-internal packages
// (never inside /repo): package-qualified identifiers such as sync.Mutex, atomic.LoadUint32,
// rand.Intn, os.OpenFile, syscall.Flock, time.Now are rewritten to vshim.SyncMutex,
// vshim.AtomicLoadUint32, ... and every `go f()` statement to vshim.Go(func(){ f() }).
//
// All goroutines of the code under test then run as cooperative tasks of one scheduler:
// exactly one task runs at a time; every shim operation is a scheduling point, is logged as
// an Event, and (for OS operations) can be made to fail, be short, or be the last thing its
// "process" ever does.  The scheduler picks the next task from a caller supplied chooser
// (seeded random, PCT-style priorities, or a recorded choice list for DFS / replay).
//
// The semantics implemented here for mutexes, condition variables, atomics, flock and the
// file operations are the ones the Lean models assume; the traces logged here are what the
// models replay (trace correspondence).
package vshim

import (
	"fmt"
	"strings"
)

// Event is one atomic, logged step of a task.
type Event struct {
	Step int
	Proc int
	Task int
	Op   string
	Args []string
	Res  string
}

func (e Event) String() string {
	s := fmt.Sprintf("p%d t%d %s", e.Proc, e.Task, e.Op)
	if len(e.Args) > 0 {
		s += " " + strings.Join(e.Args, " ")
	}
	if e.Res != "" {
		s += " -> " + e.Res
	}
	return s
}

// FaultKind says what happens to an OS operation.
type FaultKind int

const (
	FNone        FaultKind = iota
	FFail                  // the operation has no effect and reports an error
	FShort                 // a write stores only the first K bytes and reports an error
	FCrashBefore           // the process stops before the operation
	FCrashAfter            // the process stops right after the operation (its effect happened)
	FErrno                 // the operation has no effect and reports Fault.Err (e.g. syscall.EINTR)
)

type Fault struct {
	Kind FaultKind
	K    int
	Err  error // for FErrno
}

type crashSentinel struct{ proc int }

type task struct {
	id      int
	proc    int
	resume  chan struct{}
	pending Event
	enabled func() bool
	done    bool
	started bool
}

// Sched is one controlled execution.
type Sched struct {
	tasks    []*task
	cur      *task
	parked   chan struct{}
	Trace    []Event
	Deadlock bool
	Aborted  bool // MaxSteps exceeded
	MaxSteps int
	// Choose picks one of the enabled tasks (indices into the slice it is given); the slice
	// holds task ids in increasing order.  Default: the first.
	Choose func(step int, enabled []int, s *Sched) int
	// FaultAt decides the fate of the n-th (0-based, per execution) OS operation.
	FaultAt func(osIndex int, e *Event) Fault
	// Now is the simulated clock (nanoseconds since the Unix epoch) returned by TimeNow.
	Now     int64
	osIndex int
	dead    map[int]bool
	files   map[int][]*OsFile // open files per process
	objs    map[any]string
	nobj    map[string]int
	locks   map[inodeKey]*lockState
	// Choices records, per step, (number of enabled tasks, index chosen): for DFS.
	Choices [][2]int
	// PendingOf lets a chooser look at what an enabled task is about to do.
	// OnSched, when set, is called at every scheduling point (also the one at which a deadlock is
	// detected) with the ids of the live tasks and of the enabled ones, before Choose.
	OnSched func(s *Sched, alive, enabled []int)
}

var cur *Sched

// S returns the scheduler of the running execution (nil outside one).
func S() *Sched { return cur }

// NewSched prepares an execution.
func NewSched() *Sched {
	return &Sched{parked: make(chan struct{}), MaxSteps: 100000, dead: map[int]bool{}, files: map[int][]*OsFile{},
		objs: map[any]string{}, nobj: map[string]int{}, locks: map[inodeKey]*lockState{}}
}

// Pending returns the operation task id is waiting to perform.
func (s *Sched) Pending(id int) Event { return s.tasks[id].pending }

// Name gives a stable small name ("m0", "c1", ...) to a synchronisation object.
func (s *Sched) Name(kind string, p any) string {
	if n, ok := s.objs[p]; ok {
		return n
	}
	n := fmt.Sprintf("%s%d", kind, s.nobj[kind])
	s.nobj[kind]++
	s.objs[p] = n
	return n
}

func (s *Sched) spawn(proc int, f func()) *task {
	t := &task{id: len(s.tasks), proc: proc, resume: make(chan struct{})}
	t.pending = Event{Op: "start"}
	t.enabled = func() bool { return true }
	s.tasks = append(s.tasks, t)
	go func() {
		<-t.resume
		defer func() {
			if r := recover(); r != nil {
				if _, ok := r.(crashSentinel); !ok {
					s.log(Event{Proc: t.proc, Task: t.id, Op: "panic", Args: []string{fmt.Sprint(r)}})
				}
			}
			t.done = true
			s.parked <- struct{}{}
		}()
		s.log(Event{Proc: t.proc, Task: t.id, Op: "start"})
		f()
		s.log(Event{Proc: t.proc, Task: t.id, Op: "exit"})
	}()
	return t
}

func (s *Sched) log(e Event) {
	e.Step = len(s.Trace)
	s.Trace = append(s.Trace, e)
}

// Go starts f as a new task of the calling task's process (rewritten `go` statement).
func Go(f func()) {
	s := cur
	if s == nil {
		go f()
		return
	}
	nt := s.spawn(s.cur.proc, f)
	s.log(Event{Proc: s.cur.proc, Task: s.cur.id, Op: "go", Args: []string{fmt.Sprintf("t%d", nt.id)}})
}

// SpawnProc starts f as the first task of a new simulated process; callable from the
// harness before Run or from a running task.
func (s *Sched) SpawnProc(proc int, f func()) { s.spawn(proc, f) }

// Run executes until every task has finished, or no task can move (Deadlock), or MaxSteps.
func (s *Sched) Run() {
	old := cur
	cur = s
	defer func() { cur = old }()
	for step := 0; ; step++ {
		var en, live []int
		alive := 0
		for _, t := range s.tasks {
			if t.done || s.dead[t.proc] {
				continue
			}
			alive++
			if s.OnSched != nil {
				live = append(live, t.id)
			}
			if t.enabled() {
				en = append(en, t.id)
			}
		}
		if alive == 0 {
			return
		}
		if s.OnSched != nil {
			s.OnSched(s, live, en)
		}
		if len(en) == 0 {
			s.Deadlock = true
			return
		}
		if step >= s.MaxSteps {
			s.Aborted = true
			return
		}
		k := 0
		if s.Choose != nil && len(en) > 1 {
			k = s.Choose(step, en, s)
		}
		s.Choices = append(s.Choices, [2]int{len(en), k})
		t := s.tasks[en[k]]
		s.cur = t
		t.resume <- struct{}{}
		<-s.parked
	}
}

// step is a scheduling point: the task announces op, waits until it is chosen (only when
// enabled() holds), then performs action atomically and logs the event with its result.
func (s *Sched) step(op string, args []string, enabled func() bool, action func() string) string {
	t := s.cur
	if s.dead[t.proc] {
		panic(crashSentinel{t.proc})
	}
	t.pending = Event{Proc: t.proc, Task: t.id, Op: op, Args: args}
	if enabled == nil {
		enabled = func() bool { return true }
	}
	t.enabled = enabled
	s.parked <- struct{}{}
	<-t.resume
	if s.dead[t.proc] {
		panic(crashSentinel{t.proc})
	}
	res := action()
	s.log(Event{Proc: t.proc, Task: t.id, Op: op, Args: args, Res: res})
	return res
}

// Step lets harness code running inside a task log an event of its own and yield.
func Step(op string, args ...string) {
	if cur == nil {
		return
	}
	cur.step(op, args, nil, func() string { return "" })
}

// Note logs an event without yielding.
func Note(op string, args ...string) {
	if cur == nil {
		return
	}
	cur.log(Event{Proc: cur.cur.proc, Task: cur.cur.id, Op: op, Args: args})
}

// crash kills the calling task's process: its open files are closed (dropping their locks),
// none of its tasks is ever scheduled again.
func (s *Sched) crash() {
	p := s.cur.proc
	s.dead[p] = true
	for _, f := range s.files[p] {
		f.closeQuietly()
	}
	s.files[p] = nil
	s.log(Event{Proc: p, Task: s.cur.id, Op: "crash"})
	panic(crashSentinel{p})
}

// CurProc returns the simulated process id of the running task.
func CurProc() int {
	if cur == nil || cur.cur == nil {
		return 0
	}
	return cur.cur.proc
}

// CurTask returns the id of the running task.
func CurTask() int {
	if cur == nil || cur.cur == nil {
		return 0
	}
	return cur.cur.id
}
