package vshim

import (
	"errors"
	"fmt"
	"io"
	"io/fs"
	"os"
	"syscall"
	"time"
)

// ErrInjected is the error reported by an operation that was made to fail.
var ErrInjected = &os.PathError{Op: "injected", Path: "", Err: syscall.EIO}

// OsFile replaces os.File: a real file in a real (temporary) directory whose every
// operation is a logged scheduling point with fault injection.
type OsFile struct {
	f      *os.File
	name   string
	proc   int
	closed bool
	fdName string
}

// File is an alias used for EMBEDDED fields (`*os.File` embedded in a struct keeps the field name File).
type File = OsFile

type inodeKey struct{ dev, ino uint64 }

type lockState struct {
	ex      *OsFile
	readers map[*OsFile]bool
}

func hexs(b []byte) string {
	if len(b) == 0 {
		return "-"
	}
	const d = "0123456789abcdef"
	out := make([]byte, 0, 2*len(b))
	for _, c := range b {
		out = append(out, d[c>>4], d[c&15])
	}
	return string(out)
}

// PathName maps absolute paths of the execution's temp dir to stable names in the trace.
var PathName = func(p string) string { return p }

func errRes(err error) string {
	switch {
	case err == nil:
		return "ok"
	case errors.Is(err, fs.ErrNotExist):
		return "enoent"
	case errors.Is(err, fs.ErrExist):
		return "eexist"
	case err == io.EOF:
		return "eof"
	case errors.Is(err, syscall.EIO):
		return "eio"
	case errors.Is(err, syscall.EISDIR):
		return "eisdir"
	case errors.Is(err, syscall.ENOTDIR):
		return "enotdir"
	case errors.Is(err, fs.ErrClosed):
		return "eclosed"
	}
	return "err:" + err.Error()
}

// osStep is a step that counts as an OS operation for fault injection.
// do performs the operation (short = number of bytes allowed for a short write, -1 = all).
func (s *Sched) osStep(op string, args []string, enabled func() bool, do func(f Fault) (string, error)) error {
	var err error
	crashAfter := false
	s.step(op, args, enabled, func() string {
		idx := s.osIndex
		s.osIndex++
		var f Fault
		if s.FaultAt != nil {
			e := Event{Proc: s.cur.proc, Task: s.cur.id, Op: op, Args: args}
			f = s.FaultAt(idx, &e)
		}
		switch f.Kind {
		case FCrashBefore:
			s.log(Event{Proc: s.cur.proc, Task: s.cur.id, Op: op, Args: args, Res: "crash-before"})
			s.crash()
		case FFail:
			err = ErrInjected
			return "fail"
		case FErrno:
			err = f.Err
			return errRes(err)
		case FCrashAfter:
			crashAfter = true
		}
		var res string
		res, err = do(f)
		if err != nil && res == "" {
			res = errRes(err)
		}
		if f.Kind == FShort {
			res = "short:" + res
		}
		return res
	})
	if crashAfter {
		s.crash()
	}
	return err
}

func (s *Sched) track(f *OsFile) {
	s.files[f.proc] = append(s.files[f.proc], f)
	f.fdName = fmt.Sprintf("fd%d", s.nobj["fd"])
	s.nobj["fd"]++
}

func (s *Sched) untrack(f *OsFile) {
	l := s.files[f.proc]
	for i, g := range l {
		if g == f {
			s.files[f.proc] = append(l[:i:i], l[i+1:]...)
			return
		}
	}
}

func flagStr(flag int) string {
	s := ""
	switch flag & 3 {
	case os.O_RDONLY:
		s = "RDONLY"
	case os.O_WRONLY:
		s = "WRONLY"
	case os.O_RDWR:
		s = "RDWR"
	}
	for _, p := range []struct {
		f int
		n string
	}{{os.O_CREATE, "CREATE"}, {os.O_TRUNC, "TRUNC"}, {os.O_EXCL, "EXCL"}, {os.O_APPEND, "APPEND"}} {
		if flag&p.f != 0 {
			s += "+" + p.n
		}
	}
	return s
}

func OsOpenFile(name string, flag int, perm fs.FileMode) (*OsFile, error) {
	s := cur
	if s == nil {
		f, err := os.OpenFile(name, flag, perm)
		if err != nil {
			return nil, err
		}
		return &OsFile{f: f, name: name}, nil
	}
	var out *OsFile
	err := s.osStep("open", []string{PathName(name), flagStr(flag)}, nil, func(Fault) (string, error) {
		f, err := os.OpenFile(name, flag, perm)
		if err != nil {
			return "", err
		}
		out = &OsFile{f: f, name: name, proc: s.cur.proc}
		s.track(out)
		return "ok:" + out.fdName, nil
	})
	if err != nil {
		return nil, err
	}
	return out, nil
}

func OsOpen(name string) (*OsFile, error) { return OsOpenFile(name, os.O_RDONLY, 0) }

func OsCreate(name string) (*OsFile, error) {
	return OsOpenFile(name, os.O_RDWR|os.O_CREATE|os.O_TRUNC, 0o666)
}

func (f *OsFile) Name() string { return f.name }
func (f *OsFile) Fd() uintptr  { return f.f.Fd() }

// Real returns the underlying file (for harness code; operations on it are not logged).
func (f *OsFile) Real() *os.File { return f.f }

func (f *OsFile) Read(b []byte) (int, error) {
	s := cur
	if s == nil {
		return f.f.Read(b)
	}
	var n int
	err := s.osStep("read", []string{f.fdName, fmt.Sprint(len(b))}, nil, func(Fault) (string, error) {
		var err error
		n, err = f.f.Read(b)
		if err != nil && err != io.EOF {
			return "", err
		}
		if err == io.EOF {
			return "eof", err
		}
		return "ok:" + hexs(b[:n]), nil
	})
	return n, err
}

func (f *OsFile) Write(b []byte) (int, error) {
	s := cur
	if s == nil {
		return f.f.Write(b)
	}
	var n int
	err := s.osStep("write", []string{f.fdName, hexs(b)}, nil, func(ft Fault) (string, error) {
		if ft.Kind == FShort {
			k := ft.K
			if k > len(b) {
				k = len(b)
			}
			n, _ = f.f.Write(b[:k])
			return fmt.Sprint(n), ErrInjected
		}
		var err error
		n, err = f.f.Write(b)
		if err != nil {
			return "", err
		}
		return fmt.Sprintf("ok:%d", n), nil
	})
	return n, err
}

func (f *OsFile) WriteAt(b []byte, off int64) (int, error) {
	s := cur
	if s == nil {
		return f.f.WriteAt(b, off)
	}
	var n int
	err := s.osStep("pwrite", []string{f.fdName, hexs(b), fmt.Sprint(off)}, nil, func(ft Fault) (string, error) {
		if ft.Kind == FShort {
			k := ft.K
			if k > len(b) {
				k = len(b)
			}
			n, _ = f.f.WriteAt(b[:k], off)
			return fmt.Sprint(n), ErrInjected
		}
		var err error
		n, err = f.f.WriteAt(b, off)
		if err != nil {
			return "", err
		}
		return fmt.Sprintf("ok:%d", n), nil
	})
	return n, err
}

func (f *OsFile) ReadAt(b []byte, off int64) (int, error) {
	s := cur
	if s == nil {
		return f.f.ReadAt(b, off)
	}
	var n int
	err := s.osStep("pread", []string{f.fdName, fmt.Sprint(len(b)), fmt.Sprint(off)}, nil, func(Fault) (string, error) {
		var err error
		n, err = f.f.ReadAt(b, off)
		if err != nil && err != io.EOF {
			return "", err
		}
		return "ok:" + hexs(b[:n]), err
	})
	return n, err
}

func (f *OsFile) Seek(off int64, whence int) (int64, error) {
	s := cur
	if s == nil {
		return f.f.Seek(off, whence)
	}
	var n int64
	err := s.osStep("seek", []string{f.fdName, fmt.Sprint(off), fmt.Sprint(whence)}, nil, func(Fault) (string, error) {
		var err error
		n, err = f.f.Seek(off, whence)
		if err != nil {
			return "", err
		}
		return fmt.Sprintf("ok:%d", n), nil
	})
	return n, err
}

func (f *OsFile) Truncate(size int64) error {
	s := cur
	if s == nil {
		return f.f.Truncate(size)
	}
	return s.osStep("ftruncate", []string{f.fdName, fmt.Sprint(size)}, nil, func(Fault) (string, error) {
		return "", f.f.Truncate(size)
	})
}

func (f *OsFile) Stat() (fs.FileInfo, error) {
	s := cur
	if s == nil {
		return f.f.Stat()
	}
	var fi fs.FileInfo
	err := s.osStep("fstat", []string{f.fdName}, nil, func(Fault) (string, error) {
		var err error
		fi, err = f.f.Stat()
		if err != nil {
			return "", err
		}
		return fmt.Sprintf("ok:size=%d", fi.Size()), nil
	})
	return fi, err
}

func (f *OsFile) Sync() error { return nil }

func (f *OsFile) Chmod(mode fs.FileMode) error { return f.f.Chmod(mode) }

func (f *OsFile) closeQuietly() {
	if f.closed {
		return
	}
	f.closed = true
	if cur != nil {
		cur.dropLocks(f)
	}
	f.f.Close()
}

func (f *OsFile) Close() error {
	s := cur
	if s == nil {
		return f.f.Close()
	}
	return s.osStep("close", []string{f.fdName}, nil, func(ft Fault) (string, error) {
		if f.closed {
			return "", fs.ErrClosed
		}
		f.closed = true
		s.dropLocks(f)
		s.untrack(f)
		return "", f.f.Close()
	})
}

func (f *OsFile) Readdirnames(n int) ([]string, error) {
	s := cur
	if s == nil {
		return f.f.Readdirnames(n)
	}
	var names []string
	err := s.osStep("readdirnames", []string{f.fdName}, nil, func(Fault) (string, error) {
		var err error
		names, err = f.f.Readdirnames(n)
		if err != nil {
			return "", err
		}
		return fmt.Sprintf("ok:%d", len(names)), nil
	})
	return names, err
}

// ---- path operations

func OsStat(name string) (fs.FileInfo, error) {
	s := cur
	if s == nil {
		return os.Stat(name)
	}
	var fi fs.FileInfo
	err := s.osStep("stat", []string{PathName(name)}, nil, func(Fault) (string, error) {
		var err error
		fi, err = os.Stat(name)
		if err != nil {
			return "", err
		}
		return fmt.Sprintf("ok:size=%d", fi.Size()), nil
	})
	return fi, err
}

func OsRemove(name string) error {
	s := cur
	if s == nil {
		return os.Remove(name)
	}
	return s.osStep("unlink", []string{PathName(name)}, nil, func(Fault) (string, error) { return "", os.Remove(name) })
}

func OsRemoveAll(name string) error {
	s := cur
	if s == nil {
		return os.RemoveAll(name)
	}
	return s.osStep("removeall", []string{PathName(name)}, nil, func(Fault) (string, error) { return "", os.RemoveAll(name) })
}

func OsChtimes(name string, atime, mtime time.Time) error {
	s := cur
	if s == nil {
		return os.Chtimes(name, atime, mtime)
	}
	return s.osStep("chtimes", []string{PathName(name), fmt.Sprint(mtime.UnixNano())}, nil, func(Fault) (string, error) {
		return "", os.Chtimes(name, atime, mtime)
	})
}

func OsMkdirAll(name string, perm fs.FileMode) error {
	s := cur
	if s == nil {
		return os.MkdirAll(name, perm)
	}
	return s.osStep("mkdirall", []string{PathName(name)}, nil, func(Fault) (string, error) { return "", os.MkdirAll(name, perm) })
}

func OsWriteFile(name string, data []byte, perm fs.FileMode) error {
	f, err := OsOpenFile(name, os.O_WRONLY|os.O_CREATE|os.O_TRUNC, perm)
	if err != nil {
		return err
	}
	_, err = f.Write(data)
	if err1 := f.Close(); err1 != nil && err == nil {
		err = err1
	}
	return err
}

func OsReadFile(name string) ([]byte, error) {
	f, err := OsOpen(name)
	if err != nil {
		return nil, err
	}
	defer f.Close()
	return io.ReadAll(f)
}

// ---- flock(2): BSD semantics on open file descriptions, under the scheduler.
// The shim keeps its own table (so that "blocked" is a disabled step, not a blocked thread)
// and also takes the real non-blocking flock, which must agree.

func keyOf(f *os.File) inodeKey {
	fi, err := f.Stat()
	if err != nil {
		return inodeKey{}
	}
	st := fi.Sys().(*syscall.Stat_t)
	return inodeKey{uint64(st.Dev), st.Ino}
}

var byFd = map[uintptr]*OsFile{}

func (s *Sched) dropLocks(f *OsFile) {
	for _, ls := range s.locks {
		if ls.ex == f {
			ls.ex = nil
		}
		delete(ls.readers, f)
	}
}

func (s *Sched) fileByFd(fd int) *OsFile {
	for _, l := range s.files {
		for _, f := range l {
			if !f.closed && int(f.f.Fd()) == fd {
				return f
			}
		}
	}
	return nil
}

// SyscallFlock replaces syscall.Flock for files opened through the shim.
func SyscallFlock(fd int, how int) error {
	s := cur
	if s == nil {
		return syscall.Flock(fd, how)
	}
	f := s.fileByFd(fd)
	if f == nil {
		return syscall.EBADF
	}
	key := keyOf(f.f)
	ls := s.locks[key]
	if ls == nil {
		ls = &lockState{readers: map[*OsFile]bool{}}
		s.locks[key] = ls
	}
	kind := map[int]string{syscall.LOCK_SH: "SH", syscall.LOCK_EX: "EX", syscall.LOCK_UN: "UN"}[how&^syscall.LOCK_NB]
	compatible := func() bool {
		switch how &^ syscall.LOCK_NB {
		case syscall.LOCK_EX:
			if ls.ex != nil && ls.ex != f {
				return false
			}
			for r := range ls.readers {
				if r != f {
					return false
				}
			}
		case syscall.LOCK_SH:
			if ls.ex != nil && ls.ex != f {
				return false
			}
		}
		return true
	}
	return s.osStep("flock", []string{f.fdName, kind}, compatible, func(Fault) (string, error) {
		switch how &^ syscall.LOCK_NB {
		case syscall.LOCK_EX:
			delete(ls.readers, f)
			ls.ex = f
		case syscall.LOCK_SH:
			if ls.ex == f {
				ls.ex = nil
			}
			ls.readers[f] = true
		case syscall.LOCK_UN:
			if ls.ex == f {
				ls.ex = nil
			}
			delete(ls.readers, f)
		}
		if err := syscall.Flock(fd, how|syscall.LOCK_NB); err != nil {
			return "kernel-disagrees:" + err.Error(), err
		}
		return "", nil
	})
}

// ---- time

// TimeNow replaces time.Now: the scheduler's simulated clock.
func TimeNow() time.Time {
	s := cur
	if s == nil || s.Now == 0 {
		return time.Now()
	}
	return time.Unix(0, s.Now)
}

// TimeSleep replaces time.Sleep: advances nothing, just yields.
func TimeSleep(d time.Duration) {
	if cur == nil {
		time.Sleep(d)
		return
	}
	Step("sleep")
}

func (f *OsFile) WriteString(s string) (int, error) { return f.Write([]byte(s)) }
